(* C14 -- executable model of partitura/performance.py:
     adjust_offsets_w_sustain, PerformedPart.__init__ / sustain_pedal_threshold setter,
     PerformedNote field validation, PerformedPart.note_array / from_note_array,
     Performance.sanitize_track_numbers.
   Times are exact rationals (the harness feeds floats as the dyadic rationals they denote).
   Definitions only; proofs are in Proofs/C14*.v.  The model follows the code as it is after
   the repair of D21 (a note is clipped only by a strike of its pitch at or after its release). *)
From PV Require Import Lib.Base Lib.Round Model.C12.
From Coq Require Import QArith Qminmax Qabs.
#[local] Open Scope Q_scope.

Record note := mkNote { n_pitch : Z; n_vel : Z; n_on : Q; n_off : Q }.
Record ctrl := mkCtrl { c_num : Z; c_time : Q; c_val : Z }.

Definition Qltb (a b : Q) : bool := negb (Qle_bool b a).

(* ---- stable insertion sort by a rational key (np.argsort on distinct keys; on equal keys
        numpy's order is unspecified, the harness keeps such inputs out of the compared stream) *)
Section Sort.
  Context {A : Type} (key : A -> Q).
  Fixpoint insert_by (x : A) (l : list A) : list A :=
    match l with
    | [] => [x]
    | y :: r => if Qle_bool (key x) (key y) then x :: y :: r else y :: insert_by x r
    end.
  Definition sort_by (l : list A) : list A := fold_right insert_by [] l.
End Sort.

(* ---- the pedal *)
Definition is_pedal (c : ctrl) : bool := (c_num c =? 64)%Z.
Definition pedal_events (cs : list ctrl) : list ctrl := filter is_pedal cs.
(* pedal rows (time, value > threshold), in time order.  The code thresholds first and sorts
   the rows afterwards; a stable sort by time commutes with that. *)
Definition pedal_row (thr : Z) (c : ctrl) : Q * bool := (c_time c, (c_val c >? thr)%Z).
Definition sorted_pedal (cs : list ctrl) : list ctrl := sort_by c_time (pedal_events cs).

(* rows at which the thresholded state differs from the previous row: np.diff(...) != 0 *)
Fixpoint changes (prev : bool) (l : list (Q * bool)) : list (Q * bool) :=
  match l with
  | [] => []
  | (t, s) :: r => if Bool.eqb s prev then changes s r else (t, s) :: changes s r
  end.

Definition qmin_list (d : Q) (l : list Q) : Q := fold_right Qmin d l.
Definition qmax_list (d : Q) (l : list Q) : Q := fold_right Qmax d l.

(* the padded change table: np.vstack((min(t0-1, first_off-1), 0), pedal[0], changes, (max(tlast+1, last_off+1), 0)) *)
Definition end_sentinel (rows : list (Q * bool)) (last_off : Q) : Q :=
  Qmax (fst (last rows (0, false)) + 1) (last_off + 1).
Definition change_table (first_off last_off : Q) (rows : list (Q * bool)) : list (Q * bool) :=
  match rows with
  | [] => []
  | (t0, s0) :: r =>
      (Qmin (t0 - 1) (first_off - 1), false) :: (t0, s0) :: changes s0 r
        ++ [(end_sentinel rows last_off, false)]
  end.

(* np.searchsorted(xs, x) (side left) on a sorted array: number of leading entries < x *)
Fixpoint searchsorted_left (xs : list Q) (x : Q) : nat :=
  match xs with
  | [] => O
  | y :: r => if Qltb y x then S (searchsorted_left r x) else O
  end.

(* offs[pedal_down_at_off] = next_pedal_time[pedal_down_at_off] *)
Definition pedal_off (tab : list (Q * bool)) (off : Q) : Q :=
  let k := (searchsorted_left (map fst tab) off - 1)%nat in
  if snd (nth k tab (0, false)) then fst (nth (S k) tab (0, false)) else off.

(* ---- re-strike clipping, per pitch, in onset order *)
Definition indexed (ns : list note) : list (nat * note) := combine (seq 0 (List.length ns)) ns.
Definition pitch_group (ns : list note) (p : Z) : list (nat * note) :=
  sort_by (fun e => n_on (snd e)) (filter (fun e => (n_pitch (snd e) =? p)%Z) (indexed ns)).
Fixpoint after (i : nat) (g : list (nat * note)) : list (nat * note) :=
  match g with
  | [] => []
  | (j, n) :: r => if Nat.eqb i j then r else after i r
  end.
(* the next strike of the pitch, later in onset order, at or after the release *)
Definition next_strike (ns : list note) (i : nat) (n : note) : option Q :=
  match find (fun e => Qle_bool (n_off n) (n_on (snd e))) (after i (pitch_group ns (n_pitch n))) with
  | Some e => Some (n_on (snd e))
  | None => None
  end.
Definition clip (so : Q) (strike : option Q) : Q :=
  match strike with Some t => Qmin so t | None => so end.

(* ---- adjust_offsets_w_sustain: the new sound_off of every note, in note order *)
Definition sound_offs (thr : Z) (ns : list note) (cs : list ctrl) : list Q :=
  match sorted_pedal cs with
  | [] => map n_off ns
  | sp =>
      let offs := map n_off ns in
      let first_off := qmin_list (hd 0 offs) offs in
      let last_off := qmax_list (hd 0 offs) offs in
      let tab := change_table first_off last_off (map (pedal_row thr) sp) in
      map (fun e => clip (pedal_off tab (n_off (snd e))) (next_strike ns (fst e) (snd e))) (indexed ns)
  end.

(* ---- PerformedNote validation and PerformedPart construction *)
Definition valid_note (n : note) : bool :=
  (0 <=? n_pitch n)%Z && (n_pitch n <=? 127)%Z && (0 <=? n_vel n)%Z && (n_vel n <=? 127)%Z
  && Qle_bool 0 (n_on n) && Qle_bool (n_on n) (n_off n).

(* None = the constructor raises (a field check fails, or _validate_sound_off rejects a
   computed sound_off below note_off) *)
Definition construct (thr : Z) (ns : list note) (cs : list ctrl) : option (list Q) :=
  if forallb valid_note ns then
    let so := sound_offs thr ns cs in
    if forallb (fun p => Qle_bool (n_off (fst p)) (snd p)) (combine ns so) then Some so else None
  else None.

(* the part as a state: notes, controls, threshold, current sound_off of every note *)
Record part := mkPart { p_notes : list note; p_ctrls : list ctrl; p_thr : Z; p_so : list Q }.
(* the setter: stores the value and recomputes (a part without notes is left alone) *)
Definition set_threshold (p : part) (thr : Z) : part :=
  match p_notes p with
  | [] => mkPart (p_notes p) (p_ctrls p) thr (p_so p)
  | _ => mkPart (p_notes p) (p_ctrls p) thr (sound_offs thr (p_notes p) (p_ctrls p))
  end.
Definition new_part (thr : Z) (ns : list note) (cs : list ctrl) : part :=
  set_threshold (mkPart ns cs thr (map n_off ns)) thr.

(* PerformedPart(notes, controls, threshold) from note dicts that already carry a sound_off
   (copied from another part, or arbitrary values >= note_off): the carried values [so0] are
   stored first, then the constructor assigns the threshold *)
Definition new_part_carrying (thr : Z) (ns : list note) (so0 : list Q) (cs : list ctrl) : part :=
  set_threshold (mkPart ns cs thr so0) thr.

(* ---- note_array rows and from_note_array *)
Record narow := mkRow { r_pitch : Z; r_vel : Z; r_on : Q; r_dur : Q; r_on_tick : Z; r_dur_tick : Z }.
(* one row: onset, duration up to the sounding end, onset tick, tick(note_off) - tick(note_on) *)
Definition na_row (ppq mpq : Z) (x : note * Q) : narow :=
  let n := fst x in
  mkRow (n_pitch n) (n_vel n) (n_on n) (snd x - n_on n)
        (sec_to_tick ppq mpq (n_on n))
        (sec_to_tick ppq mpq (n_off n) - sec_to_tick ppq mpq (n_on n))%Z.
Definition note_array (ppq mpq : Z) (p : part) : list narow :=
  map (na_row ppq mpq) (combine (p_notes p) (p_so p)).
Definition note_of_row (r : narow) : note := mkNote (r_pitch r) (r_vel r) (r_on r) (r_on r + r_dur r).
Definition from_note_array (rows : list narow) : part :=
  new_part 64 (map note_of_row rows) [].

(* ---- operation histories over a performed part.  Every step ends with what makes the
   implementation recompute (an assignment of the threshold, or a constructor); between the edit
   and the assignment the part holds the sound_off values of its past ([p_so], stale). *)
Inductive step :=
| SetThr (t : Z)                         (* pp.sustain_pedal_threshold = t *)
| SetCtrls (cs : list ctrl) (t : Z)      (* pp.controls replaced / extended / pruned to cs, then threshold = t *)
| SetNotes (ns : list note) (t : Z)      (* note_on / note_off of notes edited, notes added / deleted, then threshold = t *)
| Rebuild (cs : list ctrl) (t : Z)       (* PerformedPart(notes of this part, carrying their sound_off; controls cs; threshold t) *)
| RoundTrip (ppq mpq : Z).               (* PerformedPart.from_note_array(pp.note_array()) *)

(* the stale column next to an edited note list (kept notes keep their value, a new note has
   its release; the values are irrelevant, only the shape is kept well-formed) *)
Definition stale (ns : list note) (so : list Q) : list Q :=
  if Nat.eqb (List.length so) (List.length ns) then so else map n_off ns.

Definition apply_step (p : part) (s : step) : part :=
  match s with
  | SetThr t => set_threshold p t
  | SetCtrls cs t => set_threshold (mkPart (p_notes p) cs (p_thr p) (p_so p)) t
  | SetNotes ns t => set_threshold (mkPart ns (p_ctrls p) (p_thr p) (stale ns (p_so p))) t
  | Rebuild cs t => new_part_carrying t (p_notes p) (p_so p) cs
  | RoundTrip ppq mpq => from_note_array (note_array ppq mpq p)
  end.
Definition run_history (p : part) (ss : list step) : part := fold_left apply_step ss p.

(* ---- Performance.sanitize_track_numbers: (part index, track) pairs -> new track numbers.
   The code enumerates list(set(pairs)) (arbitrary order); the model numbers the distinct
   pairs in order of first occurrence.  Compared up to a bijection of the new numbers. *)
Definition pair_eqb (a b : Z * Z) : bool := (fst a =? fst b)%Z && (snd a =? snd b)%Z.
Fixpoint mem_pair (a : Z * Z) (l : list (Z * Z)) : bool :=
  match l with [] => false | b :: r => pair_eqb a b || mem_pair a r end.
Fixpoint dedup (l : list (Z * Z)) (seen : list (Z * Z)) : list (Z * Z) :=
  match l with
  | [] => []
  | a :: r => if mem_pair a seen then dedup r seen else a :: dedup r (a :: seen)
  end.
Fixpoint index_of_pair (a : Z * Z) (l : list (Z * Z)) : option Z :=
  match l with
  | [] => None
  | b :: r => if pair_eqb a b then Some 0%Z
              else match index_of_pair a r with Some k => Some (k + 1)%Z | None => None end
  end.
Definition track_ids (pairs : list (Z * Z)) : list (Z * Z) := dedup pairs [].
Definition track_map (pairs : list (Z * Z)) (a : Z * Z) : option Z := index_of_pair a (track_ids pairs).

(* ---- checkers used by the correspondence (harness/props/c14.py) *)
Fixpoint forall2b {A B} (f : A -> B -> bool) (a : list A) (b : list B) : bool :=
  match a, b with
  | [], [] => true
  | x :: a', y :: b' => f x y && forall2b f a' b'
  | _, _ => false
  end.
Definition qlist_eqb (a b : list Q) : bool := list_eqb Qeq_bool a b.
Definition oqlist_eqb (a b : option (list Q)) : bool :=
  match a, b with
  | Some x, Some y => qlist_eqb x y
  | None, None => true
  | _, _ => false
  end.

(* The closing moment: when the pedal is still down after the last pedal event the code ends
   the note at max(last pedal time, last release) + 1 s.  The property does not say when such a
   note ends (there is no later moment with the pedal up and no later strike), so the
   correspondence asks of the implementation only observed >= release wherever the model's
   value is the closing moment; everywhere else the values must be equal.  (The closing moment
   is later than every pedal event, every onset and every release, so the model's value is the
   closing moment exactly when no candidate moment exists.) *)
Definition closing_time (ns : list note) (cs : list ctrl) : Q :=
  let offs := map n_off ns in
  Qmax (c_time (last (sorted_pedal cs) (mkCtrl 0 0 0)) + 1) (qmax_list (hd 0 offs) offs + 1).
Definition has_pedal (cs : list ctrl) : bool := match pedal_events cs with [] => false | _ => true end.
Definition end_ok (hp : bool) (ct : Q) (n : note) (m o : Q) : bool :=
  Qeq_bool m o || (hp && Qeq_bool m ct && Qle_bool (n_off n) o).
Fixpoint col_ok_from (hp : bool) (ct : Q) (rest : list note) (ms os : list Q) : bool :=
  match rest, ms, os with
  | [], [], [] => true
  | n :: r, m :: ms', o :: os' => end_ok hp ct n m o && col_ok_from hp ct r ms' os'
  | _, _, _ => false
  end.
(* [ms] the model's column for notes [ns] under controls [cs], [os] the observed one *)
Definition col_ok (ns : list note) (cs : list ctrl) (ms os : list Q) : bool :=
  let hp := has_pedal cs in
  let ct := closing_time ns cs in
  col_ok_from hp ct ns ms os.

(* construction followed by a sequence of threshold assignments; observed: the sound_off column
   after construction (None = raised) and after every assignment *)
Fixpoint history (p : part) (thrs : list Z) : list (list Q) :=
  match thrs with
  | [] => []
  | t :: r => let p' := set_threshold p t in p_so p' :: history p' r
  end.
Definition check_history (c : Z * list note * list ctrl * list Z * option (list Q) * list (list Q)) : bool :=
  let '(thr, ns, cs, thrs, obs0, obs) := c in
  match construct thr ns cs, obs0 with
  | Some m, Some o => col_ok ns cs m o && forall2b (col_ok ns cs) (history (new_part thr ns cs) thrs) obs
  | None, None => true
  | _, _ => false
  end.

(* construction from notes carrying sound_off values, followed by a history of steps; observed
   after construction and after every step: the (note_off column, sound_off column) of the part *)
Fixpoint trace (p : part) (ss : list step) : list part :=
  match ss with
  | [] => []
  | s :: r => let p' := apply_step p s in p' :: trace p' r
  end.
Definition state_ok (p : part) (o : list Q * list Q) : bool :=
  qlist_eqb (map n_off (p_notes p)) (fst o) && col_ok (p_notes p) (p_ctrls p) (p_so p) (snd o).
Definition check_steps (c : Z * list note * list Q * list ctrl * list step * list (list Q * list Q)) : bool :=
  let '(thr, ns, so0, cs, ss, obs) := c in
  let p := new_part_carrying thr ns so0 cs in
  forallb valid_note ns &&
  forallb (fun x => Qle_bool (n_off (fst x)) (snd x)) (combine ns so0) &&
  forall2b state_ok (p :: trace p ss) obs.

(* note_array: exact columns pitch, velocity, onset tick; duration tick only for notes that no
   pedal extends; the seconds columns are float32 in the implementation and compared in Python *)
(* what the property asks of the tick columns: the onset tick is the tick nearest to the onset
   in seconds (|.| <= 1/2), the duration in ticks is within one tick of the duration in seconds
   (two roundings) when no pedal extends the note; 1/1000 tick is allowed for the float evaluation *)
Definition tick_near (ppq mpq : Z) (t : Q) (k : Z) (tol : Q) : bool :=
  Qle_bool (Qabs (inject_Z (1000000 * ppq) * t / inject_Z mpq - inject_Z k)) tol.
Definition check_note_array (c : Z * Z * Z * list note * list ctrl * list (Z * Z * Z * option Z)) : bool :=
  let '(ppq, mpq, thr, ns, cs, obs) := c in
  forall2b (fun (n : note) (o : Z * Z * Z * option Z) =>
              let '(pi, ve, ot, dt) := o in
              (n_pitch n =? pi)%Z && (n_vel n =? ve)%Z && tick_near ppq mpq (n_on n) ot ((1 # 2) + (1 # 1000)) &&
              match dt with
              | Some d => tick_near ppq mpq (n_off n - n_on n) d (1 + (1 # 1000))
              | None => true
              end) ns obs.
(* the same rows against the model's own formulas (round-half-even of the onset; tick(release) -
   tick(onset)): counted in the evidence, not required *)
Definition check_note_array_exact (c : Z * Z * Z * list note * list ctrl * list (Z * Z * Z * option Z)) : bool :=
  let '(ppq, mpq, thr, ns, cs, obs) := c in
  let p := new_part thr ns cs in
  forall2b (fun (r : narow * (note * Q)) (o : Z * Z * Z * option Z) =>
              let '(pi, ve, ot, dt) := o in
              let '(row, (n, so)) := r in
              (r_pitch row =? pi)%Z && (r_vel row =? ve)%Z && (r_on_tick row =? ot)%Z &&
              match dt with
              | Some d => (r_dur_tick row =? d)%Z
              | None => true
              end)
           (combine (note_array ppq mpq p) (combine (p_notes p) (p_so p))) obs.

(* track renumbering: the implementation's new numbers induce the same partition of the
   (part, track) pairs as the model's: two events get one number exactly when they are of the
   same part and had one number before (which numbers are used is not prescribed) *)
Definition check_tracks (c : list ((Z * Z) * Z)) : bool :=
  let pairs := map fst c in
  forallb (fun x => forallb (fun y =>
      Bool.eqb (zopt_eqb (track_map pairs (fst x)) (track_map pairs (fst y))) (snd x =? snd y)%Z) c) c.
