(* C03 -- part list / part group structure.

   Executable model (no proofs here) of
     partitura/io/exportmusicxml.py  save_musicxml: handle_parents, close_group_stack
        (the exporter walks the flat list of parts; each part only knows its chain of parents;
         a group is opened when the first part below it arrives and closed LAZILY, when a part
         arrives that is not below it, or at the end)                          -> export_groups
     partitura/io/importmusicxml.py  _parse_partlist
        (current_group with parent pointers = a stack of open groups; a stop without an open
         group is an AttributeError; a group left open at the end is appended alone)  -> parse_groups
   and the SPEC: the eager serialisation of the tree (emit_f). *)
From PV Require Import Lib.Base.
#[local] Open Scope Z_scope.

Inductive node := NPart (p : Z) | NGroup (g : Z) (cs : list node).

Inductive tok := TStart (g : Z) | TStop (g : Z) | TPart (p : Z).

(* ---------------------------------------------------------------- exporter *)

(* Score.parts: the parts in order, each with its chain of parents, innermost first *)
Fixpoint chains_n (anc : list Z) (n : node) : list (list Z * Z) :=
  match n with
  | NPart p => [(anc, p)]
  | NGroup g cs => flat_map (chains_n (g :: anc)) cs
  end.
Definition chains_f (anc : list Z) (f : list node) : list (list Z * Z) := flat_map (chains_n anc) f.

Definition zmem (a : Z) (l : list Z) : bool := existsb (Z.eqb a) l.

(* while pg: if pg in group_stack: break; to_add.append(pg); pg = pg.parent *)
Fixpoint split_chain (anc stack : list Z) : list Z * option Z :=
  match anc with
  | [] => ([], None)
  | a :: r => if zmem a stack then ([], Some a)
              else let (t, pg) := split_chain r stack in (a :: t, pg)
  end.

(* while group_stack: if pg == group_stack[-1]: break; else close and pop   (stack: top first) *)
Fixpoint close_until (pg : option Z) (stack : list Z) : list Z * list Z :=
  match stack with
  | [] => ([], [])
  | top :: r =>
      if match pg with Some a => a =? top | None => false end then ([], stack)
      else let (c, s) := close_until pg r in (top :: c, s)
  end.

Definition handle_parents (anc stack : list Z) : list tok * list Z :=
  let (to_add, pg) := split_chain anc stack in
  let (closed, st) := close_until pg stack in
  (map TStop closed ++ map TStart (rev to_add), to_add ++ st).

Fixpoint run_parts (cs : list (list Z * Z)) (stack : list Z) : list tok * list Z :=
  match cs with
  | [] => ([], stack)
  | (anc, p) :: r =>
      let (t1, s1) := handle_parents anc stack in
      let (t2, s2) := run_parts r s1 in
      (t1 ++ TPart p :: t2, s2)
  end.

(* the <part-list> children written for a part structure (close_group_stack at the end) *)
Definition export_groups (f : list node) : list tok :=
  let (ts, st) := run_parts (chains_f [] f) [] in ts ++ map TStop st.

(* ---------------------------------------------------------------- importer *)

Definition frames := list (Z * list node).       (* open groups, innermost first, with their children so far *)

Definition add_child (n : node) (fr : frames) (top : list node) : frames * list node :=
  match fr with
  | [] => ([], top ++ [n])
  | (g, cs) :: r => ((g, cs ++ [n]) :: r, top)
  end.

Fixpoint parse_go (ts : list tok) (fr : frames) (top : list node) : option (list node) :=
  match ts with
  | [] => match fr with
          | [] => Some top
          | (g, cs) :: _ => Some (top ++ [NGroup g cs])     (* "part-group was not ended" *)
          end
  | TStart g :: r => parse_go r ((g, []) :: fr) top
  | TPart p :: r => let (fr', top') := add_child (NPart p) fr top in parse_go r fr' top'
  | TStop _ :: r =>
      match fr with
      | [] => None                                          (* current_group is None: AttributeError *)
      | (g, cs) :: fr1 => let (fr', top') := add_child (NGroup g cs) fr1 top in parse_go r fr' top'
      end
  end.

Definition parse_groups (ts : list tok) : option (list node) := parse_go ts [] [].

(* ---------------------------------------------------------------- SPEC *)

Fixpoint emit_n (n : node) : list tok :=
  match n with
  | NPart p => [TPart p]
  | NGroup g cs => TStart g :: flat_map emit_n cs ++ [TStop g]
  end.
Definition emit_f (f : list node) : list tok := flat_map emit_n f.

Fixpoint gids_n (n : node) : list Z :=
  match n with NPart _ => [] | NGroup g cs => g :: flat_map gids_n cs end.
Definition gids_f (f : list node) : list Z := flat_map gids_n f.

(* every group holds at least one part (a group without parts is unreachable from the parts and
   is not written) *)
Fixpoint has_part (n : node) : bool :=
  match n with NPart _ => true | NGroup _ cs => existsb has_part cs end.
Fixpoint groups_nonempty (n : node) : bool :=
  match n with NPart _ => true | NGroup _ cs => existsb has_part cs && forallb groups_nonempty cs end.

(* ---------------------------------------------------------------- boolean checkers *)

Definition tok_eqb (a b : tok) : bool :=
  match a, b with
  | TStart g, TStart g' => g =? g'
  | TStop g, TStop g' => g =? g'
  | TPart p, TPart p' => p =? p'
  | _, _ => false
  end.

Fixpoint node_eqb (a b : node) : bool :=
  match a, b with
  | NPart p, NPart p' => p =? p'
  | NGroup g cs, NGroup g' cs' =>
      (g =? g') && (fix go (x y : list node) : bool :=
                      match x, y with
                      | [], [] => true
                      | n :: x', m :: y' => node_eqb n m && go x' y'
                      | _, _ => false
                      end) cs cs'
  | _, _ => false
  end.

(* one generated score: the part structure, the <part-list> children as written (groups named by
   their number attribute) and the structure load_musicxml returned *)
Definition check_groups (c : list node * list tok * list node) : bool :=
  match c with (f, written, loaded) =>
    list_eqb tok_eqb (export_groups f) written &&
    match parse_groups written with
    | Some f' => list_eqb node_eqb f' loaded
    | None => false
    end
  end.
