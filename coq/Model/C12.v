(* C12 -- hand model / specification of the conversion functions of
   partitura/utils/music.py.  Executable definitions only; proofs are in
   Proofs/C12.v.  The tie to the source is Gen/C12_Tab.v (T2 tabulation). *)
From PV Require Import Lib.Base Lib.Round.
From Coq Require Import QArith Ascii NArith Decimal DecimalString.
#[local] Open Scope Z_scope.

Definition steps7 : list string := ["C"; "D"; "E"; "F"; "G"; "A"; "B"]%string.

(* twelve-tone pitch class of a step letter (either case) *)
Definition base_pc (s : string) : option Z :=
  slookup s [("C", 0); ("D", 2); ("E", 4); ("F", 5); ("G", 7); ("A", 9); ("B", 11);
             ("c", 0); ("d", 2); ("e", 4); ("f", 5); ("g", 7); ("a", 9); ("b", 11)]%string.

Definition ps_to_midi (step : string) (alter octave : Z) : option Z :=
  b <- base_pc step ;; Some ((octave + 1) * 12 + b + alter).

(* pitch class of a spelling (partitura.utils.music.step2pc) *)
Definition step2pc (step : string) (alter : Z) : option Z :=
  b <- base_pc step ;; Some ((b + alter) mod 12).

Definition upper_step (s : string) : string :=
  match slookup s [("c", "C"); ("d", "D"); ("e", "E"); ("f", "F"); ("g", "G"); ("a", "A"); ("b", "B")]%string with
  | Some u => u
  | None => s
  end.

(* midi_pitch_to_pitch_spelling: the ALGORITHM of the code over whatever pitch-class
   table it uses (DUMMY_PS_BASE_CLASS, reflected into Gen/C12_Tab.tab_dummy_ps on every
   run): spelling of the pitch class, octave m // 12 - 1, step in upper case. *)
Definition midi_to_ps_with (tab : list (Z * (string * Z))) (m : Z) : option (string * Z * Z) :=
  match zlookup (m mod 12) tab with
  | Some (s, a) => Some (upper_step s, a, m / 12 - 1)
  | None => None
  end.

(* what the algorithm needs of its table: every pitch class 0..11 has an entry (step, alter)
   whose step letter is known and base pitch class + alter is that pitch class exactly (no
   wrap across the octave boundary, which the octave formula could not compensate) *)
Definition dummy_ok (tab : list (Z * (string * Z))) : bool :=
  forallb (fun pc => match zlookup pc tab with
                     | Some (s, a) => zopt_eqb (base_pc s) (Some (pc - a))
                     | None => false
                     end) (zrange 0 12).

(* one table that satisfies it: sharps only *)
Definition sharps_table : list (Z * (string * Z)) :=
  [(0, ("c", 0)); (1, ("c", 1)); (2, ("d", 0)); (3, ("d", 1)); (4, ("e", 0)); (5, ("f", 0));
   (6, ("f", 1)); (7, ("g", 0)); (8, ("g", 1)); (9, ("a", 0)); (10, ("a", 1)); (11, ("b", 0))]%string.

(* the implementation's answer on m is right when it is a spelling that sounds m *)
Definition sounds (m : Z) (sp : string * Z * Z) : bool :=
  let '(s, a, o) := sp in zopt_eqb (ps_to_midi s a o) (Some m).

(* ---- note names: step, accidentals, decimal octave ---- *)
Definition alter_sign (a : Z) : string :=
  match a with
  | 0 => "" | 1 => "#" | 2 => "x" | 3 => "###"
  | -1 => "b" | -2 => "bb" | -3 => "bbb" | _ => "?"
  end%string.

Definition digits (n : N) : string := NilEmpty.string_of_uint (N.to_uint n).
Definition print_octave (o : Z) : string :=
  if o <? 0 then String "-" (digits (Z.to_N (- o))) else digits (Z.to_N o).
Definition digit (d : Z) : string := print_octave d.

Definition note_name (s : string) (a o : Z) : string := (s ++ alter_sign a ++ print_octave o)%string.

(* value of an accidental sign, one semitone per sign: '#', 's' sharp; 'b', 'f', '-' flat;
   'x' double sharp; 'n' natural *)
Definition sign_char_value (c : ascii) : option Z :=
  match c with
  | "#" | "s" => Some 1
  | "b" | "f" | "-" => Some (-1)
  | "x" => Some 2
  | "n" => Some 0
  | _ => None
  end%char.
Fixpoint sign_value (s : string) : option Z :=
  match s with
  | EmptyString => Some 0
  | String c r => v <- sign_char_value c ;; w <- sign_value r ;; Some (v + w)
  end.

(* the grammar [A-G][xb#]*digits of note_name_to_pitch_spelling *)
Definition is_step_char (c : ascii) : bool :=
  match c with "A" | "B" | "C" | "D" | "E" | "F" | "G" => true | _ => false end%char.
Definition is_acc_char (c : ascii) : bool :=
  match c with "x" | "b" | "#" => true | _ => false end%char.
Fixpoint split_acc (s : string) : string * string :=
  match s with
  | EmptyString => (EmptyString, EmptyString)
  | String c r => if is_acc_char c then let '(a, t) := split_acc r in (String c a, t)
                  else (EmptyString, s)
  end.
(* accidental strings with a documented meaning (SIGN_TO_ALTER); any other string over
   x, b, # may be rejected, but if it is accepted it counts one semitone per sign *)
Definition documented_acc (a : string) : bool :=
  existsb (String.eqb a) [""; "#"; "x"; "##"; "###"; "b"; "bb"; "bbb"]%string.

Definition parse_name (n : string) : option (string * Z * Z) :=
  match n with
  | String c r =>
      if is_step_char c then
        let '(a, t) := split_acc r in
        match t, NilEmpty.uint_of_string t, sign_value a with
        | String _ _, Some d, Some v => Some (String c EmptyString, v, Z.of_N (N.of_uint d))
        | _, _, _ => None
        end
      else None
  | EmptyString => None
  end.
Definition name_documented (n : string) : bool :=
  match n with
  | String c r => documented_acc (fst (split_acc r))
  | EmptyString => false
  end.

Definition ps_eqb (x y : string * Z * Z) : bool :=
  let '(s, a, o) := x in let '(s', a', o') := y in String.eqb s s' && Z.eqb a a' && Z.eqb o o'.
Definition psopt_eqb (x y : option (string * Z * Z)) : bool :=
  match x, y with Some u, Some v => ps_eqb u v | None, None => true | _, _ => false end.

(* implementation result r on a string n of the grammar: equal to the model's reading; a
   rejection is tolerated only for an undocumented accidental string *)
Definition parse_agrees (n : string) (r : option (string * Z * Z)) : bool :=
  match r with
  | Some _ => psopt_eqb r (parse_name n)
  | None => negb (name_documented n) || match parse_name n with None => true | Some _ => false end
  end.

(* keys *)
Definition major_keys : list string :=
  ["Cb"; "Gb"; "Db"; "Ab"; "Eb"; "Bb"; "F"; "C"; "G"; "D"; "A"; "E"; "B"; "F#"; "C#"]%string.
Definition minor_keys : list string :=
  ["Abm"; "Ebm"; "Bbm"; "Fm"; "Cm"; "Gm"; "Dm"; "Am"; "Em"; "Bm"; "F#m"; "C#m"; "G#m"; "D#m"; "A#m"]%string.

(* mode spellings are numbered as in Gen/C12_Tab.mode_spellings:
   0 "major" 1 "minor" 2 None 3 "none" 4 1 5 -1 6 "dorian" 7 0 8 "Major" *)
Inductive mode := Major | Minor.
Definition mode_of_spelling (mi : Z) : option mode :=
  match mi with
  | 0 | 2 | 3 | 4 => Some Major
  | 1 | 5 => Some Minor
  | _ => None
  end.

Definition key_name (fifths : Z) (m : mode) : option string :=
  if (-7 <=? fifths) && (fifths <=? 7) then
    nth_error (match m with Major => major_keys | Minor => minor_keys end) (Z.to_nat (fifths + 7))
  else None.

Definition key_name_sp (fifths mi : Z) : option string :=
  m <- mode_of_spelling mi ;; key_name fifths m.

Fixpoint index_of (s : string) (l : list string) (i : Z) : option Z :=
  match l with
  | [] => None
  | x :: r => if String.eqb s x then Some i else index_of s r (i + 1)
  end.

Definition key_parse (name : string) : option (Z * mode) :=
  match index_of name major_keys (-7) with
  | Some f => Some (f, Major)
  | None => match index_of name minor_keys (-7) with
            | Some f => Some (f, Minor)
            | None => None
            end
  end.

Definition mode_string (m : mode) : string := match m with Major => "major" | Minor => "minor" end.
Definition mode_int (m : mode) : Z := match m with Major => 1 | Minor => -1 end.

(* interval classes: size in semitones = size of the major/perfect interval + quality offset *)
Definition is_perfect (n : Z) : bool := (n =? 1) || (n =? 4) || (n =? 5).
Definition major_size (n : Z) : option Z :=
  zlookup n [(1, 0); (2, 2); (3, 4); (4, 5); (5, 7); (6, 9); (7, 11)].
Definition quality_offset (perfect : bool) (q : string) : option Z :=
  if perfect then slookup q [("dd", -2); ("d", -1); ("P", 0); ("A", 1); ("AA", 2)]%string
  else slookup q [("dd", -3); ("d", -2); ("m", -1); ("M", 0); ("A", 1); ("AA", 2)]%string.
Definition interval_semitones (n : Z) (q : string) : option Z :=
  s <- major_size n ;; o <- quality_offset (is_perfect n) q ;; Some (s + o).

(* durations (quarters) *)
#[local] Open Scope Q_scope.
Definition label_dur (u : string) : option Q :=
  slookup u [("long", 16#1); ("breve", 8#1); ("whole", 4#1); ("half", 2#1); ("h", 2#1);
             ("quarter", 1#1); ("q", 1#1); ("eighth", 1#2); ("e", 1#2); ("16th", 1#4);
             ("32nd", 1#8); ("64th", 1#16); ("128th", 1#32); ("256th", 1#64)]%string.
Definition dot_mult (k : Z) : Q := 2 - 1 / inject_Z (2 ^ k).
Definition sym_dur (u : string) (dots an nn divs : Z) : option Q :=
  match label_dur u with
  | Some l => Some (inject_Z divs * l * dot_mult dots * (inject_Z nn / inject_Z an))
  | None => None
  end.

(* seconds <-> MIDI ticks *)
Definition sec_to_tick (ppq mpq : Z) (t : Q) : Z :=
  round_half_even (inject_Z (1000000 * ppq) * t / inject_Z mpq).
Definition tick_to_sec (ppq mpq k : Z) : Q :=
  inject_Z (mpq * k) / inject_Z (1000000 * ppq).

(* tuplets: Tuplet.duration_multiplier = normal/actual, rescaled when the two note types differ *)
Definition tuplet_mult (an nn : Z) (atype ntype : string) : option Q :=
  if String.eqb atype ntype then Some (inject_Z nn / inject_Z an)
  else match label_dur atype, label_dur ntype with
       | Some la, Some ln => Some (inject_Z nn / inject_Z an * ln / la)
       | _, _ => None
       end.

(* tempo: unit=bpm means bpm * (unit in quarters) quarters per minute *)
Definition quarter_tempo (u : string) (dots : Z) (tempo : Q) : option Q :=
  match label_dur u with Some l => Some (tempo * dot_mult dots * l) | None => None end.
(* exact microseconds per quarter; Tempo.microseconds_per_quarter is the nearest integer *)
Definition mpq_exact (u : string) (dots : Z) (bpm : Q) : option Q :=
  match quarter_tempo u dots bpm with Some qt => Some (60000000 / qt) | None => None end.
Definition mpq_slack : Q := 1 # 1000000.
Definition mpq_nearest (x : Z) (e : Q) : bool := Qle_bool (Qabs.Qabs (e - inject_Z x)) ((1 # 2) + mpq_slack).

(* relative closeness used for float-valued table rows *)
Definition q_close (a b : Q) : bool :=
  Qle_bool (Qabs.Qabs (a - b)) (Qabs.Qabs b * (1 # 1000000000)).
Definition qopt_close (v e : option Q) : bool :=
  match v, e with Some a, Some b => q_close a b | _, _ => false end.
