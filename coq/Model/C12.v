(* C12 -- hand model / specification of the conversion functions of
   partitura/utils/music.py.  Executable definitions only; proofs are in
   Proofs/C12.v.  The tie to the source is Gen/C12_Tab.v (T2 tabulation). *)
From PV Require Import Lib.Base Lib.Round.
From Coq Require Import QArith.
#[local] Open Scope Z_scope.

Definition steps7 : list string := ["C"; "D"; "E"; "F"; "G"; "A"; "B"]%string.

(* twelve-tone pitch class of a step letter (either case) *)
Definition base_pc (s : string) : option Z :=
  slookup s [("C", 0); ("D", 2); ("E", 4); ("F", 5); ("G", 7); ("A", 9); ("B", 11);
             ("c", 0); ("d", 2); ("e", 4); ("f", 5); ("g", 7); ("a", 9); ("b", 11)]%string.

Definition ps_to_midi (step : string) (alter octave : Z) : option Z :=
  b <- base_pc step ;; Some ((octave + 1) * 12 + b + alter).

(* the dummy spelling: sharps only *)
Definition pc_spelling (pc : Z) : string * Z :=
  match pc with
  | 0 => ("C", 0) | 1 => ("C", 1) | 2 => ("D", 0) | 3 => ("D", 1) | 4 => ("E", 0)
  | 5 => ("F", 0) | 6 => ("F", 1) | 7 => ("G", 0) | 8 => ("G", 1) | 9 => ("A", 0)
  | 10 => ("A", 1) | _ => ("B", 0)
  end%string.

Definition midi_to_ps (m : Z) : string * Z * Z :=
  let '(s, a) := pc_spelling (m mod 12) in (s, a, m / 12 - 1).

(* note names: step, accidentals, decimal octave *)
Definition alter_sign (a : Z) : string :=
  match a with
  | 0 => "" | 1 => "#" | 2 => "x" | 3 => "###"
  | -1 => "b" | -2 => "bb" | -3 => "bbb" | _ => "?"
  end%string.

Definition digit (d : Z) : string :=
  match d with 0 => "0" | 1 => "1" | 2 => "2" | 3 => "3" | 4 => "4" | 5 => "5"
             | 6 => "6" | 7 => "7" | 8 => "8" | 9 => "9" | _ => "-1" end%string.

Definition note_name (s : string) (a o : Z) : string := (s ++ alter_sign a ++ digit o)%string.

(* keys *)
Definition major_keys : list string :=
  ["Cb"; "Gb"; "Db"; "Ab"; "Eb"; "Bb"; "F"; "C"; "G"; "D"; "A"; "E"; "B"; "F#"; "C#"]%string.
Definition minor_keys : list string :=
  ["Abm"; "Ebm"; "Bbm"; "Fm"; "Cm"; "Gm"; "Dm"; "Am"; "Em"; "Bm"; "F#m"; "C#m"; "G#m"; "D#m"; "A#m"]%string.

(* mode spellings are numbered as in Gen/C12_Tab.mode_spellings:
   0 "major" 1 "minor" 2 None 3 "none" 4 1 5 -1 6 "dorian" 7 0 8 "Major" *)
Inductive mode := Major | Minor.
Definition mode_of_spelling (mi : Z) : option mode :=
  match mi with
  | 0 | 2 | 3 | 4 => Some Major
  | 1 | 5 => Some Minor
  | _ => None
  end.

Definition key_name (fifths : Z) (m : mode) : option string :=
  if (-7 <=? fifths) && (fifths <=? 7) then
    nth_error (match m with Major => major_keys | Minor => minor_keys end) (Z.to_nat (fifths + 7))
  else None.

Definition key_name_sp (fifths mi : Z) : option string :=
  m <- mode_of_spelling mi ;; key_name fifths m.

Fixpoint index_of (s : string) (l : list string) (i : Z) : option Z :=
  match l with
  | [] => None
  | x :: r => if String.eqb s x then Some i else index_of s r (i + 1)
  end.

Definition key_parse (name : string) : option (Z * mode) :=
  match index_of name major_keys (-7) with
  | Some f => Some (f, Major)
  | None => match index_of name minor_keys (-7) with
            | Some f => Some (f, Minor)
            | None => None
            end
  end.

Definition mode_string (m : mode) : string := match m with Major => "major" | Minor => "minor" end.
Definition mode_int (m : mode) : Z := match m with Major => 1 | Minor => -1 end.

(* interval classes: size in semitones = size of the major/perfect interval + quality offset *)
Definition is_perfect (n : Z) : bool := (n =? 1) || (n =? 4) || (n =? 5).
Definition major_size (n : Z) : option Z :=
  zlookup n [(1, 0); (2, 2); (3, 4); (4, 5); (5, 7); (6, 9); (7, 11)].
Definition quality_offset (perfect : bool) (q : string) : option Z :=
  if perfect then slookup q [("dd", -2); ("d", -1); ("P", 0); ("A", 1); ("AA", 2)]%string
  else slookup q [("dd", -3); ("d", -2); ("m", -1); ("M", 0); ("A", 1); ("AA", 2)]%string.
Definition interval_semitones (n : Z) (q : string) : option Z :=
  s <- major_size n ;; o <- quality_offset (is_perfect n) q ;; Some (s + o).

(* durations (quarters) *)
#[local] Open Scope Q_scope.
Definition label_dur (u : string) : option Q :=
  slookup u [("long", 16#1); ("breve", 8#1); ("whole", 4#1); ("half", 2#1); ("h", 2#1);
             ("quarter", 1#1); ("q", 1#1); ("eighth", 1#2); ("e", 1#2); ("16th", 1#4);
             ("32nd", 1#8); ("64th", 1#16); ("128th", 1#32); ("256th", 1#64)]%string.
Definition dot_mult (k : Z) : Q := 2 - 1 / inject_Z (2 ^ k).
Definition sym_dur (u : string) (dots an nn divs : Z) : option Q :=
  match label_dur u with
  | Some l => Some (inject_Z divs * l * dot_mult dots * (inject_Z nn / inject_Z an))
  | None => None
  end.

(* seconds <-> MIDI ticks *)
Definition sec_to_tick (ppq mpq : Z) (t : Q) : Z :=
  round_half_even (inject_Z (1000000 * ppq) * t / inject_Z mpq).
Definition tick_to_sec (ppq mpq k : Z) : Q :=
  inject_Z (mpq * k) / inject_Z (1000000 * ppq).

(* relative closeness used for float-valued table rows *)
Definition q_close (a b : Q) : bool :=
  Qle_bool (Qabs.Qabs (a - b)) (Qabs.Qabs b * (1 # 1000000000)).
