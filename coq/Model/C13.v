(* C13 -- executable model of partitura/utils/music.py:
     compute_pianoroll, _make_pianoroll, compute_pitch_class_pianoroll, pianoroll_to_notearray.
   Definitions and boolean checkers only; proofs are in Proofs/C13*.v.
   The model is tied to the source by the correspondence run of harness/props/c13.py, which
   evaluates exactly these definitions (vm_compute) on the inputs the implementation ran on. *)
From PV Require Import Lib.Base Lib.Round.
From Coq Require Import QArith Qround Qabs.
#[local] Open Scope Z_scope.

(* ------------------------------------------------------------------------- *)
(* note arrays as compute_pianoroll sees them *)

Inductive tunit := UBeat | UQuarter | UDiv | USec | UTick.

Definition tunit_eqb (a b : tunit) : bool :=
  match a, b with
  | UBeat, UBeat | UQuarter, UQuarter | UDiv, UDiv | USec, USec | UTick, UTick => true
  | _, _ => false
  end.

Definition has_unit (u : tunit) (us : list tunit) : bool := existsb (tunit_eqb u) us.

(* get_time_units_from_note_array: score units win over performance units; beat > quarter > div; sec > tick *)
Definition infer_unit (us : list tunit) : option tunit :=
  if has_unit UBeat us || has_unit UQuarter us || has_unit UDiv us then
    if has_unit UBeat us then Some UBeat
    else if has_unit UQuarter us then Some UQuarter else Some UDiv
  else if has_unit USec us || has_unit UTick us then
    if has_unit USec us then Some USec else Some UTick
  else None.

(* time_div == "auto" *)
Definition auto_div (u : tunit) : Z :=
  match u with UDiv | UTick => 1 | _ => 8 end.

(* one row of the structured array: pitch, (onset, duration) for every unit column pair present
   (parallel to the array's unit list), velocity, channel *)
Definition arow := (Z * list (Q * Q) * Z * Z)%type.
(* units present, has a velocity field, has a channel field, rows *)
Definition narr := (list tunit * bool * bool * list arow)%type.

(* the four columns _make_pianoroll works on *)
Definition note := (Z * Q * Q * Z)%type.
Definition n_pitch (n : note) : Z := let '(p, _, _, _) := n in p.
Definition n_onset (n : note) : Q := let '(_, o, _, _) := n in o.
Definition n_dur (n : note) : Q := let '(_, _, d, _) := n in d.
Definition n_vel (n : note) : Z := let '(_, _, _, v) := n in v.

Fixpoint unit_pos (u : tunit) (us : list tunit) : option nat :=
  match us with
  | [] => None
  | x :: r => if tunit_eqb u x then Some O else option_map S (unit_pos u r)
  end.

Fixpoint all_some {A} (l : list (option A)) : option (list A) :=
  match l with
  | [] => Some []
  | Some x :: r => option_map (cons x) (all_some r)
  | None :: _ => None
  end.

(* field selection + drum filtering (channel 9 dropped when a channel field exists and
   remove_drums is set) + velocity default 1 *)
Definition select_rows (a : narr) (u : tunit) (remove_drums : bool) : option (list note) :=
  let '(us, has_vel, has_chan, rows) := a in
  match unit_pos u us with
  | None => None
  | Some k =>
      let kept := if has_chan && remove_drums
                  then filter (fun r : arow => let '(_, _, _, ch) := r in negb (ch =? 9)) rows
                  else rows in
      all_some (map (fun r : arow =>
                  let '(p, ts, v, _) := r in
                  match nth_error ts k with
                  | Some (on, du) => Some (p, on, du, if has_vel then v else 1)
                  | None => None
                  end) kept)
  end.

(* ------------------------------------------------------------------------- *)
(* _make_pianoroll *)

Record opts := mkOpts {
  o_time_div : Z;
  o_onset_only : bool;
  o_note_sep : bool;
  o_pitch_margin : Z;
  o_time_margin : Z;
  o_piano_range : bool;
  o_remove_silence : bool;
  o_end_time : option Q;
  o_binary : bool
}.

(* np.argsort(onset) as a stable insertion sort of the index-tagged rows; the same permutation
   is applied to pitch, onset, duration AND velocity (after the D19 repair) *)
Fixpoint ins_on (x : nat * note) (l : list (nat * note)) : list (nat * note) :=
  match l with
  | [] => [x]
  | y :: r => if Qle_bool (n_onset (snd x)) (n_onset (snd y)) then x :: y :: r else y :: ins_on x r
  end.

Definition sort_on (ns : list note) : list (nat * note) :=
  fold_right ins_on [] (combine (seq 0 (List.length ns)) ns).

Definition qmin (a b : Q) : Q := if Qle_bool a b then a else b.
Definition qmin_list (l : list Q) (d : Q) : Q := fold_left qmin l d.

(* min_time: onset[0] of the sorted column when remove_silence, else 0, or min(onset) if negative *)
Definition min_time (o : opts) (sorted : list note) : Q :=
  match sorted with
  | [] => 0%Q
  | n0 :: _ =>
      if o_remove_silence o then n_onset n0
      else let m := qmin_list (map n_onset sorted) (n_onset n0) in
           if Qle_bool 0 m then 0%Q else m
  end.

Definition fr_on (o : opts) (mt : Q) (n : note) : Z :=
  round_half_even (inject_Z (o_time_div o) * (n_onset n - mt)) + o_time_margin o * o_time_div o.

(* np.clip(np.round(time_div * duration), a_min=1) *)
Definition fr_dur (o : opts) (n : note) : Z :=
  Z.max 1 (round_half_even (inject_Z (o_time_div o) * n_dur n)).

Definition fr_off_nom (o : opts) (mt : Q) (n : note) : Z := fr_on o mt n + fr_dur o n.

(* the pr_offset column the code ends with (third column of the index rows); in onset-only mode
   only the onset frame is filled and the column is onset + 1 *)
Definition fr_off (o : opts) (mt : Q) (n : note) : Z :=
  if o_onset_only o then fr_on o mt n + 1
  else Z.max (fr_on o mt n + 1) (fr_off_nom o mt n - (if o_note_sep o then 1 else 0)).

(* one past the last frame the note fills *)
Definition fr_end (o : opts) (mt : Q) (n : note) : Z :=
  if o_onset_only o then fr_on o mt n + 1 else fr_off o mt n.

Definition zmax_list (l : list Z) (d : Z) : Z := fold_left Z.max l d.
Definition zmin_list (l : list Z) (d : Z) : Z := fold_left Z.min l d.

Definition lowest_pitch (o : opts) (ns : list note) : Z :=
  if -1 <? o_pitch_margin o
  then match ns with [] => 0 | n0 :: _ => zmin_list (map n_pitch ns) (n_pitch n0) end
  else 0.
Definition highest_pitch (o : opts) (ns : list note) : Z :=
  if -1 <? o_pitch_margin o
  then match ns with [] => 127 | n0 :: _ => zmax_list (map n_pitch ns) (n_pitch n0) end
  else 127.

(* number of rows before the piano-range slice *)
Definition n_rows_full (o : opts) (ns : list note) : Z :=
  let span := highest_pitch o ns - lowest_pitch o ns + 1 in
  if -1 <? o_pitch_margin o then span + 2 * o_pitch_margin o else span.

(* row of a note before the piano-range slice *)
Definition row_full (o : opts) (lo : Z) (n : note) : Z :=
  if -1 <? o_pitch_margin o then n_pitch n - lo + o_pitch_margin o else n_pitch n.

Definition pr_start (o : opts) : Z := if o_piano_range o then 21 else 0.
Definition n_rows_out (o : opts) (m : Z) : Z :=
  if o_piano_range o then Z.max 0 (Z.min m 109 - 21) else m.

Definition max_off_nom (o : opts) (mt : Q) (sorted : list note) : Z :=
  match sorted with
  | [] => 0
  | n0 :: _ => zmax_list (map (fr_off_nom o mt) sorted) (fr_off_nom o mt n0)
  end.

(* number of columns; None = ValueError (end_time before the last offset) *)
Definition n_cols (o : opts) (mt : Q) (sorted : list note) : option Z :=
  let td := o_time_div o in
  let tm := o_time_margin o in
  match o_end_time o with
  | None => Some (td * tm + max_off_nom o mt sorted)
  | Some e =>
      let e' := (e - mt)%Q in
      if Qle_bool (inject_Z (max_off_nom o mt sorted)) (e' * inject_Z td + inject_Z (tm * td))
      then Some (Qceiling (inject_Z (2 * td * tm) + inject_Z td * e'))
      else None
  end.

Definition cell := (Z * Z * Z)%type.   (* row, column, value *)

(* the (row, col, vel) triples the code stacks into _idx_fill for one note *)
Definition note_cells (o : opts) (mt : Q) (lo : Z) (n : note) : list cell :=
  let r := row_full o lo n in
  let a := fr_on o mt n in
  map (fun c => (r, c, n_vel n)) (zrange a (Z.to_nat (fr_end o mt n - a))).

(* fill_dict: first occurrence fixes the position, value = max of everything appended *)
Fixpoint put (m : list cell) (r c v : Z) : list cell :=
  match m with
  | [] => [(r, c, v)]
  | (r', c', v') :: m' =>
      if (r =? r') && (c =? c') then (r', c', Z.max v' v) :: m' else (r', c', v') :: put m' r c v
  end.

Fixpoint get (m : list cell) (r c : Z) : option Z :=
  match m with
  | [] => None
  | (r', c', v') :: m' => if (r =? r') && (c =? c') then Some v' else get m' r c
  end.

Definition fill (cs : list cell) : list cell :=
  fold_left (fun m x => let '(r, c, v) := x in put m r c v) cs [].

Definition binarize (b : bool) (v : Z) : Z := if b then (if v =? 0 then 0 else 1) else v.

Definition in_shape (rows cols : Z) (x : cell) : bool :=
  let '(r, c, _) := x in (0 <=? r) && (r <? rows) && (0 <=? c) && (c <? cols).

(* pianoroll[21:109, :] *)
Definition slice_rows (o : opts) (m : list cell) : list cell :=
  if o_piano_range o
  then map (fun x : cell => let '(r, c, v) := x in (r - 21, c, v))
           (filter (fun x : cell => let '(r, _, _) := x in (21 <=? r) && (r <? 109)) m)
  else m.

Definition idxrow := (Z * Z * Z * Z)%type.   (* row in the roll, onset column, offset column, MIDI pitch *)

Fixpoint pos_of (i : nat) (l : list nat) : nat :=
  match l with
  | [] => O
  | x :: r => if Nat.eqb i x then O else S (pos_of i r)
  end.

(* rows, columns, stored cells (distinct positions), per-note index rows in input order *)
Record roll := mkRoll { r_rows : Z; r_cols : Z; r_cells : list cell; r_idx : list idxrow }.

Definition cell_at (m : list cell) (r c : Z) : Z :=
  match get m r c with Some v => v | None => 0 end.

Definition make_pianoroll (o : opts) (ns : list note) : option roll :=
  match ns with
  | [] => None                                                    (* "Note array is empty" *)
  | _ =>
    if existsb (fun n => negb (Qle_bool 0 (n_dur n))) ns then None   (* negative duration *)
    else
      let tagged := sort_on ns in
      let idx := map fst tagged in
      let sorted := map snd tagged in
      let mt := min_time o sorted in
      let lo := lowest_pitch o ns in
      let m := n_rows_full o ns in
      match n_cols o mt sorted with
      | None => None
      | Some n =>
          let filled := fill (flat_map (note_cells o mt lo) sorted) in
          if forallb (in_shape m n) filled then      (* scipy rejects indices outside the shape *)
            let cells := slice_rows o (map (fun x : cell => let '(r, c, v) := x in (r, c, binarize (o_binary o) v)) filled) in
            let pr_idx := map (fun n0 => (row_full o lo n0 - pr_start o, fr_on o mt n0, fr_off o mt n0, n_pitch n0)) sorted in
            let out_idx := map (fun i => nth (pos_of i idx) pr_idx (0, 0, 0, 0)) (seq 0 (List.length ns)) in
            Some (mkRoll (n_rows_out o m) n cells out_idx)
          else None
      end
  end.

(* compute_pianoroll: unit inference / selection, auto time_div, drum filtering, then _make_pianoroll *)
Record copts := mkCopts {
  c_time_unit : option tunit;     (* None = "auto" *)
  c_time_div : option Z;          (* None = "auto" *)
  c_remove_drums : bool;
  c_opts : opts                   (* o_time_div of this record is ignored *)
}.

Definition with_div (o : opts) (td : Z) : opts :=
  mkOpts td (o_onset_only o) (o_note_sep o) (o_pitch_margin o) (o_time_margin o) (o_piano_range o)
         (o_remove_silence o) (o_end_time o) (o_binary o).

Definition resolve_unit (a : narr) (tu : option tunit) : option tunit :=
  match tu with
  | Some u => Some u
  | None => let '(us, _, _, _) := a in infer_unit us
  end.

Definition compute_pianoroll (c : copts) (a : narr) : option roll :=
  match resolve_unit a (c_time_unit c) with
  | None => None
  | Some u =>
      let td := match c_time_div c with Some d => d | None => auto_div u end in
      match select_rows a u (c_remove_drums c) with
      | None => None
      | Some ns => make_pianoroll (with_div (c_opts c) td) ns
      end
  end.

(* ------------------------------------------------------------------------- *)
(* compute_pitch_class_pianoroll *)

(* sum of the eleven 12-row slices; slice i has a row c only if 12 i + c < 128 *)
Definition pc_cell (m : list cell) (c j : Z) : Z :=
  fold_left Z.add
    (map (fun i => if c + 12 * i <? 128 then cell_at m (c + 12 * i) j else 0) (zrange 0 11)) 0.

Definition pc_bin (b : bool) (x : Z) : Z := if b then (if 0 <? x then 1 else x) else x.

Definition pc_col (m : list cell) (b : bool) (j : Z) : list Z :=
  map (fun c => pc_bin b (pc_cell m c j)) (zrange 0 12).

Definition zsum (l : list Z) : Z := fold_left Z.add l 0.

(* norm_term with zero replaced by one *)
Definition pc_norm (m : list cell) (b : bool) (j : Z) : Z :=
  let s := zsum (pc_col m b j) in if s =? 0 then 1 else s.

Definition pc_value (m : list cell) (b normalize : bool) (c j : Z) : Q :=
  let x := pc_bin b (pc_cell m c j) in
  if normalize then (inject_Z x / inject_Z (pc_norm m b j))%Q else inject_Z x.

Record pcopts := mkPcopts {
  p_normalize : bool;
  p_time_unit : option tunit;
  p_time_div : option Z;
  p_onset_only : bool;
  p_note_sep : bool;
  p_time_margin : Z;
  p_remove_silence : bool;
  p_end_time : option Q;
  p_binary : bool
}.

(* the full roll the pitch-class roll is folded from (pitch_margin -1, no piano range, drums removed,
   binary applied only after folding) with index rows folded to pitch classes *)
Definition pc_source (p : pcopts) (a : narr) : option roll :=
  match compute_pianoroll
          (mkCopts (p_time_unit p) (p_time_div p) true
             (mkOpts 1 (p_onset_only p) (p_note_sep p) (-1) (p_time_margin p) false
                     (p_remove_silence p) (p_end_time p) false)) a with
  | None => None
  | Some r =>
      Some (mkRoll (r_rows r) (r_cols r) (r_cells r)
              (map (fun x : idxrow => let '(r0, a0, b0, p0) := x in (r0 mod 12, a0, b0, p0)) (r_idx r)))
  end.

(* ------------------------------------------------------------------------- *)
(* pianoroll_to_notearray: run-length decoding.  The code scans column by column with a dict of
   sounding pitches; since rows do not interact and the result is finally sorted by
   (onset, pitch, offset, velocity), the model decodes row by row (see design.d/C13.md). *)

Definition run := (Z * Z * Z)%type.    (* value, first column, one past the last column *)

Fixpoint rle (f : Z -> Z) (n : nat) (j : Z) (cur : option (Z * Z)) : list run :=
  match n with
  | O => match cur with Some (v, a) => [(v, a, j)] | None => [] end
  | S n' =>
      let x := f j in
      match cur with
      | None => rle f n' (j + 1) (if x =? 0 then None else Some (x, j))
      | Some (v, a) =>
          if x =? v then rle f n' (j + 1) cur
          else (v, a, j) :: rle f n' (j + 1) (if x =? 0 then None else Some (x, j))
      end
  end.

Definition dnote := (Z * Z * Z * Z)%type.   (* row, first column, one past last column, value *)

Definition row_runs (m : list cell) (cols : Z) (p : Z) : list dnote :=
  map (fun x : run => let '(v, a, b) := x in (p, a, b, v)) (rle (cell_at m p) (Z.to_nat cols) 0 None).

(* key=lambda x: (onset, pitch, offset, velocity) *)
Definition dnote_leb (x y : dnote) : bool :=
  let '(p1, a1, b1, v1) := x in
  let '(p2, a2, b2, v2) := y in
  if a1 <? a2 then true else if a2 <? a1 then false
  else if p1 <? p2 then true else if p2 <? p1 then false
  else if b1 <? b2 then true else if b2 <? b1 then false
  else v1 <=? v2.

Fixpoint ins_dn (x : dnote) (l : list dnote) : list dnote :=
  match l with
  | [] => [x]
  | y :: r => if dnote_leb x y then x :: y :: r else y :: ins_dn x r
  end.

Definition sort_dn (l : list dnote) : list dnote := fold_right ins_dn [] l.

Definition decode_frames (rows cols : Z) (m : list cell) : list dnote :=
  sort_dn (flat_map (row_runs m cols) (zrange 0 (Z.to_nat rows))).

(* pitch, onset, duration (in time units), velocity; None = ValueError (shape not 128 / 88 rows) *)
Definition pianoroll_to_notearray (rows cols : Z) (m : list cell) (time_div : Z) : option (list (Z * Q * Q * Z)) :=
  let out init :=
    Some (map (fun x : dnote => let '(p, a, b, v) := x in
                 (p + init, (inject_Z a / inject_Z time_div)%Q, (inject_Z (b - a) / inject_Z time_div)%Q, v))
              (decode_frames rows cols m)) in
  if rows =? 128 then out 0 else if rows =? 88 then out 21 else None.

(* The same decoding as the code performs it: ONE pass over the columns with a dictionary of the
   sounding notes (`active_notes`: row -> [velocity, first column]; insertion-ordered like a Python dict)
   and a list of finished notes.  Proofs/C13_scan.v proves that this column scan and the row-wise
   decoder above return the same notes (Permutation) for every roll. *)
Definition active := list (Z * (Z * Z)).     (* row, (velocity, first column) *)

Fixpoint act_find (r : Z) (a : active) : option (Z * Z) :=
  match a with
  | [] => None
  | (r', x) :: t => if r =? r' then Some x else act_find r t
  end.

Fixpoint act_remove (r : Z) (a : active) : active :=
  match a with
  | [] => []
  | (r', x) :: t => if r =? r' then t else (r', x) :: act_remove r t
  end.

(* a note leaves the dictionary at column ts: [row, velocity, first, ts] *)
Definition ended (ts : Z) (e : Z * (Z * Z)) : dnote := let '(r, (v, a)) := e in (r, a, ts, v).

(* `for note in active:` -- one sounding row r of column ts (rows holding 0 are not in `active`) *)
Definition scan_row (col : Z -> Z) (ts : Z) (s : active * list dnote) (r : Z) : active * list dnote :=
  let v := col r in
  if v =? 0 then s
  else
    let '(ac, ou) := s in
    match act_find r ac with
    | None => (ac ++ [(r, (v, ts))], ou)
    | Some (v', a) =>
        if v =? v' then s
        else (act_remove r ac ++ [(r, (v, ts))], ou ++ [(r, a, ts, v')])
    end.

(* one column: first the notes of the dictionary that no longer sound are moved to the list (in
   dictionary order), then the sounding rows are visited in ascending order *)
Definition scan_col (rows : list Z) (col : Z -> Z) (ts : Z) (s : active * list dnote) : active * list dnote :=
  let '(act, out) := s in
  let gone := filter (fun e : Z * (Z * Z) => col (fst e) =? 0) act in
  let kept := filter (fun e : Z * (Z * Z) => negb (col (fst e) =? 0)) act in
  fold_left (scan_row col ts) rows (kept, out ++ map (ended ts) gone).

Fixpoint scan (rows : list Z) (f : Z -> Z -> Z) (n : nat) (ts : Z) (s : active * list dnote) : active * list dnote :=
  match n with
  | O => s
  | S k => scan rows f k (ts + 1) (scan_col rows (fun r => f r ts) ts s)
  end.

(* ... `append any note left`, then the sort *)
Definition scan_frames (rows cols : Z) (m : list cell) : list dnote :=
  let '(act, out) := scan (zrange 0 (Z.to_nat rows)) (cell_at m) (Z.to_nat cols) 0 ([], []) in
  sort_dn (out ++ map (ended (Z.of_nat (Z.to_nat cols))) act).

Definition pianoroll_to_notearray_scan (rows cols : Z) (m : list cell) (time_div : Z) : option (list (Z * Q * Q * Z)) :=
  let out init :=
    Some (map (fun x : dnote => let '(p, a, b, v) := x in
                 (p + init, (inject_Z a / inject_Z time_div)%Q, (inject_Z (b - a) / inject_Z time_div)%Q, v))
              (scan_frames rows cols m)) in
  if rows =? 128 then out 0 else if rows =? 88 then out 21 else None.

(* ------------------------------------------------------------------------- *)
(* checkers used by the correspondence (implementation output printed as Coq terms) *)

Definition obs_run := (Z * Z * Z * Z)%type.   (* row, first column, one past last column, value <> 0 *)

Definition idxrow_eqb (x y : idxrow) : bool :=
  let '(a1, b1, c1, d1) := x in let '(a2, b2, c2, d2) := y in
  (a1 =? a2) && (b1 =? b2) && (c1 =? c2) && (d1 =? d2).

(* dense comparison: every cell of every observed run has the model's value, and every non-zero
   model cell lies in an observed run -- together with equal shapes this is cell-by-cell equality of
   the dense arrays (runs list ALL non-zero cells of toarray()) *)
Definition dense_matches (cells : list cell) (runs : list obs_run) : bool :=
  forallb (fun x : obs_run => let '(r, a, b, v) := x in
             negb (v =? 0) && forallb (fun c => cell_at cells r c =? v) (zrange a (Z.to_nat (b - a)))) runs
  && forallb (fun x : cell => let '(r, c, v) := x in
             (v =? 0) || existsb (fun y : obs_run => let '(r', a, b, v') := y in
                                    (r =? r') && (a <=? c) && (c <? b) && (v =? v')) runs) cells.

(* observed: None = the implementation raised ValueError; Some (rows, cols, runs, idx rows if requested) *)
Definition obs_roll := option (Z * Z * list obs_run * option (list idxrow))%type.

Definition roll_matches (m : option roll) (ob : obs_roll) : bool :=
  match m, ob with
  | None, None => true
  | Some r, Some (rows, cols, runs, oidx) =>
      (r_rows r =? rows) && (r_cols r =? cols) && dense_matches (r_cells r) runs
      && match oidx with None => true | Some l => list_eqb idxrow_eqb (r_idx r) l end
  | _, _ => false
  end.

Definition check_pianoroll (x : copts * narr * obs_roll) : bool :=
  let '(c, a, ob) := x in roll_matches (compute_pianoroll c a) ob.

(* pitch-class roll: observed runs carry exact rationals *)
Definition obs_qrun := (Z * Z * Z * Q)%type.
Definition obs_pc := option (Z * list obs_qrun * option (list idxrow))%type.

Definition check_pc (x : pcopts * narr * obs_pc) : bool :=
  let '(p, a, ob) := x in
  match pc_source p a, ob with
  | None, None => true
  | Some r, Some (cols, runs, oidx) =>
      let val := pc_value (r_cells r) (p_binary p) (p_normalize p) in
      (r_cols r =? cols)
      && forallb (fun y : obs_qrun => let '(c, a0, b0, q) := y in
                    negb (Qeq_bool q 0) && (0 <=? c) && (c <? 12)
                    && forallb (fun j => Qeq_bool (val c j) q) (zrange a0 (Z.to_nat (b0 - a0)))) runs
      && forallb (fun y : cell => let '(r0, j, _) := y in
                    Qeq_bool (val (r0 mod 12) j) 0
                    || existsb (fun z : obs_qrun => let '(c, a0, b0, _) := z in
                                  (c =? r0 mod 12) && (a0 <=? j) && (j <? b0)) runs) (r_cells r)
      && match oidx with None => true | Some l => list_eqb idxrow_eqb (r_idx r) l end
  | _, _ => false
  end.

(* decoding: the roll handed to the implementation is given by its non-zero cells *)
Definition qnote_eqb (x y : Z * Q * Q * Z) : bool :=
  let '(p1, a1, d1, v1) := x in let '(p2, a2, d2, v2) := y in
  (p1 =? p2) && Qeq_bool a1 a2 && Qeq_bool d1 d2 && (v1 =? v2).

(* lists equal up to order (the property asks that every note comes back, not in which order) *)
Fixpoint remove_first {A} (eqb : A -> A -> bool) (x : A) (l : list A) : option (list A) :=
  match l with
  | [] => None
  | y :: r => if eqb x y then Some r else option_map (cons y) (remove_first eqb x r)
  end.

Fixpoint perm_eqb {A} (eqb : A -> A -> bool) (a b : list A) : bool :=
  match a with
  | [] => match b with [] => true | _ => false end
  | x :: r => match remove_first eqb x b with Some b' => perm_eqb eqb r b' | None => false end
  end.

Definition check_decode (x : Z * Z * list cell * Z * option (list (Z * Q * Q * Z))) : bool :=
  let '(rows, cols, m, td, ob) := x in
  match pianoroll_to_notearray rows cols m td, pianoroll_to_notearray_scan rows cols m td, ob with
  | None, None, None => true
  | Some l, Some ls, Some l' => perm_eqb qnote_eqb l l' && perm_eqb qnote_eqb ls l'
  | _, _, _ => false
  end.

(* round trip: the model's decoder on the model's roll of the case = the note array the implementation
   decoded from its own roll (up to order) *)
Definition check_roundtrip (x : copts * narr * Z * option (list (Z * Q * Q * Z))) : bool :=
  let '(c, a, td, ob) := x in
  match compute_pianoroll c a with
  | None => match ob with None => true | Some _ => false end
  | Some R =>
      match pianoroll_to_notearray (r_rows R) (r_cols R) (r_cells R) td, ob with
      | Some l, Some l' => perm_eqb qnote_eqb l l'
      | None, None => true
      | _, _ => false
      end
  end.
