(* C02_Api -- two more pieces of partitura/score.py inside the model of C02.

   1. The loop of Part._time_interpolator as the code runs it: the dict `keypoints`
      (t -> [divs or None, beat factor or None]), the sweep over sorted(keypoints.keys()) with the
      running values cur_div / cur_bt (initially 1, 1), the rows [t, div, bt] it appends (the test
      `kp != keypoints_list[-1]` compares a 2-list with a 3-list and never drops a row), and
      y = r_[0, cumsum(bt[:-1] * diff(x) / div[:-1])].  Proofs/C02_api.v proves that this is the
      table-lookup form `base_pts` of Model/C02.v (the one all map theorems are about).

   2. The timeline glue around the maps, as the public API builds it call by call:
      add(Note, s, e), add(Measure, s, e), add(TimeSignature, t), remove(TimeSignature at t),
      set_quarter_duration, the musical-beat switches -- in any order.  A time point exists exactly
      where an object present in the part starts or ends; first_point / last_point are the smallest
      / largest of them; m1 = next(first_point.iter_starting(Measure)) is the first measure, in call
      order, that starts at the first point.  Model/C02_Hist.v got first / last / m1 as inputs;
      here the model computes them from the history.
   3. partitura.utils.generic.interp1d as the maps call it (scipy with more than one sample, the constant with a
      single one) and Part.quarter_duration_map as the code builds it (a single entry doubled, kind="previous",
      fill_value=(y[0], y[-1])), at rational times.
   Definitions only. *)
From PV Require Import Lib.Base Model.C02 Model.C02_Hist.
From Coq Require Import QArith Qround.
#[local] Open Scope Z_scope.

(* ---------------------------------------------------------------- the sweep *)
(* keypoints[t][i] after `for t, v in table: keypoints[t][i] = v` (a later entry for the same
   time replaces an earlier one); None when no entry has key t *)
Fixpoint dict_get {A} (tbl : list (Z * A)) (t : Z) (acc : option A) : option A :=
  match tbl with
  | [] => acc
  | (k, v) :: r => dict_get r t (if k =? t then Some v else acc)
  end.

(* for t in sorted(keys): kp[0] = cur_div if None else (cur_div := kp[0]); same for kp[1];
   keypoints_list.append([t] + kp) *)
Fixpoint sweep (getd : Z -> option Z) (getb : Z -> option Q) (cur_div : Z) (cur_bt : Q)
         (keys : list Z) : list (Z * Z * Q) :=
  match keys with
  | [] => []
  | t :: r =>
      let d := match getd t with Some q => q | None => cur_div end in
      let b := match getb t with Some f => f | None => cur_bt end in
      (t, d, b) :: sweep getd getb d b r
  end.

Definition kp_rows (m : tmode) (p : part) : list (Z * Z * Q) :=
  sweep (fun t => dict_get (p_qs p) t None) (fun t => dict_get (bt_table m p) t None) 1 1%Q (kp_xs m p).

(* cumsum over the rows but the last: segment i contributes bt_i * (x_{i+1} - x_i) / div_i
   (written (bt_i / div_i) * dx, the same rational) *)
Fixpoint cumsum_rows (y0 : Q) (rows : list (Z * Z * Q)) : list (Z * Q) :=
  match rows with
  | [] => []
  | (t0, d0, b0) :: r =>
      match r with
      | [] => []
      | (t1, _, _) :: _ =>
          let y1 := (y0 + (b0 / inject_Z d0) * inject_Z (t1 - t0))%Q in (t1, y1) :: cumsum_rows y1 r
      end
  end.

Definition sweep_knots (rows : list (Z * Z * Q)) : list (Z * Q) :=
  match rows with
  | [] => []
  | (t0, _, _) :: _ => (t0, 0%Q) :: cumsum_rows 0%Q rows
  end.

(* (x, y) before the pickup shift, as the loop computes them *)
Definition sweep_pts (m : tmode) (p : part) : list (Q * Q) := injx (sweep_knots (kp_rows m p)).
(* the points handed to interp1d *)
Definition sweep_time_pts (m : tmode) (p : part) : list (Q * Q) := shift_pts (pickup_shift m p) (sweep_pts m p).

(* ---------------------------------------------------------------- API histories *)
Inductive aop :=
| ASetQ (t q : Z)              (* set_quarter_duration(t, q) *)
| AAddTs (t beats type : Z)    (* add(TimeSignature(beats, type), t) *)
| ARemTs (t : Z)               (* remove(the TimeSignature that starts at t) *)
| AAddNote (s e : Z)           (* add(Note, s, e) *)
| AAddMeasure (s e : Z)        (* add(Measure, s, e) *)
| ABeat (op : beat_op).        (* the three musical-beat switches *)

(* notes and measures in call order (the order of TimePoint.starting_objects[cls]) *)
Record astate := mk_astate { a_h : hstate; a_notes : list (Z * Z); a_meas : list (Z * Z) }.

Definition ainit (q0 : Z) : astate := mk_astate (hinit q0) [] [].

Definition rem_ts (t : Z) (l : list tsig) : list tsig := filter (fun ts => negb (ts_t ts =? t)) l.

Definition astep (st : astate) (op : aop) : astate :=
  match op with
  | ASetQ t q => mk_astate (hstep (a_h st) (HSetQ t q)) (a_notes st) (a_meas st)
  | AAddTs t b bt => mk_astate (hstep (a_h st) (HAddTs t b bt)) (a_notes st) (a_meas st)
  | ABeat o => mk_astate (hstep (a_h st) (HBeat o)) (a_notes st) (a_meas st)
  | ARemTs t =>
      mk_astate (mk_hstate (h_qs (a_h st)) (h_flag (a_h st)) (rem_ts t (h_tss (a_h st)))) (a_notes st) (a_meas st)
  | AAddNote s e => mk_astate (a_h st) (a_notes st ++ [(s, e)]) (a_meas st)
  | AAddMeasure s e => mk_astate (a_h st) (a_notes st) (a_meas st ++ [(s, e)])
  end.

Definition arun (q0 : Z) (h : list aop) : astate := fold_left astep h (ainit q0).

(* the times at which an object present in the part starts or ends = the time points *)
Definition ends_of (l : list (Z * Z)) : list Z := flat_map (fun se => [fst se; snd se]) l.
Definition a_times (st : astate) : list Z :=
  ends_of (a_notes st) ++ ends_of (a_meas st) ++ map ts_t (h_tss (a_h st)).

Definition zmin_of (l : list Z) : Z := match l with [] => 0 | x :: r => fold_left Z.min r x end.
Definition zmax_of (l : list Z) : Z := match l with [] => 0 | x :: r => fold_left Z.max r x end.

Definition afirst (st : astate) : Z := zmin_of (a_times st).   (* first_point.t *)
Definition alast (st : astate) : Z := zmax_of (a_times st).    (* last_point.t *)

(* m1 = next(self.first_point.iter_starting(Measure), None) *)
Definition am1 (st : astate) : option (Z * Z) := find (fun se => fst se =? afirst st) (a_meas st).

Definition apart_of (st : astate) : part :=
  mk_part (afirst st) (alast st) (h_qs (a_h st)) (h_tss (a_h st)) (am1 st).
Definition amode_of (st : astate) : tmode := if h_flag (a_h st) then Musical else Beat.

Definition apart (q0 : Z) (h : list aop) : part := apart_of (arun q0 h).
Definition amode (q0 : Z) (h : list aop) : tmode := amode_of (arun q0 h).

(* ---------------------------------------------------------------- the interpolation wrapper *)
(* partitura.utils.generic.interp1d as the maps call it: with more than one sample scipy's interp1d,
   with a single sample the constant function (scipy would raise) *)

(* interp1d(x, y): kind="linear", bounds_error=False, fill_value=nan *)
Definition wrap_linear (pts : list (Q * Q)) (t : Q) : option Q :=
  match pts with
  | [] => None
  | [(_, y)] => Some y
  | _ => interp pts t
  end.

(* scipy kind="previous" on samples sorted by x (of equal x the later sample counts), t rational:
   the value of the last sample with x <= t *)
Fixpoint prev_q (tbl : list (Z * Z)) (t : Q) (d : Z) : Z :=
  match tbl with
  | [] => d
  | (k, v) :: r => if Qle_bool (inject_Z k) t then prev_q r t v else d
  end.

(* interp1d(x, y, kind="previous", bounds_error=False, fill_value=(lo, hi)) *)
Definition sc_previous (tbl : list (Z * Z)) (lo hi : Z) (t : Q) : Z :=
  match tbl with
  | [] => lo
  | (k0, _) :: _ =>
      if Qle_bool (inject_Z k0) t
      then (if Qle_bool t (inject_Z (fst (last tbl (0, 0)))) then prev_q tbl t lo else hi)
      else lo
  end.

Definition wrap_previous (tbl : list (Z * Z)) (lo hi : Z) (t : Q) : Z :=
  match tbl with
  | [] => lo
  | [(_, y)] => y
  | _ => sc_previous tbl lo hi t
  end.

(* Part.quarter_duration_map: x, y = _quarter_times, _quarter_durations; a single entry is doubled;
   interp1d(x, y, kind="previous", bounds_error=False, fill_value=(y[0], y[-1])) *)
Definition qd_map_impl (tbl : list (Z * Z)) (t : Q) : Z :=
  let tbl2 := match tbl with [e] => [e; e] | _ => tbl end in
  match tbl2 with
  | [] => 1
  | (_, y0) :: _ => wrap_previous tbl2 y0 (snd (last tbl2 (0, 1))) t
  end.

(* ---------------------------------------------------------------- correspondence checker *)
(* one case: initial quarter duration, the history of calls, the implementation's
   (first_point.t, last_point.t), then as in Model/C02_Hist.v: per observed position
     (t, quarter_map t, beat_map t, inv_quarter_map (quarter_map t), inv_beat_map (beat_map t), quarter_duration_map t),
   inverse probes (v, inv_quarter_map v, inv_beat_map v), quarter-duration probes (t, quarter_duration_map t).
   The forward values are compared with BOTH forms of the model: the table-lookup form (time_pts, the
   one of the theorems) and the sweep handed to the wrapper (wrap_linear (sweep_time_pts ..)); the quarter
   durations with the lookup form qd_map and with quarter_duration_map as built (qd_map_impl). *)
Definition c02_acase : Type :=
  (Z * list aop * (Z * Z) *
   list (Z * option Q * option Q * option Q * option Q * Z) *
   list (Q * option Q * option Q) * list (Q * Z))%type.

Definition check_acase (c : c02_acase) : bool :=
  let '(q0, h, fl, obs, probes, qprobes) := c in
  let st := arun q0 h in
  let p := apart_of st in
  let bm := amode_of st in
  let qp := time_pts Quarter p in
  let bp := time_pts bm p in
  let qs := sweep_time_pts Quarter p in
  let bs := sweep_time_pts bm p in
  let qpi := swap_pts qp in
  let bpi := swap_pts bp in
  (fst fl =? p_first p) && (snd fl =? p_last p) &&
  forallb (fun o =>
    let '(t, qv, bv, iq, ib, qd) := o in
    oclose qv (interp qp (inject_Z t)) && oclose bv (interp bp (inject_Z t)) &&
    oclose qv (wrap_linear qs (inject_Z t)) && oclose bv (wrap_linear bs (inject_Z t)) &&
    inv_ok qpi t qv iq && inv_ok bpi t bv ib && (qd =? qd_map p t) && (qd =? qd_map_impl (p_qs p) (inject_Z t))) obs &&
  forallb (fun o =>
    let '(v, iq, ib) := o in oclose iq (interp qpi v) && oclose ib (interp bpi v)) probes &&
  forallb (fun o => let '(t, qd) := o in (qd =? qd_map p (Qfloor t)) && (qd =? qd_map_impl (p_qs p) t)) qprobes.
