(* C11 -- specification predicates used in the statements of Props/C11.v (no proofs).
   The executable model is Model/C11.v. *)
From PV Require Import Lib.Base Lib.Round Gen.C11_Tables Model.C11.
From Coq Require Import QArith Qabs Qround Qminmax Sorting.Sorted.
#[local] Open Scope Z_scope.

(* a list of intervals runs from a to b without gap or overlap, every interval non-empty *)
Fixpoint chain_from (a : Z) (l : list (Z * Z)) (b : Z) : Prop :=
  match l with
  | [] => a = b
  | p :: r => fst p = a /\ fst p < snd p /\ chain_from (snd p) r b
  end.

(* consecutive pieces touch *)
Fixpoint contiguous (l : list (Z * Z)) : Prop :=
  match l with
  | [] => True
  | p :: r => match r with [] => True | q :: _ => snd p = fst q end /\ contiguous r
  end.

Definition within_one (ms : list (Z * Z)) (p : Z * Z) : Prop :=
  exists m, In m ms /\ fst m <= fst p /\ snd p <= snd m.


(* did the estimator hit its value exactly (no use of the eps tolerance)? *)
Definition exact_hit (d div : Z) : bool :=
  let qdur := (inject_Z d / inject_Z div)%Q in
  let i := find_nearest durs qdur in
  if Qltb (Qabs (qdur - qnth durs i)) eps_default then Qeq_bool qdur (qnth durs i)
  else
    let k := count_lt straight_durs qdur in
    match iter2 tuplet_fuel (tuplet_step eps_default (qnth straight_durs k) qdur) 2 with
    | inr (a, n) => Qeq_bool (inject_Z n * qnth straight_durs k / qdur) (inject_Z a)
    | inl _ => false
    end.


Definition span (m : meas) : Z * Z := (m_start m, m_end m).
Definition spans (ms : list meas) : list (Z * Z) := map span ms.

(* existing measures are non-empty and lie within the extent of the part *)
Definition ex_pos (ex : list (Z * Z)) : Prop := forall m, In m ex -> fst m < snd m.
Definition ex_within (ex : list (Z * Z)) (first last : Z) : Prop :=
  forall m, In m ex -> first <= fst m /\ snd m <= last.


Definition new_ok (ex : list (Z * Z)) (bl : Q) (last ts_end : Z) (m : meas) : Prop :=
  m_old m = false ->
  m_end m = Z.min ts_end (full_end bl last (m_start m))
  \/ (m_end m < Z.min ts_end (full_end bl last (m_start m)) /\ exists x, In x ex /\ fst x = m_end m).


Definition st_span (s : Z * Z * Q) : Z * Z := (fst (fst s), snd (fst s)).
Definition st_bl (s : Z * Z * Q) : Q := snd s.


Definition new_ok_all (ex : list (Z * Z)) (last : Z) (ss : list (Z * Z * Q)) (m : meas) : Prop :=
  m_old m = false ->
  exists s, In s ss /\ fst (st_span s) <= m_start m < snd (st_span s)
            /\ new_ok ex (st_bl s) last (snd (st_span s)) m.


Definition ts_ok (tsigs : list (Z * Z * Z)) (first last : Z) : Prop :=
  tsigs <> [] /\ first < last /\ StronglySorted Z.lt (map row_t tsigs)
  /\ Forall (fun r => first <= row_t r <= last) tsigs.


(* the hypotheses of the add_measures theorems: signatures strictly sorted within [first, last],
   first < last, existing measures non-empty and within [first, last].  An existing measure may
   run across a signature change. *)
Definition pre (tsigs : list (Z * Z * Z)) (first last : Z) (ex : list (Z * Z)) : Prop :=
  ts_ok tsigs first last /\ ex_pos ex /\ ex_within ex first last.

(* existing measures are listed in time order and do not overlap *)
Definition ex_sorted (ex : list (Z * Z)) : Prop := StronglySorted (fun x y => snd x <= fst y) ex.

(* the signature row whose stretch this is, and no signature row starts strictly inside the stretch *)
Definition stretch_in_force (div : Z) (rows : list (Z * Z * Z)) (s : Z * Z * Q) : Prop :=
  exists b bt, In (fst (st_span s), b, bt) rows /\ st_bl s = barlen div b bt
               /\ forall r, In r rows -> ~ (fst (st_span s) < row_t r < snd (st_span s)).
