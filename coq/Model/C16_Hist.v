(* C16 -- state carried on the ARGUMENT between calls: the Score object transpose() is given.

   A Score (partitura/score.py: class Score) holds TWO views of its parts:
       self.parts           flat list, computed once by __init__ as list(iter_parts(partlist))
       self.part_structure  the list of parts and groups it was built from
   and everything that reads a score -- score[i], iteration, len, Score.note_array -- reads `parts`.
   The public operations that change a score touch `parts` only:
       score[i] = part                        __setitem__: self.parts[index] = part
       unfold_part_maximal / _minimal(score)  deep copy, then new_score.parts = [unfolded parts]
   and a part reachable through `parts` can be edited in place (notes added / removed, a pitch assigned).
   transpose(score, iv) (partitura/utils/music.py) deep-copies the score and moves the notes of every part of
   the copy's `parts`; the argument stays as it is, the result can be transposed again.

   Value-level machine: a part is its list of elements (fingerprint, pitch or None) as in Model/C16.v, the
   construction-time structure is kept flat.  An edit in place is the new content of the part at that index.
   Definitions and boolean checkers only; proofs are in Proofs/C16_hist.v.  All names carry the prefix sh_. *)
From PV Require Import Lib.Base Model.C16.
#[local] Open Scope Z_scope.

Definition sh_part := list elem.

Record sh_score := sh_mk { sh_parts : list sh_part; sh_structure : list sh_part }.

(* Score.__init__(partlist), groups already flattened *)
Definition sh_init (partlist : list sh_part) : sh_score := sh_mk partlist partlist.

Fixpoint sh_set_nth {A} (i : nat) (x : A) (l : list A) : option (list A) :=
  match l, i with
  | [], _ => None
  | _ :: r, O => Some (x :: r)
  | y :: r, S j => match sh_set_nth j x r with Some r' => Some (y :: r') | None => None end
  end.

Fixpoint sh_map_opt {A B} (f : A -> option B) (l : list A) : option (list B) :=
  match l with
  | [] => Some []
  | x :: r => match f x, sh_map_opt f r with Some y, Some r' => Some (y :: r') | _, _ => None end
  end.

(* transpose(score, Interval(n, q, up)): "parts = new_score.parts; for part in parts: for note in part.notes: ..."
   -- the result's parts are the argument's CURRENT parts, each transposed; the structure the copy carries along is
   not read (it is kept here as it was) *)
Definition sh_transpose (n q : Z) (up : bool) (s : sh_score) : option sh_score :=
  match sh_map_opt (transpose_elems n q up) (sh_parts s) with
  | Some ps => Some (sh_mk ps (sh_structure s))
  | None => None
  end.

(* what every public view of the result shows: result.parts = [result[i]] = list(iter(result)), and the rows of
   result.note_array() are read off these *)
Definition sh_view (n q : Z) (up : bool) (s : sh_score) : option (list sh_part) :=
  option_map sh_parts (sh_transpose n q up s).

(* the variant that walks the structure the score was BUILT from: what it shows for a score with a history *)
Definition sh_view_stale (n q : Z) (up : bool) (s : sh_score) : option (list sh_part) :=
  sh_map_opt (transpose_elems n q up) (sh_structure s).

Inductive sh_op :=
| ShSet (i : nat) (p : sh_part)          (* score[i] = p                 (IndexError when i is out of range) *)
| ShEdit (i : nat) (p : sh_part)         (* notes of score.parts[i] added / removed / re-pitched in place: new content *)
| ShReplaceAll (ps : list sh_part)       (* score = unfold_part_maximal/minimal(score): the copy's parts replaced *)
| ShAdopt (n q : Z) (up : bool)          (* score = transpose(score, iv): the RESULT is the next argument *)
| ShTr (n q : Z) (up : bool).            (* transpose(score, iv) observed, the argument kept *)

(* the operations on the flat list alone *)
Definition sh_lstep (l : list sh_part) (o : sh_op) : option (list sh_part) :=
  match o with
  | ShSet i p => sh_set_nth i p l
  | ShEdit i p => sh_set_nth i p l
  | ShReplaceAll ps => Some ps
  | ShAdopt n q up => sh_map_opt (transpose_elems n q up) l
  | ShTr _ _ _ => Some l
  end.

Fixpoint sh_lrun (ops : list sh_op) (l : list sh_part) : option (list sh_part) :=
  match ops with
  | [] => Some l
  | o :: r => match sh_lstep l o with Some l' => sh_lrun r l' | None => None end
  end.

(* the operations on the object: `parts` changes, the structure stays *)
Definition sh_step (s : sh_score) (o : sh_op) : option sh_score :=
  match o with
  | ShAdopt n q up => sh_transpose n q up s
  | _ => match sh_lstep (sh_parts s) o with
         | Some l' => Some (sh_mk l' (sh_structure s))
         | None => None
         end
  end.

Fixpoint sh_run (ops : list sh_op) (s : sh_score) : option sh_score :=
  match ops with
  | [] => Some s
  | o :: r => match sh_step s o with Some s' => sh_run r s' | None => None end
  end.

(* ---------- checker for observed histories (harness/props/c16.py, stream "score histories") ----------
   one case = the parts the score was built from, and the operations with, for every ShTr, the parts the harness
   read off the result (through result.parts) *)
Definition sh_parts_eqb (a b : list sh_part) : bool := list_eqb (list_eqb elem_eqb) a b.

Fixpoint sh_hist_ok (ops : list (sh_op * list sh_part)) (s : sh_score) : bool :=
  match ops with
  | [] => true
  | (o, seen) :: r =>
      match o with
      | ShTr n q up =>
          match sh_view n q up s with
          | Some v => sh_parts_eqb v seen && sh_hist_ok r s
          | None => false
          end
      | _ => match sh_step s o with Some s' => sh_hist_ok r s' | None => false end
      end
  end.

Definition sh_case_ok (c : list sh_part * list (sh_op * list sh_part)) : bool :=
  sh_hist_ok (snd c) (sh_init (fst c)).
