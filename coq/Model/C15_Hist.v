(* C15 -- state carried between calls: the objects merge_parts is given, as state machines.

   (1) A Score object (partitura/score.py: class Score) holds TWO views of its parts:
         self.parts           flat list, computed ONCE by __init__ as list(iter_parts(partlist))
         self.part_structure  the list of parts and groups it was built from
       The public operations that change the score touch `parts` only:
         score[i] = part                      __setitem__: self.parts[index] = part ("TODO: How to update the
                                              score structure as well?")
         score.parts.append(p) / .pop(i)      the documented attribute is a plain list
         unfold_part_maximal / _minimal(score)  deep copy, then new_score.parts = [unfolded parts]
       so the two views drift apart.  Everything that READS a score (len, iteration, score[i],
       Score.note_array = note_array_from_part_list(self.parts), and merge_parts: "if isinstance(parts,
       Score): parts = parts.parts") reads `parts`.
   (2) A Part between two calls: elements added / removed, a voice or staff changed, the divisions
       changed (Part.add, Part.remove, attribute assignment, Part.set_quarter_duration(0, d)); merge_parts
       keeps nothing on the part, so it reads the part as it is when it is called.
   (3) A list / PartGroup argument between two calls: children appended, the list reordered; iter_parts
       traverses the argument as it is when it is called.
   Definitions and boolean checkers only; proofs are in Proofs/C15_hist.v. *)
From PV Require Import Lib.Base Model.C05 Model.C15.
#[local] Open Scope Z_scope.

(* ------------------------------------------------------------------ (1) the Score object *)

Record score := mkScore { sc_parts : list part; sc_structure : list tree }.

(* Score.__init__(partlist) *)
Definition score_init (partlist : list tree) : score := mkScore (flat_map flatten partlist) partlist.

Inductive sop :=
| SSetItem (i : nat) (p : part)      (* score[i] = p            (IndexError when i is out of range) *)
| SAppend (p : part)                 (* score.parts.append(p) *)
| SPop (i : nat)                     (* score.parts.pop(i)      (IndexError when i is out of range) *)
| SReplaceAll (ps : list part)       (* new_score.parts = ps    (what unfold_part_maximal/minimal do to the copy) *)
| SObserve.                          (* a call that only reads: note_array(), len(), iteration, score[i] *)

Fixpoint set_nth {A} (i : nat) (x : A) (l : list A) : option (list A) :=
  match l, i with
  | [], _ => None
  | _ :: r, O => Some (x :: r)
  | y :: r, S j => match set_nth j x r with Some r' => Some (y :: r') | None => None end
  end.

Fixpoint pop_nth {A} (i : nat) (l : list A) : option (list A) :=
  match l, i with
  | [], _ => None
  | _ :: r, O => Some r
  | y :: r, S j => match pop_nth j r with Some r' => Some (y :: r') | None => None end
  end.

(* the operation on the flat list alone *)
Definition lstep (l : list part) (o : sop) : option (list part) :=
  match o with
  | SSetItem i p => set_nth i p l
  | SAppend p => Some (l ++ [p])
  | SPop i => pop_nth i l
  | SReplaceAll ps => Some ps
  | SObserve => Some l
  end.

Fixpoint lrun (ops : list sop) (l : list part) : option (list part) :=
  match ops with
  | [] => Some l
  | o :: r => match lstep l o with Some l' => lrun r l' | None => None end
  end.

(* the operation on the object: `parts` changes, `part_structure` stays *)
Definition sstep (s : score) (o : sop) : option score :=
  match lstep (sc_parts s) o with
  | Some l' => Some (mkScore l' (sc_structure s))
  | None => None
  end.

Fixpoint srun (ops : list sop) (s : score) : option score :=
  match ops with
  | [] => Some s
  | o :: r => match sstep s o with Some s' => srun r s' | None => None end
  end.

(* merge_parts(score, reassign): "if isinstance(parts, Score): parts = parts.parts" *)
Definition merge_parts_score (m : mode) (s : score) : result := merge_parts m (map TPart (sc_parts s)).

(* Score.note_array(): note_array_from_part_list(self.parts) -- the arrays of the parts, then C05's score_array *)
Definition score_rows (s : score) : option (list row) :=
  match parts_rows (sc_parts s) with
  | Some arrs => Some (score_array false arrs)
  | None => None
  end.

(* len(score), list(score) *)
Definition score_len (s : score) : nat := List.length (sc_parts s).

(* two variants that are NOT the code (used by the refutation examples only):
   - a merge that walks the nested structure of the score *)
Definition merge_parts_score_by_structure (m : mode) (s : score) : result := merge_parts m (sc_structure s).
(*  - a score that remembers its flat part list from the first call that read it *)
Record mscore := mkMScore { ms_score : score; ms_cache : option (list part) }.
Definition mstep (s : mscore) (o : sop) : option mscore :=
  match o with
  | SObserve => Some (mkMScore (ms_score s) (match ms_cache s with Some c => Some c | None => Some (sc_parts (ms_score s)) end))
  | _ => match sstep (ms_score s) o with Some s' => Some (mkMScore s' (ms_cache s)) | None => None end
  end.
Fixpoint mrun (ops : list sop) (s : mscore) : option mscore :=
  match ops with
  | [] => Some s
  | o :: r => match mstep s o with Some s' => mrun r s' | None => None end
  end.
Definition merge_parts_memo (m : mode) (s : mscore) : result :=
  merge_parts m (map TPart (match ms_cache s with Some c => c | None => sc_parts (ms_score s) end)).

(* ------------------------------------------------------------------ (2) a Part between two calls *)

Inductive pedit :=
| PAdd (e : elem)                        (* part.add(o, start, end) *)
| PRemove (oid : Z)                      (* part.remove(o) *)
| PSetVoice (oid : Z) (v : option Z)     (* o.voice = v *)
| PSetStaff (oid : Z) (st : option Z)    (* o.staff = st *)
| PSetDivs (d : Z).                      (* part.set_quarter_duration(0, d) on a part with one divisions value *)

Definition pstep (p : part) (o : pedit) : part :=
  match o with
  | PAdd e => (fst p ++ [e], snd p)
  | PRemove oid => (filter (fun e => negb (Z.eqb (e_oid e) oid)) (fst p), snd p)
  | PSetVoice oid v => (map (fun e => if Z.eqb (e_oid e) oid then set_voice e v else e) (fst p), snd p)
  | PSetStaff oid st => (map (fun e => if Z.eqb (e_oid e) oid then set_staff e st else e) (fst p), snd p)
  | PSetDivs d => (fst p, d)
  end.

Definition prun (ops : list pedit) (p : part) : part := fold_left pstep ops p.

(* edits addressed to the inputs by index *)
Fixpoint map_nth {A} (f : A -> A) (i : nat) (l : list A) : list A :=
  match l, i with
  | [], _ => []
  | x :: r, O => f x :: r
  | x :: r, S j => x :: map_nth f j r
  end.

Definition edit_parts (eds : list (nat * pedit)) (ps : list part) : list part :=
  fold_left (fun l x => map_nth (fun p => pstep p (snd x)) (fst x) l) eds ps.

(* a variant that is NOT the code: voices in use remembered from an earlier look at the part *)
Definition merge_voice_memo_offsets (ps0 ps : list part) : option (list (nat * elem)) :=
  (* the offsets of the parts as they were (ps0), the elements as they are (ps) *)
  let L := merge_lcm ps in
  (fix go (i : nat) (ps0 ps : list part) (o : offs) : option (list (nat * elem)) :=
     match ps0, ps with
     | p0 :: r0, p :: r =>
       match xform_part MVoice L (Nat.eqb i 0) o p, go (S i) r0 r (next_offs o (fst p0)) with
       | Some a, Some b => Some (map (pair i) a ++ b)
       | _, _ => None
       end
     | _, _ => Some []
     end) 0%nat ps0 ps (mkOffs 0 0 0).

(* the same variant in any mode (third hardening): the numbers in use of every input -- voices, staves, the count of
   staves -- remembered from an earlier look (ps0), the elements as they are at the call (ps).  A part that memoises
   its number of staves and resets the memo only in add / remove behaves like this after an attribute edit IN PLACE. *)
Definition merge_memo_offsets (m : mode) (ps0 ps : list part) : option (list (nat * elem)) :=
  let L := merge_lcm ps in
  (fix go (i : nat) (ps0 ps : list part) (o : offs) : option (list (nat * elem)) :=
     match ps0, ps with
     | p0 :: r0, p :: r =>
       match xform_part m L (Nat.eqb i 0) o p, go (S i) r0 r (next_offs o (fst p0)) with
       | Some a, Some b => Some (map (pair i) a ++ b)
       | _, _ => None
       end
     | _, _ => Some []
     end) 0%nat ps0 ps (mkOffs 0 0 0).

(* ------------------------------------------------------------------ (4) merged parts merged again, any depth *)

(* a history of merges: a part as it was built, or the result of merging the results of earlier merges
   (merge_parts returns a new part counting in the lcm, or -- one part given -- that part itself) *)
Inductive mtree := MLeaf (p : part) | MNode (m : mode) (kids : list mtree).

Definition map_opt {A B} (f : A -> option B) : list A -> option (list B) :=
  fix go (l : list A) : option (list B) :=
    match l with
    | [] => Some []
    | x :: r => match f x, go r with Some y, Some ys => Some (y :: ys) | _, _ => None end
    end.

Definition result_part (r : result) : option part :=
  match r with
  | RMerged L out => Some (map snd out, L)
  | RSingle p => Some p
  | RRaise => None
  end.

Fixpoint meval (t : mtree) : option part :=
  match t with
  | MLeaf p => Some p
  | MNode m kids =>
    match map_opt meval kids with
    | Some ps => result_part (merge_parts m (map TPart ps))
    | None => None
    end
  end.

Fixpoint leaves (t : mtree) : list part :=
  match t with
  | MLeaf p => [p]
  | MNode _ kids => flat_map leaves kids
  end.

(* ------------------------------------------------------------------ checkers (correspondence) *)

Definition sort_elems (es : list elem) : list elem := map snd (sort_oid (map (pair 0%nat) es)).

Definition parts_eqb_sorted (a b : list part) : bool :=
  list_eqb (fun p q => list_eqb elem_eqb (sort_elems (fst p)) (sort_elems (fst q)) && Z.eqb (snd p) (snd q)) a b.

(* A score history: the Score is built from [partlist], the operations [ops] are applied, the score itself is
   given to merge_parts.  [cur] = the parts the harness finds in score.parts just before the merge (observed),
   [obs ...] = what merge_parts returned, [Ls sarr] = what the SAME score object's note_array() returned before
   the merge.  The machine must arrive at the observed parts, and the merge of the machine's state must be the
   observed result. *)
Definition score_hist_ok (m : mode) (partlist : list tree) (ops : list sop) (cur : list part)
           (obs : observed) (marr : list nrow) (Ls : Z) (sarr : list (Z * Z * Z)) : bool :=
  match srun ops (score_init partlist) with
  | Some s =>
    parts_eqb_sorted (sc_parts s) cur &&
    Nat.eqb (score_len s) (List.length cur) &&
    full_case_ok m (AScore (map TPart (sc_parts s))) obs marr Ls sarr &&
    match merge_parts_score m s, obs with
    | RSingle p, OSingle idx p' => part_eqb p p'
    | RMerged L out, OMerged L' out' => Z.eqb L L' && list_eqb tagged_eqb (sort_oid out) (sort_oid out')
    | RRaise, ORaise => true
    | _, _ => false
    end
  | None => false
  end.

(* Parts edited between two calls: [ps0] = the inputs as they were when they were first looked at, [eds] the
   edits, [a] the argument with the inputs as the harness finds them just before the merge. *)
Definition edits_ok (ps0 : list part) (eds : list (nat * pedit)) (a : arg) : bool :=
  parts_eqb_sorted (edit_parts eds ps0) (flat_map flatten (arg_trees a)).

(* a history of merges (any depth) run by the model from the parts as they were built = the elements and the
   quarter duration of the part the implementation returned at the end *)
Definition nested_ok (t : mtree) (obs : observed) : bool :=
  match meval t, obs with
  | Some (es, L), OMerged L' out' => Z.eqb L L' && list_eqb elem_eqb (sort_elems es) (sort_elems (map snd out'))
  | None, ORaise => true
  | _, _ => false
  end.
