(* C20 -- executable model, third part: SHALLOW copy + reference replacement, the mechanism behind
   unfold_part_maximal / unfold_part_minimal / iter_unfolded_parts on a Part
   (partitura/score.py: ScoreVariant.create_variant_part:  o_copy = copy(o); o_map[o] = o_copy; ...;
    for o in o_new: o.replace_refs(o_map)   and   partitura/utils/generic.py: ReplaceRefMixin.replace_refs).
   Definitions and boolean checkers only (proofs: Proofs/C20_Alias.v).

   copy.copy makes a new object whose attributes hold the SAME values: a list attribute (slur_starts,
   slur_stops, tuplet_starts, tuplet_stops of a note) is the very list object of the original.
   replace_refs then walks the reference attributes (_ref_attrs) of the copy:
     None                -> left alone
     a list              -> a NEW list [o_map.get(el) ...] is built and assigned with setattr
     another object      -> o_map[o] if o in o_map else None, assigned with setattr
   Writing the replaced elements INTO the existing list instead (mode InPlaceList) would write through
   the alias into the argument; that slip is refuted in Proofs/C20_Alias.v. *)
From PV Require Import Lib.Base Model.C20 Model.C20_Mut.
From Coq Require Import ZArith List Bool.
Import ListNotations.

Inductive attr : Type :=
| ARef (o : option nat)     (* None or a reference to the object at that address *)
| AList (a : nat).          (* a reference to the LIST at that address (lists are objects of their own) *)

Record aheap : Type := mk_aheap {
  h_objs : list (list attr);            (* object address -> its reference attributes, in _ref_attrs order *)
  h_lists : list (list (option nat))    (* list address -> its elements (references to objects / None) *)
}.

Definition obj_get (h : aheap) (o : nat) : list attr := nth o (h_objs h) [].
Definition list_get (h : aheap) (a : nat) : list (option nat) := nth a (h_lists h) [].

(* copy.copy(o) *)
Definition shallow_copy (h : aheap) (o : nat) : aheap * nat :=
  (mk_aheap (h_objs h ++ [obj_get h o]) (h_lists h), length (h_objs h)).

(* o_map: original -> copy (a dict keyed by object identity; the first binding wins in the model, the
   harness never selects an object twice) *)
Definition omap := list (nat * nat).

Fixpoint omap_get (m : omap) (o : nat) : option nat :=
  match m with
  | [] => None
  | (k, v) :: r => if Nat.eqb k o then Some v else omap_get r o
  end.

Definition remap (m : omap) (r : option nat) : option nat :=
  match r with None => None | Some t => omap_get m t end.

Definition set_attr (h : aheap) (o j : nat) (v : attr) : aheap :=
  mk_aheap (lset (h_objs h) o (lset (obj_get h o) j v)) (h_lists h).

Inductive rr_mode : Type :=
| FreshList        (* the code: o_list_new = []; ...; setattr(self, attr, o_list_new) *)
| InPlaceList.     (* the slip: o[i] = o_map.get(o[i]) on the list the attribute holds *)

(* the loop `for attr in self._ref_attrs` from attribute j on; `attrs` = the values the remaining
   attributes hold (the loop changes only the attribute it is at) *)
Fixpoint replace_from (mode : rr_mode) (m : omap) (h : aheap) (o j : nat) (attrs : list attr) : aheap :=
  match attrs with
  | [] => h
  | ARef None :: rest => replace_from mode m h o (S j) rest
  | ARef r :: rest => replace_from mode m (set_attr h o j (ARef (remap m r))) o (S j) rest
  | AList a :: rest =>
      let new := map (remap m) (list_get h a) in
      match mode with
      | FreshList =>
          replace_from mode m
            (set_attr (mk_aheap (h_objs h) (h_lists h ++ [new])) o j (AList (length (h_lists h)))) o (S j) rest
      | InPlaceList =>
          replace_from mode m (mk_aheap (h_objs h) (lset (h_lists h) a new)) o (S j) rest
      end
  end.

Definition replace_refs (mode : rr_mode) (m : omap) (h : aheap) (o : nat) : aheap :=
  replace_from mode m h o 0 (obj_get h o).

(* the copying phase of create_variant_part over the selected objects *)
Fixpoint copy_all (h : aheap) (sel : list nat) : aheap * omap :=
  match sel with
  | [] => (h, [])
  | o :: r => let '(h1, o') := shallow_copy h o in let '(h2, m) := copy_all h1 r in (h2, (o, o') :: m)
  end.

(* ... followed by `for o in o_new: o.replace_refs(o_map)` *)
Definition variant (mode : rr_mode) (h : aheap) (sel : list nat) : aheap * omap :=
  let '(h1, m) := copy_all h sel in
  (fold_left (fun h' o' => replace_refs mode m h' o') (map snd m) h1, m).

(* ------------------------------------------------------------------------------------ *)
(* correspondence checker: heaps observed on real Note / Slur / Tuplet objects *)

Definition opt_nat_eqb (a b : option nat) : bool :=
  match a, b with
  | None, None => true
  | Some x, Some y => Nat.eqb x y
  | _, _ => false
  end.

Definition attr_eqb (a b : attr) : bool :=
  match a, b with
  | ARef x, ARef y => opt_nat_eqb x y
  | AList x, AList y => Nat.eqb x y
  | _, _ => false
  end.

Definition aheap_eqb (a b : aheap) : bool :=
  list_eqb (list_eqb attr_eqb) (h_objs a) (h_objs b) &&
  list_eqb (list_eqb opt_nat_eqb) (h_lists a) (h_lists b).

(* (heap before, selected objects, heap observed after copy + replace_refs on the real objects;
   copies numbered behind the originals in selection order, new lists behind the original lists in
   the order (copy, attribute)) *)
Definition alias_ok (c : aheap * list nat * aheap) : bool :=
  let '(h, sel, h') := c in aheap_eqb (fst (variant FreshList h sel)) h'.
