(* C07 -- schema-driven codec for match-file lines (partitura/io/matchfile_base.py,
   matchlines_v0.py, matchlines_v1.py, matchfile_utils.py).  Executable definitions only;
   proofs are in Proofs/C07_lib.v and Proofs/C07.v.

   A line class of a format version is a SCHEMA: a list of literals and fields.  The schemas
   are not written here: they are reflected from the real classes (out_pattern, regular
   expression, formatter of every field) into Gen/C07_Schemas.v on every run.
   [format_line] is MatchLine.matchline, [parse_line] is from_matchline / the file level
   parser restricted to texts of the schema's own shape. *)
From PV Require Import Lib.Base Lib.Round.
From Coq Require Import QArith Qround Ascii DecimalString DecimalN.
#[local] Open Scope string_scope.
#[local] Open Scope Z_scope.

(* ------------------------------------------------------------------ characters, strings *)

Definition is_digit (c : ascii) : bool :=
  let n := nat_of_ascii c in (48 <=? n)%nat && (n <=? 57)%nat.

Fixpoint all_chars (p : ascii -> bool) (s : string) : bool :=
  match s with EmptyString => true | String c r => p c && all_chars p r end.

Fixpoint mem_char (c : ascii) (l : string) : bool :=
  match l with EmptyString => false | String d r => Ascii.eqb c d || mem_char c r end.

Definition nonempty (s : string) : bool := match s with EmptyString => false | _ => true end.

Definition comma : ascii := ","%char.

Fixpoint count_char (c : ascii) (s : string) : nat :=
  match s with
  | EmptyString => O
  | String d r => if Ascii.eqb d c then S (count_char c r) else count_char c r
  end.

(* Python str.split(c): never returns an empty list *)
Fixpoint split_on (c : ascii) (s : string) : list string :=
  match s with
  | EmptyString => [EmptyString]
  | String d r =>
      if Ascii.eqb d c then EmptyString :: split_on c r
      else match split_on c r with
           | [] => [String d EmptyString]
           | h :: t => String d h :: t
           end
  end.

Fixpoint join (c : ascii) (l : list string) : string :=
  match l with
  | [] => EmptyString
  | [x] => x
  | x :: r => x ++ String c (join c r)
  end.

Fixpoint strip_prefix (l s : string) : option string :=
  match l with
  | EmptyString => Some s
  | String c l' =>
      match s with
      | String d s' => if Ascii.eqb c d then strip_prefix l' s' else None
      | EmptyString => None
      end
  end.

(* the text before a final occurrence of [l]: [strip_suffix l (a ++ l) = Some a] *)
Fixpoint strip_suffix (l s : string) : option string :=
  if String.eqb s l then Some EmptyString
  else match s with
       | String c r => match strip_suffix l r with Some a => Some (String c a) | None => None end
       | EmptyString => None
       end.

(* longest prefix of characters satisfying p (a greedy character-class run) *)
Fixpoint span (p : ascii -> bool) (s : string) : string * string :=
  match s with
  | String c r => if p c then let (a, b) := span p r in (String c a, b) else (EmptyString, s)
  | EmptyString => (EmptyString, EmptyString)
  end.

(* split s = a ++ b where b starts with a comma and holds exactly k commas (k >= 1):
   what a greedy ".+" followed by k comma-separated comma-free groups matches *)
Fixpoint split_k (k : nat) (s : string) : option (string * string) :=
  match s with
  | EmptyString => None
  | String c r =>
      if Ascii.eqb c comma && Nat.eqb (S (count_char comma r)) k then Some (EmptyString, s)
      else match split_k k r with Some (a, b) => Some (String c a, b) | None => None end
  end.

Definition upper_char (c : ascii) : ascii :=
  let n := nat_of_ascii c in if (97 <=? n)%nat && (n <=? 122)%nat then ascii_of_nat (n - 32) else c.
Definition lower_char (c : ascii) : ascii :=
  let n := nat_of_ascii c in if (65 <=? n)%nat && (n <=? 90)%nat then ascii_of_nat (n + 32) else c.
Fixpoint map_str (f : ascii -> ascii) (s : string) : string :=
  match s with EmptyString => EmptyString | String c r => String (f c) (map_str f r) end.

(* ------------------------------------------------------------------ numbers as text *)

(* unbounded naturals in decimal: the standard library's printer/parser *)
Definition print_N (n : Z) : string := NilEmpty.string_of_uint (N.to_uint (Z.to_N n)).
Definition parse_N (s : string) : option Z :=
  if nonempty s && all_chars is_digit s then
    match NilEmpty.uint_of_string s with Some u => Some (Z.of_N (N.of_uint u)) | None => None end
  else None.

(* format_int / int() on canonical decimal text *)
Definition print_Z (z : Z) : string := if z <? 0 then String "-" (print_N (- z)) else print_N z.
Definition parse_Z (s : string) : option Z :=
  match s with
  | String "-" r => match parse_N r with Some n => Some (- n) | None => None end
  | _ => parse_N s
  end.

(* exactly w decimal digits of n mod 10^w, most significant first *)
Definition digit_char (d : Z) : ascii := ascii_of_nat (48 + Z.to_nat d).
Fixpoint print_width (w : nat) (n : Z) : string :=
  match w with
  | O => EmptyString
  | S w' => print_width w' (n / 10) ++ String (digit_char (n mod 10)) EmptyString
  end.
Definition digit_val (c : ascii) : Z := Z.of_nat (nat_of_ascii c - 48).
Fixpoint parse_digits (acc : Z) (s : string) : option Z :=
  match s with
  | EmptyString => Some acc
  | String c r => if is_digit c then parse_digits (acc * 10 + digit_val c) r else None
  end.

Fixpoint pow10 (d : nat) : Z := match d with O => 1 | S k => 10 * pow10 k end.

(* f"{x:.<d>f}": sign, integer part, point, d digits; (neg, m) stands for +-m/10^d *)
Definition print_fix (d : nat) (neg : bool) (m : Z) : string :=
  (if neg then "-" else "") ++ print_N (m / pow10 d) ++ String "." (print_width d (m mod pow10 d)).
Definition parse_fix (d : nat) (s : string) : option (bool * Z) :=
  let '(neg, body) := match s with String "-" r => (true, r) | _ => (false, s) end in
  let '(ip, rest) := span is_digit body in
  match rest with
  | String "." fp =>
      if Nat.eqb (String.length fp) d then
        match parse_N ip, parse_digits 0 fp with
        | Some i, Some f => Some (neg, i * pow10 d + f)
        | _, _ => None
        end
      else None
  | _ => None
  end.
(* the float x = +-q (q >= 0 exact) is printed as round-half-even of q * 10^d, as CPython does *)
Definition quantize (d : nat) (q : Q) : Z := round_half_even (q * inject_Z (pow10 d))%Q.

(* ------------------------------------------------------------------ fractional durations *)

Definition triple : Type := Z * Z * option Z.
Record frac := mkfrac { fnum : Z; fden : Z; ftd : option Z; fcomps : option (list triple) }.

Definition bound_dens : list Z := [2;3;4;5;6;7;8;9;10;12;14;16;18;20;22;24;28;32;48;64;96;128].
Definition frac_bound : Z := 1024.

Definition Qabs' (q : Q) : Q := if Qle_bool 0 q then q else (- q)%Q.

(* np.argmin: index of the first minimum *)
Fixpoint argmin_from (best : Q) (besti i : nat) (l : list Q) : nat :=
  match l with
  | [] => besti
  | x :: r => if Qle_bool best x then argmin_from best besti (S i) r else argmin_from x i (S i) r
  end.
Definition argmin (l : list Q) : nat :=
  match l with [] => O | x :: r => argmin_from x O 1%nat r end.

(* FractionalSymbolicDuration.bound_integers(1024) on non-negative numerator/denominator,
   with exact rationals in place of float64 *)
Definition bound_pair (n d : Z) : Z * Z :=
  if (frac_bound <? n) || (frac_bound <? d) then
    let val := Qmake n (Z.to_pos d) in
    let dif := map (fun den => let x := (val * inject_Z den)%Q in
                               let r := round_half_even x in
                               if 1 <=? r then Qabs' (inject_Z r - x)%Q else Qabs' (1 - x)%Q) bound_dens in
    let den := nth (argmin dif) bound_dens 2 in
    let r := round_half_even (val * inject_Z den)%Q in
    ((if r <? 1 then Z.sgn n * 1 else Z.sgn n * r), den)
  else (n, d).

(* the constructor: every FractionalSymbolicDuration is bounded when it is built *)
Definition mk_frac (n d : Z) (td : option Z) (cs : option (list triple)) : frac :=
  let '(n', d') := bound_pair n d in mkfrac n' d' td cs.

Definition tdiv (td : option Z) : Z := match td with Some t => t | None => 1 end.
Definition frac_triple (f : frac) : triple := (fnum f, fden f, ftd f).
Definition frac_comps (f : frac) : list triple :=
  match fcomps f with Some cs => cs | None => [frac_triple f] end.

(* FractionalSymbolicDuration.__add__ *)
Definition frac_add (f g : frac) : frac :=
  let d1 := fden f * tdiv (ftd f) in
  let d2 := fden g * tdiv (ftd g) in
  let nd := Z.lcm d1 d2 in
  let nn := (nd / d1) * fnum f + (nd / d2) * fnum g in
  let cs := filter (fun c : triple => negb (fst (fst c) =? 0)) (frac_comps f ++ frac_comps g) in
  mk_frac nn nd None (Some cs).

Definition frac_zero : frac := mk_frac 0 1 None None.
Definition frac_of_triple (t : triple) : frac := let '(n, d, td) := t in mk_frac n d td None.
(* Python's sum(parts) = ((0 + p1) + p2) + ..., where 0 + p = p.__add__(FSD(0)) *)
Definition frac_sum (ps : list frac) : frac :=
  fold_left frac_add ps frac_zero.
Definition frac_of_comps (cs : list triple) : frac := frac_sum (map frac_of_triple cs).

(* the rational value: float(f) = numerator / (denominator * (tuple_div or 1)) *)
Definition frac_value (f : frac) : Q := Qmake (fnum f) (Z.to_pos (fden f * tdiv (ftd f))).
Definition triple_value (t : triple) : Q :=
  let '(n, d, td) := t in Qmake n (Z.to_pos (d * tdiv td)).

Definition print_triple (t : triple) : string :=
  let '(n, d, td) := t in
  match td with
  | None => if d =? 1 then print_N n else print_N n ++ String "/" (print_N d)
  | Some t => print_N n ++ String "/" (print_N d ++ String "/" (print_N t))
  end.
Definition print_frac (f : frac) : string :=
  match fcomps f with
  | None => print_triple (frac_triple f)
  | Some cs => join "+" (map print_triple cs)
  end.
(* format_fractional_rational: "a/1" for whole numbers *)
Definition print_frac_rat (f : frac) : string :=
  match ftd f with
  | None => if fden f =? 1 then print_N (fnum f) ++ "/1" else print_frac f
  | Some _ => print_frac f
  end.

Fixpoint map_opt {A B} (f : A -> option B) (l : list A) : option (list B) :=
  match l with
  | [] => Some []
  | x :: r => match f x, map_opt f r with Some y, Some ys => Some (y :: ys) | _, _ => None end
  end.

(* a, a/b, a/b/c with decimal digits only *)
Definition parse_simple (s : string) : option frac :=
  match map_opt parse_N (split_on "/" s) with
  | Some [n] => Some (mk_frac n 1 None None)
  | Some [n; d] => Some (mk_frac n d None None)
  | Some [n; d; t] => Some (mk_frac n d (Some t) None)
  | _ => None
  end.
(* FractionalSymbolicDuration.from_string(allow_additions=True) *)
Definition parse_frac (s : string) : option frac :=
  match parse_simple s with
  | Some f => Some f
  | None =>
      match split_on "+" s with
      | (_ :: _ :: _) as parts =>
          match map_opt parse_simple parts with Some ps => Some (frac_sum ps) | None => None end
      | _ => None
      end
  end.

(* ------------------------------------------------------------------ key signatures *)

(* (fifths, minor?) and an optional alternative key; the names come from the reflected table
   key_names : (format, fifths, minor, text); formats 0 = v0.1.0 "[en,major]",
   1 = v0.3.0 "E Maj", 3 = v1.0.0 "E" *)
Definition key0 : Type := Z * bool.
Definition key1 : Type := key0 * option key0.
Definition keytab : Type := list (Z * Z * bool * string).

Fixpoint key_text (tab : keytab) (fmt : Z) (k : key0) : option string :=
  match tab with
  | [] => None
  | (f, fi, mi, t) :: r =>
      if (f =? fmt) && (fi =? fst k) && Bool.eqb mi (snd k) then Some t else key_text r fmt k
  end.
Fixpoint key_of_text (tab : keytab) (fmt : Z) (s : string) : option key0 :=
  match tab with
  | [] => None
  | (f, fi, mi, t) :: r =>
      if (f =? fmt) && String.eqb t s then Some (fi, mi) else key_of_text r fmt s
  end.

Definition print_key1 (tab : keytab) (fmt : Z) (k : key1) : option string :=
  match key_text tab fmt (fst k), snd k with
  | Some a, None => Some a
  | Some a, Some k2 => match key_text tab fmt k2 with Some b => Some (a ++ String "/" b) | None => None end
  | None, _ => None
  end.
Definition parse_key1 (tab : keytab) (fmt : Z) (s : string) : option key1 :=
  match split_on "/" s with
  | [a] => match key_of_text tab fmt a with Some k => Some (k, None) | None => None end
  | [a; b] => match key_of_text tab fmt a, key_of_text tab fmt b with
              | Some k, Some k2 => Some (k, Some k2) | _, _ => None end
  | _ => None
  end.

(* ------------------------------------------------------------------ values and codecs *)

Inductive value :=
| VNone
| VInt (z : Z)
| VQ (neg : bool) (q : Q)        (* a float +-q given exactly (input of a fixed-point field only) *)
| VDec (neg : bool) (m : Z)      (* +-m / 10^d: what a fixed-point field can represent *)
| VStr (s : string)
| VList (l : list string)
| VListInt (l : list Z)
| VFrac (f : frac)
| VKey (k : key1) (others : list key1)
| VTime (n d : Z) (others : list frac)
| VVersion (a b c : Z).

Inductive codec :=
| CInt                (* format_int / interpret_as_int *)
| COct                (* format_int / ensure_pitch_spelling_format: "-" is None *)
| CFix (d : nat)      (* f"{x:.df}" / float *)
| CTok                (* str(float) / float: the shortest-repr token is kept as text *)
| CStr                (* format_string / interpret_as_string on stripped text *)
| CStrOld             (* format_string_old / interpret_as_string_old: 'text' *)
| CNoteUp | CNoteLow  (* str(x).upper() / .lower(); parsed by ensure_pitch_spelling_format *)
| CAcc                (* format_accidental_old / SIGN_TO_ALTER *)
| CList               (* format_list / interpret_as_list: [a,b,c] *)
| CListIn             (* the same with the brackets written as literals of the pattern *)
| CListInt            (* format_list / interpret_as_list_int *)
| CListIntIn
| CFrac               (* format_fractional / interpret_as_fractional *)
| CFracRat            (* format_fractional_rational *)
| CKey (fmt : Z) (aslist : bool)
| CTime (aslist : bool)
| CVersion
| CUnknown.

Definition step_names : list string := ["A"; "B"; "C"; "D"; "E"; "F"; "G"; "R"].
Definition acc_table : list (string * value) :=
  [("n", VInt 0); ("#", VInt 1); ("x", VInt 2); ("b", VInt (-1)); ("bb", VInt (-2)); ("-", VNone)].

Definition is_space (c : ascii) : bool := Ascii.eqb c " "%char.
Fixpoint last_char (s : string) : option ascii :=
  match s with EmptyString => None | String c EmptyString => Some c | String _ r => last_char r end.
Definition stripped (s : string) : bool :=
  match s with
  | EmptyString => true
  | String c _ => negb (is_space c) && match last_char s with Some l => negb (is_space l) | None => true end
  end.

Definition dec_list (s : string) : list string :=
  if nonempty s then split_on comma s else [].
Definition unbracket (s : string) : option string :=
  match s with String "[" r => strip_suffix "]" r | _ => None end.

Section WithKeys.
Variable tab : keytab.

Definition enc (c : codec) (v : value) : option string :=
  match c, v with
  | CInt, VInt z | COct, VInt z => Some (print_Z z)
  | CInt, VNone | COct, VNone => Some "-"
  | CFix d, VDec neg m => Some (print_fix d neg m)
  | CFix d, VQ neg q => Some (print_fix d neg (quantize d q))
  | CTok, VStr s | CStr, VStr s => Some s
  | CStrOld, VStr s => Some (String "'" (s ++ "'"))
  | CNoteUp, VStr s => Some (map_str upper_char s)
  | CNoteLow, VStr s => Some (map_str lower_char s)
  | CAcc, VInt 0 => Some "n" | CAcc, VInt 1 => Some "#" | CAcc, VInt 2 => Some "x"
  | CAcc, VInt (-1) => Some "b" | CAcc, VInt (-2) => Some "bb" | CAcc, VNone => Some "-"
  | CList, VList l => Some (String "[" (join comma l ++ "]"))
  | CListIn, VList l => Some (join comma l)
  | CListInt, VListInt l => Some (String "[" (join comma (map print_Z l) ++ "]"))
  | CListIntIn, VListInt l => Some (join comma (map print_Z l))
  | CFrac, VFrac f => Some (print_frac f)
  | CFracRat, VFrac f => Some (print_frac_rat f)
  | CKey fmt false, VKey k [] => print_key1 tab fmt k
  | CKey fmt true, VKey k others =>
      match map_opt (print_key1 tab fmt) (k :: others) with
      | Some ts => Some (String "[" (join comma ts ++ "]"))
      | None => None
      end
  | CTime false, VTime n d [] => Some (print_N n ++ String "/" (print_N d))
  | CTime true, VTime n d others =>
      Some (String "[" (join comma ((print_N n ++ String "/" (print_N d)) :: map print_frac others) ++ "]"))
  | CVersion, VVersion a b c => Some (print_N a ++ String "." (print_N b ++ String "." (print_N c)))
  | _, _ => None
  end.

Definition dec_time (s : string) : option value :=
  match map_opt parse_frac (split_on comma s) with
  | Some (f :: others) => Some (VTime (fnum f) (fden f) others)
  | _ => None
  end.

Definition dec (c : codec) (s : string) : option value :=
  match c with
  | CInt => match parse_Z s with Some z => Some (VInt z) | None => None end
  | COct => if String.eqb s "-" then Some VNone
            else match parse_Z s with Some z => Some (VInt z) | None => None end
  | CFix d => match parse_fix d s with Some (neg, m) => Some (VDec neg m) | None => None end
  | CTok | CStr => Some (VStr s)
  | CStrOld =>
      match s with
      | String "'" r => match strip_suffix "'" r with
                        | Some mid => if nonempty mid then Some (VStr mid) else Some (VStr s)
                        | None => Some (VStr s)
                        end
      | _ => Some (VStr s)
      end
  | CNoteUp | CNoteLow =>
      let u := map_str upper_char s in
      if existsb (String.eqb u) step_names then Some (VStr u) else None
  | CAcc => slookup s acc_table
  | CList => match unbracket s with Some t => Some (VList (dec_list t)) | None => None end
  | CListIn => Some (VList (dec_list s))
  | CListInt => match unbracket s with
                | Some t => match map_opt parse_Z (dec_list t) with Some l => Some (VListInt l) | None => None end
                | None => None
                end
  | CListIntIn => match map_opt parse_Z (dec_list s) with Some l => Some (VListInt l) | None => None end
  | CFrac | CFracRat => match parse_frac s with Some f => Some (VFrac f) | None => None end
  | CKey fmt false => match parse_key1 tab fmt s with Some k => Some (VKey k []) | None => None end
  | CKey fmt true =>
      match unbracket s with
      | Some t => match map_opt (parse_key1 tab fmt) (split_on comma t) with
                  | Some (k :: others) => Some (VKey k others)
                  | _ => None
                  end
      | None => None
      end
  | CTime false => dec_time s
  | CTime true => match unbracket s with Some t => dec_time t | None => None end
  | CVersion =>
      match map_opt parse_N (split_on "." s) with
      | Some [a; b; c] => Some (VVersion a b c)
      | _ => None
      end
  | CUnknown => None
  end.

(* what a value becomes after one round: a float is replaced by its d-decimal rounding *)
Definition norm (c : codec) (v : value) : value :=
  match c, v with
  | CFix d, VQ neg q => VDec neg (quantize d q)
  | _, _ => v
  end.

(* ------------------------------------------------------------------ schemas *)

Inductive cclass :=
| CNot (chars : string)    (* [^...] *)
| CIn (chars : string).    (* [...] with the ranges written out *)
Definition cc_in (cl : cclass) (c : ascii) : bool :=
  match cl with CNot l => negb (mem_char c l) | CIn l => mem_char c l end.

Inductive elem :=
| Lit (s : string)
| Fld (name : string) (c : codec) (cl : cclass) (minlen : nat)   (* (?P<name>[class]+) or * *)
| Rest (name : string) (c : codec) (minlen : nat)     (* (?P<name>.+) before the final literal *)
| Greedy (name : string) (c : codec) (minlen : nat).  (* (?P<name>.+) before comma-free groups *)

Definition schema := list elem.

Fixpoint lit_commas (sch : schema) : nat :=
  match sch with
  | [] => O
  | Lit l :: r => (count_char comma l + lit_commas r)%nat
  | _ :: r => lit_commas r
  end.

Fixpoint codecs (sch : schema) : list codec :=
  match sch with
  | [] => []
  | Lit _ :: r => codecs r
  | Fld _ c _ _ :: r | Rest _ c _ :: r | Greedy _ c _ :: r => c :: codecs r
  end.

(* the text of the line from the texts of its fields (out_pattern.format) *)
Fixpoint fill (sch : schema) (ts : list string) : option string :=
  match sch with
  | [] => match ts with [] => Some EmptyString | _ => None end
  | Lit l :: r => match fill r ts with Some s => Some (l ++ s) | None => None end
  | _ :: r =>
      match ts with
      | t :: ts' => match fill r ts' with Some s => Some (t ++ s) | None => None end
      | [] => None
      end
  end.

(* the regular expression of the line class, on texts of the schema's shape *)
Fixpoint scan (sch : schema) (s : string) : option (list string) :=
  match sch with
  | [] => match s with EmptyString => Some [] | _ => None end
  | Lit l :: r => match strip_prefix l s with Some s' => scan r s' | None => None end
  | Fld _ _ cl m :: r =>
      let (a, b) := span (cc_in cl) s in
      if (m <=? String.length a)%nat then
        match scan r b with Some ts => Some (a :: ts) | None => None end
      else None
  | Rest _ _ m :: r =>
      match r with
      | [Lit l] => match strip_suffix l s with
                   | Some a => if (m <=? String.length a)%nat then Some [a] else None
                   | None => None
                   end
      | _ => None
      end
  | Greedy _ _ m :: r =>
      match split_k (lit_commas r) s with
      | Some (a, b) =>
          if (m <=? String.length a)%nat then
            match scan r b with Some ts => Some (a :: ts) | None => None end
          else None
      | None => None
      end
  end.

Fixpoint map2_opt {A B C} (f : A -> B -> option C) (l : list A) (m : list B) : option (list C) :=
  match l, m with
  | [], [] => Some []
  | x :: l', y :: m' =>
      match f x y, map2_opt f l' m' with Some z, Some zs => Some (z :: zs) | _, _ => None end
  | _, _ => None
  end.

Definition format_line (sch : schema) (vs : list value) : option string :=
  match map2_opt enc (codecs sch) vs with Some ts => fill sch ts | None => None end.
Definition parse_line (sch : schema) (s : string) : option (list value) :=
  match scan sch s with Some ts => map2_opt dec (codecs sch) ts | None => None end.

Fixpoint norm_line (cs : list codec) (vs : list value) : list value :=
  match cs, vs with
  | c :: cs', v :: vs' => norm c v :: norm_line cs' vs'
  | _, _ => vs
  end.

(* --- side conditions, all decidable *)

Definition first_not_in (cl : cclass) (l : string) : bool :=
  match l with String c _ => negb (cc_in cl c) | EmptyString => false end.

(* the tail after a Greedy field: literals and comma-free class fields only *)
Fixpoint rigid (sch : schema) : bool :=
  match sch with
  | [] => true
  | Lit _ :: r => rigid r
  | Fld _ _ cl _ :: r => negb (cc_in cl comma) && rigid r
  | _ => false
  end.

Fixpoint schema_wf (sch : schema) : bool :=
  match sch with
  | [] => true
  | Lit _ :: r => schema_wf r
  | Fld _ c cl _ :: r =>
      negb (match c with CUnknown => true | _ => false end) &&
      match r with
      | [] => true
      | Lit l :: _ => first_not_in cl l
      | _ => false
      end && schema_wf r
  | Rest _ c _ :: r =>
      negb (match c with CUnknown => true | _ => false end) &&
      match r with [Lit _] => true | _ => false end
  | Greedy _ c _ :: r =>
      negb (match c with CUnknown => true | _ => false end) &&
      match r with
      | Lit (String c0 _) :: _ => Ascii.eqb c0 comma
      | _ => false
      end && rigid r && schema_wf r
  end.

(* the field texts fit the character classes of the pattern *)
Fixpoint texts_ok (sch : schema) (ts : list string) : bool :=
  match sch with
  | [] => match ts with [] => true | _ => false end
  | Lit _ :: r => texts_ok r ts
  | Fld _ _ cl m :: r =>
      match ts with
      | t :: ts' => all_chars (cc_in cl) t && (m <=? String.length t)%nat && texts_ok r ts'
      | [] => false
      end
  | Rest _ _ m :: r | Greedy _ _ m :: r =>
      match ts with
      | t :: ts' => (m <=? String.length t)%nat && texts_ok r ts'
      | [] => false
      end
  end.

End WithKeys.

(* ------------------------------------------------------------------ decidable equality (for the checkers) *)

Definition triple_eqb (a b : triple) : bool :=
  let '(n, d, t) := a in let '(n', d', t') := b in (n =? n') && (d =? d') && zopt_eqb t t'.
Definition frac_eqb (a b : frac) : bool :=
  (fnum a =? fnum b) && (fden a =? fden b) && zopt_eqb (ftd a) (ftd b) &&
  match fcomps a, fcomps b with
  | None, None => true
  | Some x, Some y => list_eqb triple_eqb x y
  | _, _ => false
  end.
Definition key0_eqb (a b : key0) : bool := (fst a =? fst b) && Bool.eqb (snd a) (snd b).
Definition key1_eqb (a b : key1) : bool :=
  key0_eqb (fst a) (fst b) &&
  match snd a, snd b with None, None => true | Some x, Some y => key0_eqb x y | _, _ => false end.
Definition value_eqb (a b : value) : bool :=
  match a, b with
  | VNone, VNone => true
  | VInt x, VInt y => x =? y
  | VQ n q, VQ n' q' => Bool.eqb n n' && Qeq_bool q q'
  | VDec n m, VDec n' m' => Bool.eqb n n' && (m =? m')
  | VStr s, VStr t => String.eqb s t
  | VList l, VList m => list_eqb String.eqb l m
  | VListInt l, VListInt m => list_eqb Z.eqb l m
  | VFrac f, VFrac g => frac_eqb f g
  | VKey k o, VKey k' o' => key1_eqb k k' && list_eqb key1_eqb o o'
  | VTime n d o, VTime n' d' o' => (n =? n') && (d =? d') && list_eqb frac_eqb o o'
  | VVersion a b c, VVersion a' b' c' => (a =? a') && (b =? b') && (c =? c')
  | _, _ => false
  end.
Definition ovalues_eqb (a b : option (list value)) : bool :=
  match a, b with Some x, Some y => list_eqb value_eqb x y | None, None => true | _, _ => false end.
Definition ostring_eqb (a b : option string) : bool :=
  match a, b with Some x, Some y => String.eqb x y | None, None => true | _, _ => false end.

(* one correspondence case: the schema, the field values of the object, the text the
   implementation wrote, and the field values the implementation parsed from that text *)
Definition check_case (tab : keytab) (c : schema * list value * string * list value) : bool :=
  let '(sch, vs, text, parsed) := c in
  ostring_eqb (format_line tab sch vs) (Some text) &&
  ovalues_eqb (parse_line tab sch text) (Some parsed) &&
  list_eqb value_eqb parsed (norm_line (codecs sch) vs) &&
  match map2_opt (enc tab) (codecs sch) vs with Some ts => texts_ok sch ts | None => false end &&
  ostring_eqb (format_line tab sch parsed) (Some text).

(* the same with a history: [after] are the texts the line objects (the generated one and the parsed
   one) write AFTER read-only uses of their fields (sums of their durations, comparisons, to_v1,
   formatting).  The model's values are immutable, so every one of them must still be the text of
   [vs]. *)
Definition check_case_hist (tab : keytab) (c : schema * list value * string * list value * list string) : bool :=
  let '(sch, vs, text, parsed, after) := c in
  check_case tab (sch, vs, text, parsed) &&
  forallb (fun t => ostring_eqb (format_line tab sch vs) (Some t) &&
                    ostring_eqb (format_line tab sch parsed) (Some t)) after.

(* ------------------------------------------------------------------ duration programs (histories) *)

(* A sequence of operations on SHARED duration objects.  The environment is the list of all objects
   created so far (never shrinks); operands are named by position.  Every operation is a pure
   function of the operands' values: an object of the implementation may never be changed by a
   later operation, so after every step the text of EVERY live object must still be the model's
   print of its value (prog_check). *)
Inductive fstep :=
| SParse (s : string)                    (* interpret_as_fractional / from_string *)
| SNew (n d : Z) (td : option Z)         (* FractionalSymbolicDuration(n, d, td) *)
| SAdd (i j : nat)                       (* env[i] + env[j]  (i = j allowed) *)
| SAddInt (i : nat) (k : Z)              (* env[i] + k *)
| SRAddInt (k : Z) (i : nat)             (* k + env[i] = env[i].__radd__(k) = env[i].__add__(k) *)
| SSum (l : list nat)                    (* sum([env[i], ...]) = ((0 + x1) + x2) + ... *)
| SNop.                                  (* a read-only use: ==, !=, float, str, format_* *)

(* Python's sum over a non-empty list: 0 + x1 is x1.__radd__(0) = x1 + FSD(0) *)
Definition frac_sum_py (l : list frac) : option frac :=
  match l with
  | [] => None
  | x :: r => Some (fold_left frac_add r (frac_add x frac_zero))
  end.

Definition fstep_new (env : list frac) (s : fstep) : option (option frac) :=
  match s with
  | SParse t => match parse_frac t with Some f => Some (Some f) | None => None end
  | SNew n d td => Some (Some (mk_frac n d td None))
  | SAdd i j =>
      match nth_error env i, nth_error env j with
      | Some f, Some g => Some (Some (frac_add f g))
      | _, _ => None
      end
  | SAddInt i k | SRAddInt k i =>
      match nth_error env i with
      | Some f => Some (Some (frac_add f (mk_frac k 1 None None)))
      | None => None
      end
  | SSum l =>
      match map_opt (nth_error env) l with
      | Some fs => match frac_sum_py fs with Some f => Some (Some f) | None => None end
      | None => None
      end
  | SNop => Some None
  end.

Definition fstep_run (env : list frac) (s : fstep) : option (list frac) :=
  match fstep_new env s with
  | Some (Some f) => Some (env ++ [f])%list
  | Some None => Some env
  | None => None
  end.

Fixpoint prog_run (env : list frac) (prog : list fstep) : option (list frac) :=
  match prog with
  | [] => Some env
  | s :: r => match fstep_run env s with Some env' => prog_run env' r | None => None end
  end.

Fixpoint all2 {A B} (p : A -> B -> bool) (l : list A) (m : list B) : bool :=
  match l, m with
  | [], [] => true
  | x :: l', y :: m' => p x y && all2 p l' m'
  | _, _ => false
  end.

(* the text of a live object is read back as a duration that prints the same text *)
Definition reprint (f : frac) : option string :=
  match parse_frac (print_frac f) with Some g => Some (print_frac g) | None => None end.

(* one observed object: the text it prints; that text survives parse + print (a sum whose
   components all vanished prints as the empty text and is not readable: excluded) *)
Definition obs_ok (f : frac) (t : string) : bool :=
  String.eqb (print_frac f) t &&
  (negb (nonempty t) || ostring_eqb (reprint f) (Some t)).

Fixpoint last_opt {A} (l : list A) : option A :=
  match l with [] => None | [x] => Some x | _ :: r => last_opt r end.

(* the program with, after every step, what the implementation shows: the text of EVERY live
   object, and the exact fields of the object the step created (if it created one) *)
Fixpoint prog_check (env : list frac) (prog : list (fstep * (list string * option frac))) : bool :=
  match prog with
  | [] => true
  | (s, (texts, created)) :: r =>
      match fstep_new env s with
      | Some o =>
          let env' := match o with Some f => (env ++ [f])%list | None => env end in
          all2 obs_ok env' texts &&
          match o, created with
          | Some f, Some st => frac_eqb f st
          | None, None => true
          | _, _ => false
          end && prog_check env' r
      | None => false
      end
  end.

(* to_v1 of a performed note of version < 1.0.0 *)
Definition step_pc (s : string) : option Z :=
  slookup s [("C", 0); ("D", 2); ("E", 4); ("F", 5); ("G", 7); ("A", 9); ("B", 11)].
Definition midi_pitch (step : string) (alter octave : Z) : option Z :=
  match step_pc step with Some b => Some ((octave + 1) * 12 + b + alter) | None => None end.

(* ------------------------------------------------------------------ to_v1 (upgrade of pre-1.0 note lines) *)

(* a tick value: int ticks stay; the float ticks of versions < 0.3.0 become int(np.round(x)) *)
Definition tick_to_v1 (v : value) : option value :=
  match v with
  | VInt z => Some (VInt z)
  | VQ neg q => Some (VInt (if neg then - round_half_even q else round_half_even q))
  | _ => None
  end.
Definition alter_of (v : value) : option Z :=
  match v with VInt a => Some a | VNone => Some 0 | _ => None end.

(* MatchNote.from_instance on the field values (Id, NoteName, Modifier, Octave, Onset, Offset,
   [AdjOffset,] Velocity) -> (Id, MidiPitch, Onset, Offset, Velocity, Channel, Track) *)
Definition note_to_v1 (vs : list value) : option (list value) :=
  match vs with
  | [VStr id; VStr step; alt; VInt oct; on; off; vel]
  | [VStr id; VStr step; alt; VInt oct; on; off; _; vel] =>
      match alter_of alt, tick_to_v1 on, tick_to_v1 off, midi_pitch step (match alter_of alt with Some a => a | None => 0 end) oct with
      | Some _, Some on', Some off', Some p => Some [VStr id; VInt p; on'; off'; vel; VInt 1; VInt 0]
      | _, _, _, _ => None
      end
  | _ => None
  end.

Inductive v0kind := KSnoteNote | KSnoteOnly | KNoteOnly | KTrill | KPedal.
Definition snote_len : nat := 11.

(* to_v1 on the flat field values of a pre-1.0 line, giving the flat field values of the 1.0.0 line
   of the same kind: the score note and pedal values are carried over unchanged, the performed note
   is converted, a trill becomes an ornament of type [trill] with the same anchor *)
Definition line_to_v1 (k : v0kind) (vs : list value) : option (list value) :=
  match k with
  | KSnoteNote =>
      match note_to_v1 (skipn snote_len vs) with
      | Some no => Some (firstn snote_len vs ++ no)%list
      | None => None
      end
  | KSnoteOnly | KPedal => Some vs
  | KNoteOnly => note_to_v1 vs
  | KTrill =>
      match vs with
      | anchor :: no => match note_to_v1 no with
                        | Some no' => Some (anchor :: VList ["trill"] :: no')
                        | None => None
                        end
      | [] => None
      end
  end.

Definition check_to_v1 (c : v0kind * list value * list value) : bool :=
  let '(k, vs, out) := c in
  match line_to_v1 k vs with Some o => list_eqb value_eqb o out | None => false end.


(* the near-tie flag for bound_pair: the exact model and float64 may then disagree *)
Definition bound_risky (n d : Z) : bool :=
  if (frac_bound <? n) || (frac_bound <? d) then
    let val := Qmake n (Z.to_pos d) in
    let eps := Qmake 1 1000000 in
    let xs := map (fun den => (val * inject_Z den)%Q) bound_dens in
    let near_half := existsb (fun x => let r := (x - inject_Z (Qfloor x))%Q in
                                       Qle_bool (Qabs' (r - (1 # 2))%Q) eps) xs in
    let dif := map (fun x => let r := round_half_even x in
                             if 1 <=? r then Qabs' (inject_Z r - x)%Q else Qabs' (1 - x)%Q) xs in
    let i := argmin dif in
    let m := nth i dif 0%Q in
    let close := existsb (fun j => negb (Nat.eqb j i) && Qle_bool (Qabs' (nth j dif 0 - m)%Q) eps)
                         (seq 0 (List.length dif)) in
    near_half || close
  else false.
