(* C08 -- hand model of the match-file round trip (file level; line text is C07).
   Executable definitions only; proofs are in Proofs/C08.v.

   exporter  partitura/io/exportmatch.py : matchfile_from_alignment
     measure table, beat / offset / duration of a score note, ticks of performed notes
   importer  partitura/io/importmatch.py : load_matchfile (first-occurrence de-duplication of
     lines, validate_match_ids), part_from_matchfile (beat type lookup, beats -> quarters,
     divisions from the denominators, bar times from the first note of each bar, onset and
     duration in divisions), note_alignment_from_matchfile. *)
From PV Require Import Lib.Base Lib.Round Model.C12.
From Coq Require Import QArith Qround.
#[local] Open Scope Z_scope.

(* ------------------------------------------------------------------ *)
(* 1. position codec                                                   *)

(* exporter: position [pos] (divisions after the start of the measure) with [dpq] divisions per
   quarter in a meter with denominator [den] -> 0-based beat (unit = 1/den whole note) and
   offset inside the beat in whole notes *)
Definition enc_beat (dpq den pos : Z) : Z := (pos * den) / (4 * dpq).
Definition enc_off (dpq den pos : Z) : Q :=
  inject_Z (pos * den - enc_beat dpq den pos * (4 * dpq)) / inject_Z (4 * dpq * den).
Definition enc_dur (dpq d : Z) : Q := inject_Z d / inject_Z (4 * dpq).

(* importer: 1-based beat and offset in whole notes -> quarters after the barline *)
Definition dec_inbar (den beat : Z) (off : Q) : Q :=
  (inject_Z (beat - 1) * (4 / inject_Z den) + 4 * off)%Q.

(* measure table of the exporter: number, start (divisions), denominator in force *)
Record meas := mkM { m_num : Z; m_start : Z; m_den : Z }.

Fixpoint find_meas (ms : list meas) (on : Z) (cur : option meas) : option meas :=
  match ms with
  | [] => cur
  | m :: r => if m_start m <=? on then find_meas r on (Some m) else cur
  end.

(* what the exporter writes for a note: measure number, 1-based beat, offset, duration *)
Definition encode_pos (ms : list meas) (dpq on : Z) : option (Z * Z * Q) :=
  match find_meas ms on None with
  | Some m => let pos := on - m_start m in
              Some (m_num m, enc_beat dpq (m_den m) pos + 1, enc_off dpq (m_den m) pos)
  | None => None
  end.

(* a score note line as the importer sees it: measure, beat, offset (whole notes), denominator in
   force at its OnsetInBeats, position in quarters derived from OnsetInBeats *)
Record sn := mkS { s_meas : Z; s_beat : Z; s_off : Q; s_den : Z; s_q : Q }.

Definition inbar (s : sn) : Q := dec_inbar (s_den s) (s_beat s) (s_off s).

(* bar time = quarter position of the first listed note of the bar minus its in-bar position *)
Fixpoint bar_time (l : list sn) (mnum : Z) : option Q :=
  match l with
  | [] => None
  | s :: r => if s_meas s =? mnum then Some (s_q s - inbar s)%Q else bar_time r mnum
  end.

Definition decode_q (l : list sn) (s : sn) : option Q :=
  match bar_time l (s_meas s) with
  | Some b => Some (b + inbar s)%Q
  | None => None
  end.

(* the exporter's line for the note at [on], with the quarter position the OnsetInBeats channel
   carries when it is exact: (on - origin) / dpq *)
Definition enc_sn (ms : list meas) (dpq origin on : Z) : option sn :=
  match find_meas ms on None with
  | Some m => let pos := on - m_start m in
              Some (mkS (m_num m) (enc_beat dpq (m_den m) pos + 1) (enc_off dpq (m_den m) pos) (m_den m)
                        (inject_Z (on - origin) / inject_Z dpq))
  | None => None
  end.

Fixpoint enc_all (ms : list meas) (dpq origin : Z) (ons : list Z) : list sn :=
  match ons with
  | [] => []
  | on :: r => match enc_sn ms dpq origin on with
               | Some s => s :: enc_all ms dpq origin r
               | None => enc_all ms dpq origin r
               end
  end.

(* importer, grid arithmetic: bar times snapped to the division grid, onsets rounded *)
Definition snap (divs : Z) (q : Q) : Q := inject_Z (round_half_even (inject_Z divs * q)) / inject_Z divs.

Fixpoint bar_time_snapped (divs : Z) (l : list sn) (mnum : Z) : option Q :=
  match l with
  | [] => None
  | s :: r => if s_meas s =? mnum then Some (snap divs (s_q s - inbar s)) else bar_time_snapped divs r mnum
  end.

(* onset in divisions: int(round(divs * (bar_start + bar_offset + beat_offset - offset))) *)
Definition decode_divs (divs : Z) (offset : Q) (l : list sn) (s : sn) : option Z :=
  match bar_time_snapped divs l (s_meas s) with
  | Some b => Some (round_half_even (inject_Z divs * (b + inbar s - offset)))
  | None => None
  end.

(* duration in divisions: int(divs * 4 * num / den) *)
Definition decode_dur (divs : Z) (dur : Q) : Z := trunc (inject_Z divs * 4 * dur).

(* ------------------------------------------------------------------ *)
(* 2. time signature list: beat type in force, beats -> quarters        *)

(* [tsl] = (time in beats, denominator) in ascending order; d0 = value before the first knot *)
Fixpoint den_at (d0 : Z) (tsl : list (Q * Z)) (b : Q) : Z :=
  match tsl with
  | [] => d0
  | (t, d) :: r => if Qle_bool t b then den_at d r b else d0
  end.

(* integral of 4/den over [a, b] *)
Fixpoint integ (d0 : Z) (tsl : list (Q * Z)) (a b : Q) : Q :=
  match tsl with
  | [] => ((b - a) * (4 / inject_Z d0))%Q
  | (t, d) :: r =>
      if Qle_bool t a then integ d r a b
      else if Qle_bool b t then ((b - a) * (4 / inject_Z d0))%Q
      else ((t - a) * (4 / inject_Z d0) + integ d r t b)%Q
  end.

Definition first_den (tsl : list (Q * Z)) : Z := match tsl with [] => 4 | (_, d) :: _ => d end.

(* quarters of a position in beats: the first onset is scaled by its own beat type, later ones
   are integrated from it *)
Definition b2q (tsl : list (Q * Z)) (first b : Q) : Q :=
  let d0 := first_den tsl in
  (first * (4 / inject_Z (den_at d0 tsl first)) + integ d0 tsl first b)%Q.

(* divisions of the loaded part: lcm over the notes of max(den/4,1) * denominator *)
Definition div_arg (den fden : Z) : Z := Z.max (den / 4) 1 * fden.
Fixpoint lcm_list (l : list Z) : Z := match l with [] => 1 | x :: r => Z.lcm x (lcm_list r) end.

(* ------------------------------------------------------------------ *)
(* 3. lines of a file: de-duplication and duplicate-id resolution       *)

Inductive kind := KMatch | KDeletion | KInsertion | KOrnament.
Definition kind_eqb (a b : kind) : bool :=
  match a, b with
  | KMatch, KMatch | KDeletion, KDeletion | KInsertion, KInsertion | KOrnament, KOrnament => true
  | _, _ => false
  end.

(* a note line: kind, score id (match, deletion; anchor of an ornament), performance id *)
Record line := mkL { l_kind : kind; l_sid : option Z; l_pid : option Z }.

Definition line_eqb (a b : line) : bool :=
  kind_eqb (l_kind a) (l_kind b) && zopt_eqb (l_sid a) (l_sid b) && zopt_eqb (l_pid a) (l_pid b).

(* np.unique(lines, return_index=True) + sort(idx): keep the first occurrence of every text *)
Fixpoint zmem (x : Z) (l : list Z) : bool :=
  match l with [] => false | y :: r => (x =? y) || zmem x r end.

Fixpoint unique_first_aux (seen : list Z) (l : list Z) : list Z :=
  match l with
  | [] => []
  | x :: r => if zmem x seen then unique_first_aux seen r else x :: unique_first_aux (x :: seen) r
  end.
Definition unique_first (l : list Z) : list Z := unique_first_aux [] l.

Fixpoint zcount (x : Z) (l : list Z) : nat :=
  match l with [] => O | y :: r => if x =? y then S (zcount x r) else zcount x r end.

(* MatchFile.snotes: score notes of match and deletion lines; MatchFile.notes: performed notes of
   match, insertion and ornament lines *)
Definition snote_id (x : line) : list Z :=
  match l_kind x, l_sid x with
  | (KMatch | KDeletion), Some s => [s]
  | _, _ => []
  end.
Definition note_id (x : line) : list Z :=
  match l_kind x, l_pid x with
  | (KMatch | KInsertion | KOrnament), Some p => [p]
  | _, _ => []
  end.
Definition sids (l : list line) : list Z := flat_map snote_id l.
Definition pids (l : list line) : list Z := flat_map note_id l.

Definition dup_in (x : Z) (ids : list Z) : bool := Nat.ltb 1 (zcount x ids).

Definition keep_del (ids : list Z) (x : line) : bool :=
  match l_kind x, l_sid x with
  | KDeletion, Some s => negb (dup_in s ids)
  | _, _ => true
  end.
Definition keep_ins (ids : list Z) (x : line) : bool :=
  match l_kind x, l_pid x with
  | KInsertion, Some p => negb (dup_in p ids)
  | _, _ => true
  end.

(* validate_match_ids: first the deletions, then (on the result) the insertions *)
Definition validate (l : list line) : list line :=
  let l1 := filter (keep_del (sids l)) l in
  filter (keep_ins (pids l1)) l1.

(* ------------------------------------------------------------------ *)
(* 4. alignment <-> lines                                               *)

Inductive entry :=
| EMatch (s p : Z) | EDeletion (s : Z) | EInsertion (p : Z) | EOrnament (s p : Z).

Definition line_of (e : entry) : line :=
  match e with
  | EMatch s p => mkL KMatch (Some s) (Some p)
  | EDeletion s => mkL KDeletion (Some s) None
  | EInsertion p => mkL KInsertion None (Some p)
  | EOrnament s p => mkL KOrnament (Some s) (Some p)
  end.
Definition lines_of (a : list entry) : list line := map line_of a.

Definition entry_of (x : line) : list entry :=
  match l_kind x, l_sid x, l_pid x with
  | KMatch, Some s, Some p => [EMatch s p]
  | KDeletion, Some s, _ => [EDeletion s]
  | KInsertion, _, Some p => [EInsertion p]
  | KOrnament, Some s, Some p => [EOrnament s p]
  | _, _, _ => []
  end.
Definition alignment_of (l : list line) : list entry := flat_map entry_of l.

(* ids unique per label: no score id in two match/deletion entries, no performance id in two
   match/insertion/ornament entries *)
Definition entry_sid (e : entry) : list Z :=
  match e with EMatch s _ | EDeletion s => [s] | _ => [] end.
Definition entry_pid (e : entry) : list Z :=
  match e with EMatch _ p | EInsertion p | EOrnament _ p => [p] | _ => [] end.

(* ------------------------------------------------------------------ *)
(* 5. boolean checkers used by the correspondence (harness/props/c08.py) *)

Definition q_eqb (a b : Q) : bool := Qeq_bool a b.
Definition qopt_some_eqb (a : option Q) (b : Q) : bool :=
  match a with Some x => Qeq_bool x b | None => false end.

(* exporter: ((measure table, dpq), (on, dur), (measure, beat, offset, duration) read from the file) *)
Definition chk_export (c : list (Z * Z * Z) * Z * (Z * Z) * (Z * Z * Q * Q)) : bool :=
  let '(tab, dpq, (on, d), (fm, fb, foff, fdur)) := c in
  let ms := map (fun t => let '(n, s, dn) := t in mkM n s dn) tab in
  match encode_pos ms dpq on with
  | Some (m, b, off) => (m =? fm) && (b =? fb) && Qeq_bool off foff && Qeq_bool (enc_dur dpq d) fdur
  | None => false
  end.

Fixpoint forall2b {A B} (f : A -> B -> bool) (a : list A) (b : list B) : bool :=
  match a, b with
  | [], [] => true
  | x :: a', y :: b' => f x y && forall2b f a' b'
  | _, _ => false
  end.

(* importer: time signature list, first onset in beats, notes of the file in the importer's order
   (measure, beat, offset, offset denominator, duration, duration denominator, onset in beats),
   and what was loaded: divisions, per note (onset, duration) in divisions *)
Definition mk_sn (tsl : list (Q * Z)) (first : Q) (n : Z * Z * Q * Z * Q * Z * Q) : sn :=
  let '(m, b, off, _, _, _, oib) := n in
  mkS m b off (den_at (first_den tsl) tsl oib) (b2q tsl first oib).

Definition chk_import (c : list (Q * Z) * Q * list (Z * Z * Q * Z * Q * Z * Q) * Z * list (Z * Z)) : bool :=
  let '(tsl, first, notes, ldivs, loaded) := c in
  let d0 := first_den tsl in
  let args := flat_map (fun n => let '(_, _, _, od, _, dd, oib) := n in
                                 let dn := den_at d0 tsl oib in [div_arg dn od; div_arg dn dd]) notes in
  let divs := lcm_list args in
  let l := map (mk_sn tsl first) notes in
  let firstq := (first * (4 / inject_Z (den_at d0 tsl first)))%Q in
  let offset := if Qle_bool firstq 0 then firstq else 0%Q in
  (divs =? ldivs) &&
  forall2b (fun n ld =>
              let '(_, _, _, _, dur, _, _) := n in
              let '(lon, ldur) := ld in
              match decode_divs divs offset l (mk_sn tsl first n) with
              | Some o => (o =? lon) && (decode_dur divs dur =? ldur)
              | None => false
              end) notes loaded.

(* performance: (ppq, mpq, seconds written, tick in the file, seconds loaded) *)
Definition chk_tick (c : Z * Z * Q * Z * Q) : bool :=
  let '(ppq, mpq, t, k, back) := c in
  (sec_to_tick ppq mpq t =? k) &&
  Qle_bool (Qabs.Qabs (back - tick_to_sec ppq mpq k)) (1 # 1000000000).

(* file reader: (interned text, kind code, sid, pid) of every raw note line in file order, and the
   (kind, sid, pid) lines load_matchfile returned *)
Definition kind_of_code (k : Z) : kind :=
  match k with 0 => KMatch | 1 => KDeletion | 2 => KInsertion | _ => KOrnament end.
Definition mk_line (t : Z * option Z * option Z) : line :=
  let '(k, s, p) := t in mkL (kind_of_code k) s p.

Fixpoint first_of {A} (seen : list Z) (l : list (Z * A)) : list A :=
  match l with
  | [] => []
  | (x, a) :: r => if zmem x seen then first_of seen r else a :: first_of (x :: seen) r
  end.

Definition chk_reader (c : list (Z * (Z * option Z * option Z)) * list (Z * option Z * option Z)) : bool :=
  let '(raw, got) := c in
  list_eqb line_eqb (validate (map mk_line (first_of [] raw))) (map mk_line got).

Definition entry_eqb (a b : entry) : bool :=
  match a, b with
  | EMatch s p, EMatch s' p' | EOrnament s p, EOrnament s' p' => (s =? s') && (p =? p')
  | EDeletion s, EDeletion s' => s =? s'
  | EInsertion p, EInsertion p' => p =? p'
  | _, _ => false
  end.

(* alignment: lines returned by the reader and the alignment list returned (as lines) *)
Definition chk_alignment (c : list (Z * option Z * option Z) * list (Z * option Z * option Z)) : bool :=
  let '(ls, al) := c in
  list_eqb entry_eqb (alignment_of (map mk_line ls)) (alignment_of (map mk_line al)) &&
  list_eqb line_eqb (lines_of (alignment_of (map mk_line ls))) (map mk_line al).

(* ------------------------------------------------------------------ *)
(* 6. performed notes: one leg  save_match (ppq, mpq) -> file -> load_match            *)
(*    exportmatch.py: matchfile_from_alignment (perf_info), importmatch.py:            *)
(*    performed_part_from_match                                                        *)

(* a performed note as given to save_match: pitch, velocity, onset and offset in seconds and,
   when it was loaded from a match or MIDI file, the ticks of the clock it was LOADED with *)
Record pnote := mkP { p_pitch : Z; p_vel : Z; p_on : Q; p_off : Q; p_stored : option (Z * Z) }.
(* the played-note part of a line of the file *)
Record fnote := mkF { f_pitch : Z; f_vel : Z; f_on : Z; f_off : Z }.

(* exporter: the seconds are converted with the clock asked of save_match (the one written in
   the header); stored ticks are not looked at *)
Definition exp_note (ppq mpq : Z) (p : pnote) : fnote :=
  mkF (p_pitch p) (p_vel p) (sec_to_tick ppq mpq (p_on p)) (sec_to_tick ppq mpq (p_off p)).
(* importer: ticks of the file and the header's clock -> seconds; the ticks are kept *)
Definition imp_note (ppq mpq : Z) (f : fnote) : pnote :=
  mkP (f_pitch f) (f_vel f) (tick_to_sec ppq mpq (f_on f)) (tick_to_sec ppq mpq (f_off f))
      (Some (f_on f, f_off f)).
Definition leg (ppq mpq : Z) (p : pnote) : pnote := imp_note ppq mpq (exp_note ppq mpq p).

(* half a tick of the clock, in seconds *)
Definition half_tick (ppq mpq : Z) : Q := inject_Z mpq / inject_Z (2 * (1000000 * ppq)).

(* ------------------------------------------------------------------ *)
(* 7. pedal stream                                                      *)

Definition ctrl := (Z * Q * Z)%type.   (* controller number, seconds, value *)
Definition ped := (Z * Z * Z)%type.    (* controller number (64 sustain, 67 soft), tick, value *)
Definition ped_num (e : ped) : Z := fst (fst e).
Definition ped_tick (e : ped) : Z := snd (fst e).
Definition ped_val (e : ped) : Z := snd e.
Definition ctrl_num (c : ctrl) : Z := fst (fst c).

Definition is_pedal (n : Z) : bool := (n =? 64) || (n =? 67).

(* exporter: only controllers 64 and 67 give a line; time -> tick of the file's clock *)
Definition ped_of (ppq mpq : Z) (c : ctrl) : list ped :=
  let '(n, t, v) := c in if is_pedal n then [(n, sec_to_tick ppq mpq t, v)] else [].

(* pedal_lines.sort(key=Time): stable *)
Fixpoint ins_tick (e : ped) (l : list ped) : list ped :=
  match l with
  | [] => [e]
  | x :: r => if ped_tick e <=? ped_tick x then e :: l else x :: ins_tick e r
  end.
Fixpoint sort_tick (l : list ped) : list ped :=
  match l with [] => [] | x :: r => ins_tick x (sort_tick r) end.

Definition tick_le (a b : ped) : Prop := ped_tick a <= ped_tick b.

Definition ped_lines (ppq mpq : Z) (cs : list ctrl) : list ped :=
  sort_tick (flat_map (ped_of ppq mpq) cs).

(* load_matchfile keeps the first occurrence of every line text; the text of a pedal line is
   its name, tick and value *)
Definition ped_eqb (a b : ped) : bool :=
  (ped_num a =? ped_num b) && (ped_tick a =? ped_tick b) && (ped_val a =? ped_val b).
Fixpoint pmem (x : ped) (l : list ped) : bool :=
  match l with [] => false | y :: r => ped_eqb x y || pmem x r end.
Fixpoint ped_first_aux (seen : list ped) (l : list ped) : list ped :=
  match l with
  | [] => []
  | x :: r => if pmem x seen then ped_first_aux seen r else x :: ped_first_aux (x :: seen) r
  end.
Definition ped_read (l : list ped) : list ped := ped_first_aux [] l.

(* performed_part_from_match: controls = sustain lines ++ soft lines, ticks -> seconds *)
Definition ped_sec (ppq mpq : Z) (e : ped) : ctrl :=
  (ped_num e, tick_to_sec ppq mpq (ped_tick e), ped_val e).
Definition num_is (n : Z) (e : ped) : bool := ped_num e =? n.
Definition cnum_is (n : Z) (c : ctrl) : bool := ctrl_num c =? n.
Definition ped_load (ppq mpq : Z) (l : list ped) : list ctrl :=
  map (ped_sec ppq mpq) (filter (num_is 64) l ++ filter (num_is 67) l).

Definition ped_roundtrip (ppq mpq : Z) (cs : list ctrl) : list ctrl :=
  ped_load ppq mpq (ped_read (ped_lines ppq mpq cs)).

(* ------------------------------------------------------------------ *)
(* 8. checkers for sections 6 and 7                                     *)

Definition q_near (a b : Q) : bool := Qle_bool (Qabs.Qabs (a - b)) (1 # 1000000000).

(* (ppq, mpq, note given to save_match, note loaded: pitch, velocity, ticks, seconds) *)
Definition chk_pnote (c : Z * Z * (Z * Z * Q * Q * option (Z * Z)) * (Z * Z * Z * Z * Q * Q)) : bool :=
  let '(ppq, mpq, (pi, ve, on, off, st), (pi', ve', kon, koff, son, soff)) := c in
  let r := leg ppq mpq (mkP pi ve on off st) in
  (p_pitch r =? pi') && (p_vel r =? ve') &&
  match p_stored r with
  | Some (a, b) => (a =? kon) && (b =? koff)
  | None => false
  end && q_near son (p_on r) && q_near soff (p_off r).

Definition chk_pedal (c : Z * Z * list ctrl * list ctrl) : bool :=
  let '(ppq, mpq, cs, got) := c in
  forall2b (fun (m g : ctrl) =>
              let '(n, t, v) := m in let '(n', t', v') := g in
              (n =? n') && (v =? v') && q_near t' t)
           (ped_roundtrip ppq mpq cs) got.
