(* C14 -- the specification of the sounding end, by direct definition over the (unsorted)
   control stream and note list.  Definitions only (Prop); independent of the algorithm in
   Model/C14.v (no sorting, no change table, no search). *)
From PV Require Import Lib.Base Model.C14.
From Coq Require Import QArith.
#[local] Open Scope Q_scope.

Section Spec.
  Variables (thr : Z) (ns : list note) (cs : list ctrl).

  (* the sustain pedal is down at the moment x: the latest pedal event strictly before x
     has a value above the threshold (no event before x: the pedal is up) *)
  Definition pedal_down_before (x : Q) : Prop :=
    exists c, In c (pedal_events cs) /\ c_time c < x /\ (c_val c > thr)%Z /\
              forall c', In c' (pedal_events cs) -> c_time c' < x -> c_time c' <= c_time c.

  (* the stream is closed one second after the last pedal event / the last release,
     whichever is later (a pedal still down then is taken as lifted) *)
  Definition closing_moment (t : Q) : Prop :=
    (forall c, In c (pedal_events cs) -> c_time c + 1 <= t) /\
    (forall n, In n ns -> n_off n + 1 <= t) /\
    ((exists c, In c (pedal_events cs) /\ t == c_time c + 1) \/ (exists n, In n ns /\ t == n_off n + 1)).

  (* a moment at or after the release of note i at which it stops sounding: a pedal value at or
     below the threshold, the closing moment, or another note striking the same pitch *)
  Definition end_candidate (i : nat) (n : note) (t : Q) : Prop :=
    n_off n <= t /\
    ((exists c, In c (pedal_events cs) /\ c_time c == t /\ (c_val c <= thr)%Z)
     \/ closing_moment t
     \/ (exists j m, j <> i /\ nth_error ns j = Some m /\ n_pitch m = n_pitch n /\ n_on m == t)).

  (* the sounding end of note i: its release when the pedal is up then (in particular when there
     are no pedal events), otherwise the first candidate moment *)
  Definition sounding_end (i : nat) (n : note) (s : Q) : Prop :=
    (~ pedal_down_before (n_off n) -> s == n_off n) /\
    (pedal_down_before (n_off n) -> end_candidate i n s /\ forall t, end_candidate i n t -> s <= t).
End Spec.

(* hypotheses under which numpy's (unspecified) order of equal sort keys cannot matter *)
Definition distinct_pedal_times (cs : list ctrl) : Prop :=
  ForallOrdPairs (fun c c' => ~ c_time c == c_time c') (pedal_events cs).
Definition no_zero_length_tie (ns : list note) : Prop :=
  forall i n j m, i <> j -> nth_error ns i = Some n -> nth_error ns j = Some m ->
                  n_pitch m = n_pitch n -> n_on n == n_off n -> ~ n_on m == n_on n.
Definition released_after_onset (ns : list note) : Prop := forall n, In n ns -> n_on n <= n_off n.
