(* C10 -- HISTORIES of the map objects (state carried between calls).
   `part.key_signature_map` & co. are properties: every access gathers the element table from the timeline and returns a
   NEW map object (a closure over the sample table handed to utils/generic.py: interp1d).  A caller may keep such an
   object, query it with scalars and vectors, overwrite the arrays it got back in place (they are the caller's), edit the
   part, request the map again, ...  The machine below runs such a history:
     HEdit p      the part is edited through the public API; its state is p from now on
     HGet         m_i = part.<map>            (a new map object, numbered in the order requested)
     HQuery i q   r_k = m_i(q)                (a new returned array, numbered in the order returned)
     HWrite k v   r_k[...] = v                (the caller overwrites the k-th returned array in place)
   with two switches for the ways such code goes wrong (both `false` for the code as it is):
     memo   the sample table is cached on the part at the first access and reused by later accesses;
     alias  the result of a scalar query in the single-sample branch of interp1d is a writable VIEW of the map object's
            only sample row (np.asarray(y[0])) instead of a copy (np.array(result[0])) -- writing into it writes into
            the map object.
   Definitions only; proofs in Proofs/C10_Hist.v. *)
From PV Require Import Lib.Base Lib.Round Model.C02 Model.C10 Model.C10_Impl.
#[local] Open Scope Z_scope.

Section Hist.
Context {P A : Type}.
Variable rows : P -> list (Z * A).        (* the sample table built from the part on access (ts_rows, ks_rows, ...) *)

Inductive hop :=
| HEdit (p : P)
| HGet
| HQuery (i : nat) (q : query)
| HWrite (k : nat) (v : A).

(* a returned array: its contents; Some i = it is a view of the sample row of map object i *)
Record harr := mk_harr { a_val : res (option A); a_view : option nat }.

Record hstate := mk_hstate {
  h_part : P;                              (* current state of the part *)
  h_memo : option (list (Z * A));          (* table cached on the part (memo variant only) *)
  h_maps : list (list (Z * A));            (* the sample table each map object holds *)
  h_arrs : list harr                       (* the arrays returned so far *)
}.

Definition hinit (p : P) : hstate := mk_hstate p None [] [].

Definition fill (v : A) (r : res (option A)) : res (option A) :=
  match r with RScalar _ => RScalar (Some v) | RVec l => RVec (map (fun _ => Some v) l) end.
Definition set_rows (v : A) (tbl : list (Z * A)) : list (Z * A) := map (fun kv => (fst kv, v)) tbl.
Fixpoint upd {X} (n : nat) (f : X -> X) (l : list X) : list X :=
  match l, n with
  | [], _ => []
  | x :: r, O => f x :: r
  | x :: r, S n' => x :: upd n' f r
  end.

Definition hstep (memo alias : bool) (s : hstate) (o : hop) : hstate * option (res (option A)) :=
  match o with
  | HEdit p => (mk_hstate p (h_memo s) (h_maps s) (h_arrs s), None)
  | HGet =>
      let tbl := match (if memo then h_memo s else None) with Some t => t | None => rows (h_part s) end in
      (mk_hstate (h_part s) (if memo then Some tbl else None) (h_maps s ++ [tbl]) (h_arrs s), None)
  | HQuery i q =>
      match nth_error (h_maps s) i with
      | None => (s, None)
      | Some tbl =>
          let r := wrap_prev tbl q in
          let view := if alias then match q, tbl with QScalar _, [_] => Some i | _, _ => None end else None in
          (mk_hstate (h_part s) (h_memo s) (h_maps s) (h_arrs s ++ [mk_harr r view]), Some r)
      end
  | HWrite k v =>
      match nth_error (h_arrs s) k with
      | None => (s, None)
      | Some a =>
          let arrs := upd k (fun a => mk_harr (fill v (a_val a)) (a_view a)) (h_arrs s) in
          let maps := match a_view a with Some i => upd i (set_rows v) (h_maps s) | None => h_maps s end in
          (mk_hstate (h_part s) (h_memo s) maps arrs, None)
      end
  end.

(* the observations of a history: what the queries returned, in order *)
Fixpoint hrun (memo alias : bool) (s : hstate) (ops : list hop) : list (res (option A)) :=
  match ops with
  | [] => []
  | o :: r => let '(s', ob) := hstep memo alias s o in
              match ob with Some x => x :: hrun memo alias s' r | None => hrun memo alias s' r end
  end.

(* what the history MUST show: a query through map object i = the lookup over the table of the part as it was when
   object i was requested; nothing else of the history matters (p = current part, gets = the part at each HGet) *)
Fixpoint hspec (p : P) (gets : list P) (ops : list hop) : list (res (option A)) :=
  match ops with
  | [] => []
  | HEdit p' :: r => hspec p' gets r
  | HGet :: r => hspec p (gets ++ [p]) r
  | HQuery i q :: r =>
      match nth_error gets i with
      | Some pi => wrap_prev (rows pi) q :: hspec p gets r
      | None => hspec p gets r
      end
  | HWrite _ _ :: r => hspec p gets r
  end.

(* the part after the edits of a history; the number of map objects requested *)
Fixpoint hcur (p : P) (ops : list hop) : P :=
  match ops with [] => p | HEdit p' :: r => hcur p' r | _ :: r => hcur p r end.
Fixpoint hgets (ops : list hop) : nat :=
  match ops with [] => O | HGet :: r => S (hgets r) | _ :: r => hgets r end.

End Hist.

Arguments hop : clear implicits.
Arguments hstate : clear implicits.

(* ---------------------------------------------------------------- correspondence: the history the harness ran *)
(* one event as observed on the implementation: the observed result of a query has None where it is not compared
   (measure maps at positions outside every measure); observed = None: the query is part of the history, its result is
   compared elsewhere (check10i) *)
Inductive hev (A : Type) :=
| EGet
| EQuery (i : nat) (q : query) (observed : option (res (option A)))
| EWrite (k : nat) (v : A).
Arguments EGet {A}.
Arguments EQuery {A} i q observed.
Arguments EWrite {A} k v.

Definition hev_op {P A} (e : hev A) : hop P A :=
  match e with EGet => HGet | EQuery i q _ => HQuery i q | EWrite k v => HWrite k v end.
Definition hev_obs {A} (evs : list (hev A)) : list (option (res (option A))) :=
  flat_map (fun e => match e with EQuery _ _ o => [o] | _ => [] end) evs.

Definition res_obs_eqb {A} (eqb : A -> A -> bool) (o m : res (option A)) : bool :=
  match o, m with
  | RScalar x, RScalar y => obs_eqb eqb x y
  | RVec x, RVec y => same_len x y && forallb (fun om => obs_eqb eqb (fst om) (snd om)) (combine x y)
  | _, _ => false
  end.

Definition hist_ok {P A} (rows : P -> list (Z * A)) (eqb : A -> A -> bool) (p : P) (evs : list (hev A)) : bool :=
  let model := hrun rows false false (hinit p) (map hev_op evs) in
  let obs := hev_obs evs in
  same_len obs model &&
  forallb (fun om => match fst om with Some o => res_obs_eqb eqb o (snd om) | None => true end) (combine obs model).

(* the history the harness runs on every map object, in compact form: the calls (the same for every round), the
   writes (k, v): the k-th returned array overwritten with v in every component, the observed results of the same calls
   made again through the same object after the writes, and through a map requested after that *)
Definition c10_chist (A : Type) : Type :=
  (list (nat * Z) * list (option (res (option A))) * list (option (res (option A))))%type.
Definition hist_events {A} (mkv : Z -> A) (calls : list query) (h : c10_chist A) : list (hev A) :=
  let '(writes, again, fresh) := h in
  EGet :: map (fun q => EQuery 0 q None) calls ++
  map (fun kv => EWrite (fst kv) (mkv (snd kv))) writes ++
  map2 (fun q o => EQuery 0 q o) calls again ++
  EGet :: map2 (fun q o => EQuery 1 q o) calls fresh.

(* the calls of the signature maps / of the measure maps (positions inside a measure), then the histories of
   time_signature_map, key_signature_map, measure_map, measure_number_map of one observed part *)
Definition c10_hists : Type :=
  (list query * list query * c10_chist (Z * Z * Z) * c10_chist (Z * Z) * c10_chist (Z * Z) * c10_chist (option Z))%type.
Definition c10_hcase : Type := (c10_icase * c10_hists)%type.

Definition check10h (hc : c10_hcase) : bool :=
  let '(ic, (ca, cb, hts, hks, hms, hnn)) := hc in
  let '(c, _, _) := ic in
  let cp := build10 c in
  check10i ic &&
  hist_ok ts_rows z3_eqb cp (hist_events (fun v => (v, v, v)) ca hts) &&
  hist_ok ks_rows z2_eqb cp (hist_events (fun v => (v, v)) ca hks) &&
  hist_ok (fun cp => meas_xy (meas_tbl cp)) z2_eqb cp (hist_events (fun v => (v, v)) cb hms) &&
  hist_ok (fun cp => num_xy (meas_tbl cp)) zo_eqb cp (hist_events (fun v => Some v) cb hnn).
