(* C17 -- the chroma context windows as the code maintains them:
   partitura/musicanalysis/pitch_spelling.py: compute_chroma_vector_array -- ONE running vector of
   twelve counts, initialised with the first min(n, K_post) chromas and then, for i = 1 .. n-1,
   incremented at chroma[i + K_post - 1] (if i + K_post <= n) and decremented at
   chroma[i - K_pre - 1] (if i - K_pre > 0); a copy is stored per note.
   Model/C17_Spelling.v describes the same contexts as slices (ps_window); Proofs/C17_Chroma.v
   proves that the running vector holds exactly the chroma counts of that slice, for every
   array and every K_pre, K_post.  The strength of a morph read from the running vector
   (morph_strength_v, compute_morph_array lines 16-23) and the table spelled from it
   (spell_tab_v) are the definitions the correspondence evaluates.  Definitions only. *)
From PV Require Import Lib.Base Gen.C17_PS13 Model.C17_Spelling.
#[local] Open Scope Z_scope.

Definition cvec := list Z.
Definition cv_zero : cvec := repeat 0 12%nat.

Fixpoint cv_add_at (d : Z) (k : nat) (v : cvec) : cvec :=
  match v with
  | [] => []
  | x :: r => match k with O => (x + d) :: r | S k' => x :: cv_add_at d k' r end
  end.

(* chroma_vector[c] = chroma_vector[c] + d *)
Definition cv_add (d c : Z) (v : cvec) : cvec := cv_add_at d (Z.to_nat c) v.
Definition cv_get (v : cvec) (c : Z) : Z := nth (Z.to_nat c) v 0.

(* for i in range(min(n, K_post)): chroma_vector[chroma_array[i]] += 1 *)
Definition cv_init (kpost : nat) (cs : list Z) : cvec :=
  fold_left (fun v c => cv_add 1 c v) (firstn kpost cs) cv_zero.

(* the body of the loop `for i in range(1, n)`, [steps] iterations starting at i *)
Fixpoint cv_loop (kpre kpost : nat) (cs : list Z) (steps i : nat) (v : cvec) : list cvec :=
  match steps with
  | O => []
  | S s =>
      let v1 := if (i + kpost <=? List.length cs)%nat
                then cv_add 1 (nth (i + kpost - 1) cs 0) v else v in
      let v2 := if (kpre <? i)%nat
                then cv_add (-1) (nth (i - kpre - 1) cs 0) v1 else v1 in
      v2 :: cv_loop kpre kpost cs s (S i) v2
  end.

(* compute_chroma_vector_array(chroma_array, K_pre, K_post): one vector per note *)
Definition chroma_vectors (kpre kpost : nat) (cs : list Z) : list cvec :=
  let v0 := cv_init kpost cs in
  v0 :: cv_loop kpre kpost cs (List.length cs - 1) 1 v0.

(* the slice whose counts the vector of note j holds *)
Definition ps_seg (a b : nat) (cs : list Z) : list Z := firstn (b - a) (skipn a cs).

(* compute_morph_array lines 16-23 on a stored vector: the strength of morph m is the sum of
   the counts of the tonic chromas under which the note has morph m *)
Definition morph_strength_v (c0 c : Z) (v : cvec) (m : Z) : Z :=
  fold_right (fun ct a => if mftc c0 c ct =? m then cv_get v ct + a else a) 0 (zrange 0 12).

Definition select_morph_v (c0 c : Z) (v : cvec) : Z :=
  argmax_first (morph_strength_v c0 c v) (zrange 1 6) 0.

Fixpoint spell_from_v (c0 : Z) (vs : list cvec) (rs : list row) : list (row * spelling) :=
  match rs, vs with
  | r :: rest, v :: vs' =>
      let cp := chromatic_pitch (r_pitch r) in
      (r, spell_cm cp (select_morph_v c0 (cp mod 12) v)) :: spell_from_v c0 vs' rest
  | _, _ => []
  end.

(* ps13s1 as the code runs it: sort, chroma array, running context vectors, morphs, names *)
Definition spell_tab_v (kpre kpost : nat) (rows : list row) : list (row * spelling) :=
  let s := ps_sort rows in
  let cs := map (fun r => chroma_of_pitch (r_pitch r)) s in
  spell_from_v (hd 0 cs) (chroma_vectors kpre kpost cs) s.

(* ---- checkers used by the correspondence *)

(* compute_chroma_vector_array called directly: (K_pre, K_post, chroma array, rows returned) *)
Definition cv_check (c : nat * nat * list Z * list (list Z)) : bool :=
  let '(kpre, kpost, cs, out) := c in
  list_eqb (list_eqb Z.eqb) (chroma_vectors kpre kpost cs) out.

(* estimate_spelling against the table spelled from the running vectors (same shape as spell_check) *)
Definition spell_check_v (c : nat * nat * list row * list (string * Z * Z)) : bool :=
  let '(kpre, kpost, rows, out) := c in
  let got := combine rows out in
  let want := map named_of (spell_tab_v kpre kpost rows) in
  Nat.eqb (List.length out) (List.length rows) && Nat.eqb (List.length want) (List.length rows) &&
  forallb (fun x => Nat.eqb (named_count x got) (named_count x want)) got.
