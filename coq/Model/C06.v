(* C06 -- executable model of
     partitura/io/exportmidi.py: save_performance_midi
     partitura/io/importmidi.py: load_performance_midi, adjust_time, note_hash
   as the code is after the repairs of D11 (list input), D12 (tempo changes ordered by tick)
   and of the track renumbering order.  Definitions only; proofs in Proofs/C06*.v.
   Seconds are exact rationals, ticks are integers.  The property asks for "the nearest tick":
   the exporter's rounding is modelled with a rule for exact half-way positions (rule 0 = half to
   even, what np.round does and what Model.C12.sec_to_tick is; 1 = up; 2 = down; other = half to
   odd), so that a different but still nearest choice at exact ties is not reported. *)
From PV Require Import Lib.Base Lib.Round Model.C12.
From Coq Require Import QArith Qround.
#[local] Open Scope Z_scope.

Definition tie_up (rule f : Z) : bool :=
  if rule =? 0 then Z.odd f else if rule =? 1 then true else if rule =? 2 then false else Z.even f.
Definition round_tie (rule : Z) (x : Q) : Z :=
  let f := Qfloor x in
  match Qcompare (x - inject_Z f) half with
  | Lt => f
  | Gt => f + 1
  | Eq => if tie_up rule f then f + 1 else f
  end.
Definition sec_to_tick_r (rule ppq mpq : Z) (t : Q) : Z :=
  round_tie rule (inject_Z (1000000 * ppq) * t / inject_Z mpq).

(* MIDI messages; key signatures and the other meta messages are interned by the harness *)
Inductive msg :=
| NoteOn (ch pitch vel : Z)
| NoteOff (ch pitch vel : Z)
| CC (ch num val : Z)
| PC (ch prog : Z)
| Tempo (mpq : Z)
| KeySig (k : Z)
| TimeSig (n d : Z)
| Meta (id : Z)
| EndOfTrack
| Other.   (* any message the loader ignores (pitch bend, aftertouch, sysex ...) *)

Definition msg_eqb (a b : msg) : bool :=
  match a, b with
  | NoteOn c p v, NoteOn c' p' v' | NoteOff c p v, NoteOff c' p' v' | CC c p v, CC c' p' v' =>
      (c =? c') && (p =? p') && (v =? v')
  | PC c p, PC c' p' | TimeSig c p, TimeSig c' p' => (c =? c') && (p =? p')
  | Tempo m, Tempo m' | KeySig m, KeySig m' | Meta m, Meta m' => m =? m'
  | EndOfTrack, EndOfTrack | Other, Other => true
  | _, _ => false
  end.

(* ---- stable insertion sort with a boolean order: x goes before the first y with leb x y *)
Section Sort.
  Context {A : Type} (leb : A -> A -> bool).
  Fixpoint insert_le (x : A) (l : list A) : list A :=
    match l with
    | [] => [x]
    | y :: r => if leb x y then x :: y :: r else y :: insert_le x r
    end.
  Definition sort_le (l : list A) : list A := fold_right insert_le [] l.
End Sort.
Definition sort_by_tick {A} (l : list (Z * A)) : list (Z * A) := sort_le (fun a b => fst a <=? fst b) l.
Fixpoint zmem (x : Z) (l : list Z) : bool := match l with [] => false | y :: r => (x =? y) || zmem x r end.
Fixpoint zuniq (l : list Z) : list Z :=
  match l with [] => [] | x :: r => if zmem x r then zuniq r else x :: zuniq r end.
Definition sorted_uniq (l : list Z) : list Z := sort_le Z.leb (zuniq l).

(* =====================================================================================
   SAVE *)
Record pnote := mkPN { pn_track : Z; pn_ch : Z; pn_pitch : Z; pn_vel : Z; pn_on : Q; pn_off : Q }.
(* a timed item of a part other than a note: control, program, key/time signature, other meta *)
Record pitem := mkPI { pi_track : Z; pi_time : Q; pi_msg : msg }.
Record ppart := mkPP { pp_metas : list pitem; pp_keys : list pitem; pp_times : list pitem;
                       pp_ctrls : list pitem; pp_notes : list pnote; pp_progs : list pitem }.

Definition ev := (Z * Z * msg)%type.   (* track, absolute tick, message *)
Definition ev_track (e : ev) : Z := fst (fst e).
Definition ev_tick (e : ev) : Z := snd (fst e).

Section Save.
  Variables (rule ppq mpq : Z).
  Definition q (t : Q) : Z := sec_to_tick_r rule ppq mpq t.
  Definition emit_item (i : pitem) : ev := (pi_track i, q (pi_time i), pi_msg i).
  Definition emit_note (n : pnote) : list ev :=
    [(pn_track n, q (pn_on n), NoteOn (pn_ch n) (pn_pitch n) (pn_vel n));
     (pn_track n, q (pn_off n), NoteOff (pn_ch n) (pn_pitch n) 0)].
  Definition msg_ch (m : msg) : Z :=
    match m with NoteOn c _ _ | NoteOff c _ _ | CC c _ _ | PC c _ => c | _ => 0 end.
  (* the messages of one part in the order the code appends them to the buckets *)
  Definition emit_part_body (p : ppart) : list ev :=
    map emit_item (pp_metas p) ++ map emit_item (pp_keys p) ++ map emit_item (pp_times p)
    ++ map emit_item (pp_ctrls p) ++ flat_map emit_note (pp_notes p) ++ map emit_item (pp_progs p).
  Definition zmin_list (d : Z) (l : list Z) : Z := fold_right Z.min d l.
  (* default program 0 for every (track, channel) of the part's controls and notes, at the
     earliest tick of anything emitted so far (all parts, all tracks) *)
  Definition default_programs (sofar : list ev) (p : ppart) : list ev :=
    match pp_progs p with
    | _ :: _ => []
    | [] =>
        let ct := map (fun i => (pi_track i, msg_ch (pi_msg i))) (pp_ctrls p)
                  ++ map (fun n => (pn_track n, pn_ch n)) (pp_notes p) in
        let t0 := zmin_list (match sofar with e :: _ => ev_tick e | [] => 0 end) (map ev_tick sofar) in
        flat_map (fun tr => map (fun ch => (tr, t0, PC ch 0))
                                (sorted_uniq (map snd (filter (fun x => fst x =? tr) ct))))
                 (sorted_uniq (map fst ct))
    end.
  Fixpoint emit_parts (sofar : list ev) (ps : list ppart) : list ev :=
    match ps with
    | [] => sofar
    | p :: r => let s1 := sofar ++ emit_part_body p in emit_parts (s1 ++ default_programs s1 p) r
    end.
  (* delta encoding of a tick-ordered list *)
  Fixpoint deltas (t : Z) (l : list (Z * msg)) : list (Z * msg) :=
    match l with [] => [] | (tk, m) :: r => (tk - t, m) :: deltas tk r end.
  Definition track_msgs (evs : list ev) (tr : Z) : list (Z * msg) :=
    sort_by_tick (map (fun e => (ev_tick e, snd e)) (filter (fun e => ev_track e =? tr) evs)).
  Fixpoint undelta (t : Z) (l : list (Z * msg)) : list (Z * msg) :=
    match l with [] => [] | (d, m) :: r => (t + d, m) :: undelta (t + d) r end.
  (* mido.merge_tracks: absolute times, stable sort by time, deltas, end_of_track appended *)
  Definition merge_tracks (tracks : list (list (Z * msg))) : list (Z * msg) :=
    let strip := filter (fun e => negb (msg_eqb (snd e) EndOfTrack)) in
    deltas 0 (sort_by_tick (flat_map (fun t => strip (undelta 0 t)) tracks)) ++ [(0, EndOfTrack)].
  Definition save (merge : bool) (ps : list ppart) : list (list (Z * msg)) :=
    let evs := emit_parts [] ps in
    let trs := sorted_uniq (map ev_track evs) in
    let tracks := map (fun tr => deltas 0 (track_msgs evs tr)) trs in
    let tracks := match tracks with [] => [] | t0 :: r => ((0, Tempo mpq) :: t0) :: r end in
    if merge && (1 <? Z.of_nat (List.length tracks)) then [merge_tracks tracks] else tracks.
End Save.

(* =====================================================================================
   LOAD *)
(* a loaded note: pitch, velocity, channel, onset tick, offset tick *)
Record lnote := mkLN { ln_pitch : Z; ln_vel : Z; ln_ch : Z; ln_on : Z; ln_off : Z }.
Definition note_hash (ch pitch : Z) : Z := ch * 128 + pitch.

Fixpoint sounding_remove (k : Z) (s : list (Z * (Z * Z))) : list (Z * (Z * Z)) :=
  match s with [] => [] | (k', v) :: r => if k =? k' then sounding_remove k r else (k', v) :: sounding_remove k r end.

(* the message loop of one track on absolute ticks: note-on with velocity > 0 starts (or restarts)
   the key; note-off or zero-velocity note-on ends it, if it sounds; completed notes in order *)
Fixpoint pair_notes (s : list (Z * (Z * Z))) (l : list (Z * msg)) : list lnote :=
  match l with
  | [] => []
  | (t, m) :: r =>
      match m with
      | NoteOn ch p v =>
          if 0 <? v then pair_notes ((note_hash ch p, (t, v)) :: sounding_remove (note_hash ch p) s) r
          else match zlookup (note_hash ch p) s with
               | Some (t0, v0) => mkLN p v0 ch t0 t :: pair_notes (sounding_remove (note_hash ch p) s) r
               | None => pair_notes s r
               end
      | NoteOff ch p _ =>
          match zlookup (note_hash ch p) s with
          | Some (t0, v0) => mkLN p v0 ch t0 t :: pair_notes (sounding_remove (note_hash ch p) s) r
          | None => pair_notes s r
          end
      | _ => pair_notes s r
      end
  end.

(* ids: sort by (onset, pitch, offset, channel) -- the track is constant within a part *)
Definition lnote_leb (a b : lnote) : bool :=
  if ln_on a <? ln_on b then true else if ln_on b <? ln_on a then false else
  if ln_pitch a <? ln_pitch b then true else if ln_pitch b <? ln_pitch a then false else
  if ln_off a <? ln_off b then true else if ln_off b <? ln_off a then false else
  ln_ch a <=? ln_ch b.
Definition sort_notes (l : list lnote) : list lnote := sort_le lnote_leb l.

(* tempo changes: (0, default) followed by every set_tempo of every track in reading order,
   then ordered by tick (stable) and reduced to the actual changes *)
Fixpoint tempo_events (l : list (Z * msg)) : list (Z * Z) :=
  match l with
  | [] => []
  | (t, Tempo m) :: r => (t, m) :: tempo_events r
  | _ :: r => tempo_events r
  end.
Fixpoint drop_repeats (prev : Z) (l : list (Z * Z)) : list (Z * Z) :=
  match l with
  | [] => []
  | (t, m) :: r => if m =? prev then drop_repeats prev r else (t, m) :: drop_repeats m r
  end.
Definition tempo_list (collected : list (Z * Z)) : list (Z * Z) :=
  match sort_by_tick collected with
  | [] => []
  | (t0, m0) :: r => (t0, m0) :: drop_repeats m0 r
  end.

(* adjust_time as coded: the numerator (tick * microseconds) of the time of [tick] *)
Fixpoint adjust_loop (tc : list (Z * Z)) (tick last_tick last_mpq acc : Z) : Z :=
  match tc with
  | [] => acc + (tick - last_tick) * last_mpq
  | (ct, m) :: r =>
      if tick <? ct then acc + (tick - last_tick) * last_mpq
      else adjust_loop r tick ct m (acc + (ct - last_tick) * last_mpq)
  end.
Definition adjust_num (tc : list (Z * Z)) (tick : Z) : Z :=
  match tc with [] => 0 | (_, m0) :: _ => adjust_loop tc tick 0 m0 0 end.
Definition adjust_time (ppq : Z) (tc : list (Z * Z)) (tick : Z) : Q :=
  (inject_Z (adjust_num tc tick) / inject_Z (1000000 * ppq))%Q.

(* what is read from one track (absolute ticks) *)
Record lpart := mkLP { lp_track : Z; lp_notes : list lnote; lp_ctrls : list (Z * msg);
                       lp_progs : list (Z * msg); lp_keys : list (Z * msg); lp_times : list (Z * msg);
                       lp_metas : list (Z * msg) }.
Definition sel (f : msg -> bool) (l : list (Z * msg)) : list (Z * msg) := filter (fun e => f (snd e)) l.
Definition is_cc m := match m with CC _ _ _ => true | _ => false end.
Definition is_pc m := match m with PC _ _ => true | _ => false end.
Definition is_key m := match m with KeySig _ => true | _ => false end.
Definition is_time m := match m with TimeSig _ _ => true | _ => false end.
Definition is_meta m := match m with Meta _ | EndOfTrack => true | _ => false end.
Definition read_track (i : Z) (l : list (Z * msg)) : lpart :=
  mkLP i (sort_notes (pair_notes [] l)) (sel is_cc l) (sel is_pc l) (sel is_key l) (sel is_time l) (sel is_meta l).
Definition nonempty_part (p : lpart) : bool :=
  match lp_notes p, lp_ctrls p, lp_progs p with [], [], [] => false | _, _, _ => true end.

Fixpoint number_from {A} (k : Z) (l : list A) : list (Z * A) :=
  match l with [] => [] | x :: r => (k, x) :: number_from (k + 1) r end.

(* load: the parts (file track kept in lp_track; the notes' track number after
   sanitize_track_numbers is the position of the part) and the tempo list *)
Definition load (default_mpq : Z) (merge : bool) (tracks : list (list (Z * msg))) : list lpart * list (Z * Z) :=
  let abs := if merge then [undelta 0 (merge_tracks tracks)] else map (undelta 0) tracks in
  let parts := filter nonempty_part (map (fun x => read_track (fst x) (snd x)) (number_from 0 abs)) in
  (parts, tempo_list ((0, default_mpq) :: flat_map tempo_events abs)).

(* =====================================================================================
   specification of the tick -> seconds conversion: every tick k lasts tempo(k) microseconds
   per quarter / ppq, tempo(k) being the value of the last tempo change (in tick order) at or
   before k *)
Definition tempo_at (tc : list (Z * Z)) (k : Z) : Z :=
  match tc with
  | [] => 0
  | (_, m0) :: _ => fold_left (fun cur e => if fst e <=? k then snd e else cur) tc m0
  end.
Fixpoint sum_from (f : Z -> Z) (lo : Z) (n : nat) : Z :=
  match n with O => 0 | S n' => f lo + sum_from f (lo + 1) n' end.
Definition seconds_spec (ppq : Z) (tc : list (Z * Z)) (tick : Z) : Q :=
  (inject_Z (sum_from (tempo_at tc) 0 (Z.to_nat tick)) / inject_Z (1000000 * ppq))%Q.

(* =====================================================================================
   checkers for the correspondence (harness/props/c06.py).  They compare what C06 names and no
   more: multisets of timed messages per file track, the notes the message loop pairs, the order
   of the ids; not the order of unrelated messages at one tick, not the tick of the default
   program changes, not the list order of controls. *)
Fixpoint forall2b {A B} (f : A -> B -> bool) (a : list A) (b : list B) : bool :=
  match a, b with
  | [], [] => true
  | x :: a', y :: b' => f x y && forall2b f a' b'
  | _, _ => false
  end.
Definition dm_eqb (a b : Z * msg) : bool := (fst a =? fst b) && msg_eqb (snd a) (snd b).
Definition tracks_eqb (a b : list (list (Z * msg))) : bool := forall2b (forall2b dm_eqb) a b.

(* multisets as lists *)
Section MSet.
  Context {A : Type} (eqb : A -> A -> bool).
  Fixpoint remove1 (x : A) (l : list A) : option (list A) :=
    match l with
    | [] => None
    | y :: r => if eqb x y then Some r else match remove1 x r with Some r' => Some (y :: r') | None => None end
    end.
  (* b minus a; None when a is not contained in b *)
  Fixpoint msub (a b : list A) : option (list A) :=
    match a with
    | [] => Some b
    | x :: r => match remove1 x b with Some b' => msub r b' | None => None end
    end.
  Definition mset_eqb (a b : list A) : bool := match msub a b with Some [] => true | _ => false end.
End MSet.

Definition lnote_eqb (a b : lnote) : bool :=
  (ln_pitch a =? ln_pitch b) && (ln_vel a =? ln_vel b) && (ln_ch a =? ln_ch b) && (ln_on a =? ln_on b) && (ln_off a =? ln_off b).
Fixpoint sorted_by {A} (leb : A -> A -> bool) (l : list A) : bool :=
  match l with
  | x :: ((y :: _) as r) => leb x y && sorted_by leb r
  | _ => true
  end.

(* the messages exactly as save_performance_midi writes them today (order within a tick, tick of
   the default programs): reported as a count only *)
Definition check_save_exact (c : Z * Z * bool * list ppart * list (list (Z * msg))) : bool :=
  let '(ppq, mpq, merge, ps, obs) := c in tracks_eqb (save 0 ppq mpq merge ps) obs.

Definition is_aux (m : msg) : bool := match m with EndOfTrack | Tempo _ => true | _ => false end.
Definition strip_aux (l : list (Z * msg)) : list (Z * msg) := filter (fun e => negb (is_aux (snd e))) l.
(* (track, channel) pairs that may carry a default program 0: those of the controls and notes of a
   part without program changes *)
Definition default_pairs (ps : list ppart) : list (Z * Z) :=
  flat_map (fun p => match pp_progs p with
                     | _ :: _ => []
                     | [] => map (fun i => (pi_track i, msg_ch (pi_msg i))) (pp_ctrls p)
                             ++ map (fun n => (pn_track n, pn_ch n)) (pp_notes p)
                     end) ps.
Definition is_default_pc (allowed : list Z) (e : Z * msg) : bool :=
  match snd e with PC ch 0 => zmem ch allowed | _ => false end.

(* one file track against the model with a given tie rule:
   - its timed messages (set_tempo / end_of_track aside) are, as a multiset, the explicit events of
     the performance on that track plus, possibly, default programs on allowed channels;
   - the message loop pairs the same notes from it as from the model's track *)
(* a note ends with a note-off of any velocity or a zero-velocity note-on: the same thing to C06 *)
Definition norm_msg (m : msg) : msg :=
  match m with
  | NoteOn ch p v => if v <=? 0 then NoteOff ch p 0 else m
  | NoteOff ch p _ => NoteOff ch p 0
  | _ => m
  end.
Definition norm_ev (e : Z * msg) : Z * msg := (fst e, norm_msg (snd e)).
Definition check_save_track (explicit : list (Z * msg)) (allowed : list Z) (model obs : list (Z * msg)) : bool :=
  let oabs := undelta 0 obs in
  match msub dm_eqb (map norm_ev explicit) (map norm_ev (strip_aux oabs)) with
  | Some rest => forallb (is_default_pc allowed) rest
  | None => false
  end
  && mset_eqb lnote_eqb (pair_notes [] (undelta 0 model)) (pair_notes [] oabs).

Definition check_save_rule (rule ppq mpq : Z) (merge : bool) (ps : list ppart) (obs : list (list (Z * msg))) : bool :=
  let model := save rule ppq mpq merge ps in
  let evs := flat_map (emit_part_body rule ppq mpq) ps in
  let trs := sorted_uniq (map ev_track (emit_parts rule ppq mpq [] ps)) in
  let merged := merge && (1 <? Z.of_nat (List.length trs)) in
  let dp := default_pairs ps in
  let strip := map (fun e : ev => (ev_tick e, snd e)) in
  let groups := if merged then [(strip evs, map snd dp)]
                else map (fun tr => (strip (filter (fun e => ev_track e =? tr) evs),
                                     map snd (filter (fun x => fst x =? tr) dp))) trs in
  forall2b (fun g mo => check_save_track (fst g) (snd g) (fst mo) (snd mo))
           groups (combine model obs)
  && (List.length model =? List.length obs)%nat.

(* the tempo of the file: every set_tempo carries mpq and one of them is at tick 0 *)
Definition check_save_tempo (mpq : Z) (obs : list (list (Z * msg))) : bool :=
  let tempi := flat_map (fun t => tempo_events (undelta 0 t)) obs in
  forallb (fun e => snd e =? mpq) tempi && existsb (fun e => fst e =? 0) tempi.

Definition check_save (c : Z * Z * bool * list ppart * list (list (Z * msg))) : bool :=
  let '(ppq, mpq, merge, ps, obs) := c in
  check_save_tempo mpq obs
  && existsb (fun rule => check_save_rule rule ppq mpq merge ps obs) [0; 1; 2; 3].

Definition q_close9 (model impl : Q) : bool :=
  Qle_bool (Qabs.Qabs (impl - model)) (Qabs.Qabs model * (1 # 1000000000) + (1 # 1000000000000))%Q.

(* observed part: notes in id order (pitch, vel, ch, on tick, off tick, on s, off s),
   controls / programs (tick, message, seconds), key, time, meta (tick, message) *)
Definition onote := (Z * Z * Z * Z * Z * Q * Q)%type.
Definition opart := (list onote * list (Z * msg * Q) * list (Z * msg * Q)
                     * list (Z * msg) * list (Z * msg) * list (Z * msg))%type.
Definition onote_l (x : onote) : lnote := let '(pi, ve, ch, t1, t2, _, _) := x in mkLN pi ve ch t1 t2.
Definition check_load (c : Z * Z * bool * list (list (Z * msg)) * list opart) : bool :=
  let '(ppq, dmpq, merge, tracks, obs) := c in
  let '(parts, tc) := load dmpq merge tracks in
  let sec := adjust_time ppq tc in
  let timed_ok := forallb (fun x : Z * msg * Q => q_close9 (sec (fst (fst x))) (snd x)) in
  forall2b (fun (p : lpart) (o : opart) =>
      let '(ons, ocs, ops, oks, ots, oms) := o in
      (* the notes, as a multiset, are those the message loop pairs; their id order is an order
         by (onset, pitch, offset, channel); their seconds are the integral of the tempo map *)
      mset_eqb lnote_eqb (lp_notes p) (map onote_l ons) && sorted_by lnote_leb (map onote_l ons) &&
      forallb (fun x : onote => let '(_, _, _, t1, t2, s1, s2) := x in q_close9 (sec t1) s1 && q_close9 (sec t2) s2) ons &&
      mset_eqb dm_eqb (lp_ctrls p) (map fst ocs) && timed_ok ocs &&
      mset_eqb dm_eqb (lp_progs p) (map fst ops) && timed_ok ops &&
      mset_eqb dm_eqb (lp_keys p) oks && mset_eqb dm_eqb (lp_times p) ots && mset_eqb dm_eqb (lp_metas p) oms)
    parts obs.

(* the notes of a performance as the loader of the saved file has to return them *)
Definition quantised (rule ppq mpq : Z) (n : pnote) : lnote :=
  mkLN (pn_pitch n) (pn_vel n) (pn_ch n) (q rule ppq mpq (pn_on n)) (q rule ppq mpq (pn_off n)).
