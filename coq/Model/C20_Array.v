(* C20 -- executable model, fourth part: array views that copy
   (partitura/utils/music.py: slice_notearray_by_time; the same discipline in compute_pianoroll -- np.column_stack of
   .astype(float) columns -- and ensure_notearray / note_array_from_note_list, which build new arrays).
   Definitions and boolean checkers only (proofs: Proofs/C20_Array.v).

   A numpy array is a VIEW (base buffer, row indices into it).  Indexing with an index ARRAY
   (note_array[active_idx], the code) allocates a new buffer; indexing with a slice (note_array[a:b], the tempting
   shortcut when the active rows are contiguous) returns a view of the same buffer.  slice_notearray_by_time then
   WRITES into its result (clipping of onsets and durations), which is only harmless on a copy.

   rows are [onset; duration; other fields ...]; times are integers (the harness uses the *_div columns). *)
From PV Require Import Lib.Base Model.C20 Model.C20_Mut.
From Coq Require Import ZArith List Bool.
Import ListNotations.
#[local] Open Scope Z_scope.

Notation row := (list Z) (only parsing).
Definition buffers := list (list row).          (* buffer address -> its rows *)

Record ndarr : Type := mk_ndarr { a_buf : nat; a_rows : list nat }.   (* rows a_rows of buffer a_buf *)

Definition buf_get (bs : buffers) (b : nat) : list row := nth b bs [].
Definition row_get (bs : buffers) (b r : nat) : row := nth r (buf_get bs b) [].
Definition rows_of (bs : buffers) (a : ndarr) : list row := map (row_get bs (a_buf a)) (a_rows a).

Definition onset (r : row) : Z := nth 0 r 0.
Definition duration (r : row) : Z := nth 1 r 0.

(* the rows slice_notearray_by_time selects: starting inside [start, end), or starting before start and still
   sounding after it *)
Definition active (start stop : Z) (r : row) : bool :=
  ((start <=? onset r) && (onset r <? stop)) || ((onset r <? start) && (start <? onset r + duration r)).

(* positions (into a_rows) of the active rows, ascending: active_idx after .sort() *)
Fixpoint active_idx (start stop : Z) (rs : list row) (i : nat) : list nat :=
  match rs with
  | [] => []
  | r :: rest => if active start stop r then i :: active_idx start stop rest (S i) else active_idx start stop rest (S i)
  end.

Inductive take_mode : Type :=
| TakeCopy        (* note_array[active_idx]: a new buffer *)
| TakeView.       (* note_array[lo:hi]: the same buffer *)

Definition take (m : take_mode) (bs : buffers) (a : ndarr) (sel : list nat) : buffers * ndarr :=
  match m with
  | TakeCopy => (bs ++ [map (fun i => row_get bs (a_buf a) (nth i (a_rows a) O)) sel],
                 mk_ndarr (length bs) (seq 0 (length sel)))
  | TakeView => (bs, mk_ndarr (a_buf a) (map (fun i => nth i (a_rows a) O) sel))
  end.

(* for every row of the array that needs it: row := w row, written through the view into its buffer *)
Definition write_rows (needs : row -> bool) (w : row -> row) (bs : buffers) (a : ndarr) : buffers :=
  fold_left (fun bs' r => if needs (row_get bs' (a_buf a) r)
                          then lset bs' (a_buf a) (lset (buf_get bs' (a_buf a)) r (w (row_get bs' (a_buf a) r)))
                          else bs')
            (a_rows a) bs.

(* a row is touched by clipping when it starts before the window or ends after it *)
Definition needs_clip (start stop : Z) (r : row) : bool :=
  (onset r <? start) || (stop <? onset r + duration r).

(* slice_notearray_by_time(note_array, start, stop, clip_onset_duration=clip); `w` is what clipping writes into a
   row (any function: the theorems hold for all of them) *)
Definition slice (m : take_mode) (w : row -> row) (bs : buffers) (a : ndarr) (start stop : Z) (clip : bool)
  : buffers * ndarr :=
  let '(bs1, s) := take m bs a (active_idx start stop (rows_of bs a) 0) in
  (if clip then write_rows (needs_clip start stop) w bs1 s else bs1, s).

(* ------------------------------------------------------------------------------------ *)
(* correspondence checker: (rows of the argument before, start, stop, clip, rows of the result, rows of the
   argument afterwards).  Compared: the argument afterwards; the result's rows -- all of them without clipping,
   with clipping their number and the rows clipping does not touch (what clipping writes is not C20's business). *)
Definition row_eqb (a b : row) : bool := list_eqb Z.eqb a b.

Fixpoint rows_agree_unclipped (start stop : Z) (model obs : list row) : bool :=
  match model, obs with
  | [], [] => true
  | m :: ms, o :: os => (needs_clip start stop m || row_eqb m o) && rows_agree_unclipped start stop ms os
  | _, _ => false
  end.

Definition slice_ok (c : list row * Z * Z * bool * list row * list row) : bool :=
  let '(rows, start, stop, clip, res, after) := c in
  let a := mk_ndarr 0 (seq 0 (length rows)) in
  let '(bs', s) := slice TakeCopy (fun r => r) [rows] a start stop clip in
  list_eqb row_eqb (buf_get bs' 0) after &&
  (if clip then rows_agree_unclipped start stop (rows_of bs' s) res else list_eqb row_eqb (rows_of bs' s) res).
