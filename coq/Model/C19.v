(* C19 -- MEI and Humdrum **kern files load to the notes their notation denotes.

   Executable definitions only (proofs: Proofs/C19.v).

   Part 1: NOTATION DENOTATION over Q: abstract document = measures x staves x layers x
           events; duration of a written value, onsets as prefix sums, measure start = max
           end over layers, ties joined, grace notes durationless.
   Part 2: code-side formulas, modelled next to it:
           partitura/io/importmei.py  MeiParser._duration_info (tick duration), _find_ppq (lcm rule)
           partitura/io/importkern.py add_durations, dot_function, SplineParser._process_kern_pitch
                                      (letter repetition -> octave), load_kern (divs_pq), element_parsing (ceil)
   Part 3: boolean checkers used by the correspondence (harness/props/c19.py, ctx.coq_failing). *)
From PV Require Import Lib.Base.
From Coq Require Import QArith Qround Ascii.
#[local] Open Scope Z_scope.

(* ---------------------------------------------------------------- part 1: denotation *)

(* kind: 0 note, 1 chord, 2 rest, 3 measure rest, 4 space;  value: 1 = whole ... 64 = 64th;
   tuplet ratio num:base (num notes in the time of base; 1:1 = none);
   pitches: (step 0..6 = C..B, alter, octave) *)
Record event := Ev {
  e_kind : Z; e_val : Z; e_dots : nat; e_num : Z; e_base : Z;
  e_grace : bool; e_tie : bool; e_pitch : list (Z * Z * Z) }.

Fixpoint qpow (q : Q) (n : nat) : Q :=
  match n with O => 1%Q | S k => (q * qpow q k)%Q end.

Definition dot_factor (d : nat) : Q := (2 - 1 / qpow 2 d)%Q.

(* duration in quarter notes that a written value denotes *)
Definition den_dur (v : Z) (d : nat) (num base : Z) : Q :=
  ((4 / inject_Z v) * dot_factor d * (inject_Z base / inject_Z num))%Q.

(* mlen: length of a full measure of the meter in force (used by measure rests only) *)
Definition ev_dur (mlen : Q) (e : event) : Q :=
  if e_grace e then 0%Q
  else if e_kind e =? 3 then mlen
  else den_dur (e_val e) (e_dots e) (e_num e) (e_base e).

(* onsets of the events of one layer, from the start t of the measure *)
Fixpoint layer_onsets (mlen t : Q) (evs : list event) : list (Q * event) :=
  match evs with
  | [] => []
  | e :: r => (t, e) :: layer_onsets mlen (t + ev_dur mlen e)%Q r
  end.

Fixpoint sum_dur (mlen : Q) (evs : list event) : Q :=
  match evs with [] => 0%Q | e :: r => (ev_dur mlen e + sum_dur mlen r)%Q end.

Definition layer_end (mlen t : Q) (evs : list event) : Q := (t + sum_dur mlen evs)%Q.

Definition qmax (a b : Q) : Q := if Qle_bool a b then b else a.

Record measure := Me { m_len : Q; m_staves : list (list (list event)) }.

(* the next measure starts where the longest layer of any staff ends *)
Definition measure_end (t : Q) (m : measure) : Q :=
  fold_right qmax t (map (layer_end (m_len m) t) (List.concat (m_staves m))).

Fixpoint measure_starts (t : Q) (ms : list measure) : list Q :=
  match ms with [] => [] | m :: r => t :: measure_starts (measure_end t m) r end.

Definition get_layer (m : measure) (s l : nat) : list event :=
  nth l (nth s (m_staves m) []) [].

(* all events of layer l of staff s with their onsets, over the whole document *)
Fixpoint denote_layer (s l : nat) (t : Q) (ms : list measure) : list (Q * Q * event) :=
  match ms with
  | [] => []
  | m :: r =>
      map (fun oe => (fst oe, ev_dur (m_len m) (snd oe), snd oe)) (layer_onsets (m_len m) t (get_layer m s l))
      ++ denote_layer s l (measure_end t m) r
  end.

Definition sounding (e : event) : bool := ((e_kind e =? 0) || (e_kind e =? 1)) && negb (e_grace e).
Definition visible (e : event) : bool := negb (e_kind e =? 4).

(* ties joined: a chain of tied notes counts from the onset of its head for the sum of the
   durations; rows are (onset, duration, tie-to-next flag) of the sounding events of a layer *)
Fixpoint join_ties (cur : option (Q * Q)) (l : list (Q * Q * bool)) : list (Q * Q) :=
  match l with
  | [] => match cur with Some c => [c] | None => [] end
  | (o, d, tie) :: r =>
      let c := match cur with Some (o0, d0) => (o0, (d0 + d)%Q) | None => (o, d) end in
      if tie then join_ties (Some c) r else c :: join_ties None r
  end.

Definition tie_rows (rows : list (Q * Q * event)) : list (Q * Q * bool) :=
  map (fun r => (fst (fst r), snd (fst r), e_tie (snd r))) (filter (fun r => sounding (snd r)) rows).

(* ---------------------------------------------------------------- part 2: code-side formulas *)

(* MEI: _duration_info: (divs*4*normal)/(intsymdur*actual) * (2 - 0.5**dots); accepted when integral *)
Definition mei_duration (divs v : Z) (d : nat) (num base : Z) : Q :=
  ((inject_Z (divs * 4 * base) / inject_Z (v * num)) * (2 - qpow (1 # 2) d))%Q.

Definition q_int (q : Q) : option Z :=
  let r := Qred q in if (Zpos (Qden r) =? 1) then Some (Qnum r) else None.

Definition mei_ticks (divs : Z) (e : event) : option Z :=
  if e_grace e then Some 0 else q_int (mei_duration divs (e_val e) (e_dots e) (e_num e) (e_base e)).

(* MEI: _find_ppq: lcm of  numerator(intsymdur*actual/normal) * 2^dots  over all elements with @dur,
   of 4, and of the beat units of all declared meters; divided by 4 *)
Definition red_num (v num base : Z) : Z := (v * num) / Z.gcd (v * num) base.
Definition ppq_term (e : event) : Z := red_num (e_val e) (e_num e) (e_base e) * 2 ^ Z.of_nat (e_dots e).
Definition lcm_list (l : list Z) : Z := fold_right Z.lcm 1 l.
Definition find_ppq (units : list Z) (evs : list event) : Z :=
  lcm_list (4 :: units ++ map ppq_term evs) / 4.

(* kern: harmonic addition and the dotted reciprocal value *)
Definition add_durations (a b : Q) : Q := (a * b / (a + b))%Q.
Fixpoint dot_function (r : Q) (d : nat) : Q :=
  match d with
  | O => r
  | S k => if Qeq_bool r 0 then 0%Q else add_durations (qpow 2 (S k) * r) (dot_function r k)
  end.

(* reciprocal value of a written value under a tuplet ratio: 8 in 3:2 is 12 *)
Definition kern_recip (v num base : Z) : Q := (inject_Z (v * num) / inject_Z base)%Q.
Definition kern_quarters (recip : Q) (d : nat) : Q := (4 / dot_function recip d)%Q.
(* element_parsing: ceil(quarter_duration * divs) *)
Definition kern_ticks (divs : Z) (recip : Q) (d : nat) : Z := Qceiling (kern_quarters recip d * inject_Z divs).

(* load_kern: scale the reciprocal values by 2, then 3, 4 ... (cumulatively) until all are integers,
   lcm, common multiple with 4 *)
Definition all_int (l : list Q) : bool :=
  forallb (fun q => match q_int q with Some _ => true | None => false end) l.
Fixpoint scale_loop (fuel : nat) (mul : Z) (l : list Q) : option (list Q) :=
  if all_int l then Some l
  else match fuel with
       | O => None
       | S f => scale_loop f (mul + 1) (map (Qmult (inject_Z mul)) l)
       end.
Definition kern_spine_divs (fuel : nat) (rs : list Q) : option Z :=
  l <- scale_loop fuel 2 rs ;;
  Some (Z.lcm (lcm_list (map (fun q => Qnum (Qred q)) l)) 4).

(* kern pitch letters: c = C4, cc = C5, C = C3, CC = C2 ...: the first letter gives step and
   register, its number of occurrences in the token the octave *)
Definition letter_step (c : ascii) : option (Z * bool) :=   (* step, lower-case? *)
  match c with
  | "c"%char => Some (0, true) | "d"%char => Some (1, true) | "e"%char => Some (2, true)
  | "f"%char => Some (3, true) | "g"%char => Some (4, true) | "a"%char => Some (5, true)
  | "b"%char => Some (6, true)
  | "C"%char => Some (0, false) | "D"%char => Some (1, false) | "E"%char => Some (2, false)
  | "F"%char => Some (3, false) | "G"%char => Some (4, false) | "A"%char => Some (5, false)
  | "B"%char => Some (6, false)
  | _ => None
  end.

Fixpoint count_char (c : ascii) (s : string) : Z :=
  match s with
  | EmptyString => 0
  | String c' r => (if Ascii.eqb c c' then 1 else 0) + count_char c r
  end.

Definition kern_pitch (s : string) : option (Z * Z) :=    (* step, octave *)
  match s with
  | EmptyString => None
  | String c _ =>
      match letter_step c with
      | Some (st, true) => Some (st, 4 + count_char c s - 1)
      | Some (st, false) => Some (st, 3 - count_char c s + 1)
      | None => None
      end
  end.

Fixpoint repeat_char (c : ascii) (n : nat) : string :=
  match n with O => EmptyString | S k => String c (repeat_char c k) end.

(* accidental signs # ## - -- n  (code 0 none, 1 '#', 2 '##', 3 '-', 4 '--', 5 'n') *)
Definition kern_alter (code : Z) : option Z :=
  match code with 1 => Some 1 | 2 => Some 2 | 3 => Some (-1) | 4 => Some (-2) | 5 => Some 0 | _ => None end.

(* ---------------------------------------------------------------- part 3: checkers *)

Definition qeqb := Qeq_bool.

(* observed element of a layer: onset, duration (quarters, exact: ticks/divs), tick duration *)
Definition obs_ok (divs : Z) (mei : bool) (mo : Q * Q * event) (ob : Q * Q * Z) : bool :=
  let '(o, d, e) := mo in
  let '(oo, od, ticks) := ob in
  qeqb o oo && qeqb d od &&
  (* the chosen divisions represent the duration exactly, by the code-side formula *)
  qeqb (inject_Z ticks) (d * inject_Z divs) &&
  (if mei then
     (if e_kind e =? 3 then true else zopt_eqb (mei_ticks divs e) (Some ticks))
   else
     (if e_grace e then ticks =? 0
      else ticks =? kern_ticks divs (kern_recip (e_val e) (e_num e) (e_base e)) (e_dots e))).

Fixpoint all2 {A B} (f : A -> B -> bool) (a : list A) (b : list B) : bool :=
  match a, b with
  | [], [] => true
  | x :: a', y :: b' => f x y && all2 f a' b'
  | _, _ => false
  end.

Definition qpair_eqb (a b : Q * Q) : bool := qeqb (fst a) (fst b) && qeqb (snd a) (snd b).

(* one staff: observed layers (each: elements in document order, spaces excluded), observed joined
   (onset, duration) of tie chains per layer, observed divisions *)
Definition check_staff (mei : bool) (ms : list measure) (s : nat)
    (divs : Z) (obs : list (list (Q * Q * Z))) (obsj : list (list (Q * Q))) : bool :=
  all2 (fun l ob =>
          all2 (obs_ok divs mei) (filter (fun r => visible (snd r)) (denote_layer s l 0 ms)) ob)
       (seq 0 (List.length obs)) obs
  && all2 (fun l oj => all2 qpair_eqb (join_ties None (tie_rows (denote_layer s l 0 ms))) oj)
       (seq 0 (List.length obsj)) obsj.

(* whole document: per staff (divs, layers, joined), measure starts per staff *)
Definition check_doc (mei : bool) (ms : list measure)
    (staves : list (Z * list (list (Q * Q * Z)) * list (list (Q * Q)) * list Q)) : bool :=
  all2 (fun s st =>
          let '(divs, obs, obsj, mst) := st in
          check_staff mei ms s divs obs obsj && all2 qeqb (measure_starts 0 ms) mst)
       (seq 0 (List.length staves)) staves.

(* kern token checks: letters -> (step, octave); accidental code -> alter *)
Definition check_kern_pitch (c : string * Z * Z * Z * Z) : bool :=
  let '(letters, acc, step, alter, oct) := c in
  match kern_pitch letters with
  | Some (st, o) => (st =? step) && (o =? oct) && (match kern_alter acc with Some a => a =? alter | None => alter =? 0 end)
  | None => false
  end.

(* ---------------------------------------------------------------- part 4: export -> load *)

(* partitura/io/importmei.py _handle_note / _handle_chord: the staff of a loaded note is its own @staff, else the
   @staff of the chord it is a member of, else n of the enclosing <staff> element (passed down through layer,
   beam, tuplet) *)
Definition imp_staff (note_attr chord_attr : option Z) (enclosing : Z) : Z :=
  match note_attr with
  | Some s => s
  | None => match chord_attr with Some c => c | None => enclosing end
  end.

(* one exported note: (note@staff, chord@staff, n of the enclosing staff) as read from the exported file by the
   harness, the staff load_mei gave it, the staff it has in the part *)
Definition check_xstaff (c : option Z * option Z * Z * Z * Z) : bool :=
  let '(na, ca, en, loaded, orig) := c in (imp_staff na ca en =? loaded) && (loaded =? orig).

(* position from order: both loaders place every element of a layer / spine where the previous one ends *)
Fixpoint onsets_from_durs (t : Q) (ds : list Q) : list Q :=
  match ds with [] => [] | d :: r => t :: onsets_from_durs (t + d)%Q r end.

(* rows (onset, duration) of one voice within a measure starting at t: every element starts where the previous ends *)
Fixpoint gapless (t : Q) (rows : list (Q * Q)) : bool :=
  match rows with
  | [] => true
  | (o, d) :: r => Qeq_bool o t && gapless (o + d)%Q r
  end.

(* one voice of an exported part after reload: (staff index, layer index) of the abstract part, the divisions of the
   reloaded score, the reloaded notes of that voice (onset, duration, ticks; chords once) in time order *)
Definition check_xvoice (mei : bool) (ms : list measure) (v : nat * nat * Z * list (Q * Q * Z)) : bool :=
  let '(s, l, divs, obs) := v in
  all2 (obs_ok divs mei) (filter (fun r => sounding (snd r)) (denote_layer s l 0 ms)) obs.

Definition check_xdoc (mei : bool) (ms : list measure) (vs : list (nat * nat * Z * list (Q * Q * Z))) : bool :=
  forallb (check_xvoice mei ms) vs.

(* ---------------------------------------------------------------- part 5: kern spine splits *)

(* partitura/io/importkern.py parse_by_voice: number of sub-spines ("voices") of one spine, line by line: the cells of
   a line are the first `voices` cells; any "*^" among them adds ONE sub-spine, otherwise "*v" cells remove
   (their number) // 2.  humdrum_width is what the notation means: every "*^" adds one sub-spine, every maximal run of
   n adjacent "*v" merges n sub-spines into one. *)
Inductive ktok := KSplit | KMerge | KOther.
Definition is_split (t : ktok) : bool := match t with KSplit => true | _ => false end.
Definition is_merge (t : ktok) : bool := match t with KMerge => true | _ => false end.
Definition count_tok (f : ktok -> bool) (l : list ktok) : Z := Z.of_nat (List.length (filter f l)).

Definition step_width (w : Z) (line : list ktok) : Z :=
  let cells := firstn (Z.to_nat w) line in
  if existsb is_split cells then w + 1 else w - count_tok is_merge cells / 2.

Fixpoint widths (w : Z) (lines : list (list ktok)) : list Z :=
  match lines with [] => [] | l :: r => w :: widths (step_width w l) r end.

Definition spine_voices (lines : list (list ktok)) : Z := fold_right Z.max 1 (widths 1 lines).

Definition flush (cur : nat) : list nat := match cur with O => [] | S _ => [cur] end.
Fixpoint merge_runs (cur : nat) (l : list ktok) : list nat :=
  match l with
  | [] => flush cur
  | KMerge :: r => merge_runs (S cur) r
  | _ :: r => flush cur ++ merge_runs O r
  end.
Definition runs_loss (runs : list nat) : Z := fold_right (fun n acc => acc + (Z.of_nat n - 1)) 0 runs.
Definition humdrum_width (w : Z) (line : list ktok) : Z :=
  w + count_tok is_split line - runs_loss (merge_runs O line).


Definition ktok_of_Z (z : Z) : ktok := match z with 1 => KSplit | 2 => KMerge | _ => KOther end.

(* one spine: its cells line by line (0 other, 1 "*^", 2 "*v"), the number of voices the loader gave the spine *)
Definition check_spine (c : list (list Z) * Z) : bool :=
  let '(lines, nvoices) := c in spine_voices (map (map ktok_of_Z) lines) =? nvoices.
