(* C09 -- the unfolded part is an independent copy: list-valued reference attributes live in heap cells
   (Model of copy(o) + ReplaceRefMixin.replace_refs as create_variant_part uses them).  Definitions only. *)
From PV Require Import Lib.Base.
From Coq Require Import ZArith List Bool Lia.
Import ListNotations.
#[local] Open Scope Z_scope.

(* an object: its id and, per list-valued reference attribute (slur_starts, slur_stops, tuplet_starts,
   tuplet_stops), the ADDRESS of the Python list holding the referenced object ids *)
Record hobj := mkH { h_id : Z; h_lists : list nat }.
Definition store := list (list Z).
Definition cell (st : store) (a : nat) : list Z := nth a st [].

(* replace_refs on one list attribute of a shallow copy (the copy starts with the address of the original's
   list).  skip_empty = false: the code (a new list is built and assigned whatever the old one holds);
   skip_empty = true: the variant "nothing to replace in an empty list" keeps the shared list. *)
Definition rr_attr (skip_empty : bool) (f : Z -> Z) (st : store) (a : nat) : store * nat :=
  match cell st a with
  | [] => if skip_empty then (st, a) else (st ++ [[]], length st)
  | c => (st ++ [map f c], length st)
  end.

Fixpoint rr_attrs (skip_empty : bool) (f : Z -> Z) (st : store) (l : list nat) : store * list nat :=
  match l with
  | [] => (st, [])
  | a :: r => let '(st1, a1) := rr_attr skip_empty f st a in
              let '(st2, r2) := rr_attrs skip_empty f st1 r in (st2, a1 :: r2)
  end.

(* copy(o); o_copy.replace_refs(o_map) for every object of a visit (f = the object map of the visit on ids) *)
Fixpoint copy_all (skip_empty : bool) (f : Z -> Z) (st : store) (os : list hobj) : store * list hobj :=
  match os with
  | [] => (st, [])
  | o :: r => let '(st1, l1) := rr_attrs skip_empty f st (h_lists o) in
              let '(st2, r2) := copy_all skip_empty f st1 r in (st2, mkH (f (h_id o)) l1 :: r2)
  end.

(* one visit after the other (vs = the objects of the segment visited, per visit), each with its own object map
   (shift of the ids by stride * number of the visit) *)
Fixpoint visits (skip_empty : bool) (stride : Z) (k : nat) (st : store) (vs : list (list hobj)) : store * list (list hobj) :=
  match vs with
  | [] => (st, [])
  | os :: r => let '(st1, c) := copy_all skip_empty (fun i => i + stride * Z.of_nat k) st os in
               let '(st2, r2) := visits skip_empty stride (S k) st1 r in (st2, c :: r2)
  end.

(* the user edits a returned part: something is appended to the list at address a *)
Fixpoint append_at (st : store) (a : nat) (x : Z) : store :=
  match st, a with
  | [], _ => []
  | c :: r, O => (c ++ [x]) :: r
  | c :: r, S a' => c :: append_at r a' x
  end.

Definition addrs (os : list hobj) : list nat := flat_map h_lists os.

(* correspondence: which (object index, attribute index) of the copies hold a list that an original object or
   an earlier copy holds too *)
Definition shared_with (old : list nat) (os : list hobj) : list (list bool) :=
  map (fun o => map (fun a => existsb (Nat.eqb a) old) (h_lists o)) os.

(* correspondence with create_variant_part: the store = the lists of the original's notes (numbered in the order
   the harness meets them), the visits of the path, and the numbers of the lists the copies hold in the returned part
   (a list never seen before gets the next number, in the order visit / object / attribute) *)
Record heapcase := mkHC { hc_store : store; hc_visits : list (list (Z * list Z)); hc_observed : list Z }.
Definition check_heap (c : heapcase) : bool :=
  let vs := map (map (fun o : Z * list Z => mkH (fst o) (map Z.to_nat (snd o)))) (hc_visits c) in
  let '(_, cs) := visits false 100000 1 (hc_store c) vs in
  list_eqb Z.eqb (map Z.of_nat (flat_map addrs cs)) (hc_observed c).

(* |: n :| with a note n that has no slurs / tuplets: two empty lists *)
Definition ex_note := mkH 1 [0%nat; 1%nat].
