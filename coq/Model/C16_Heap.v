(* C16 -- object identity: "returns a NEW score or part ... and the argument itself is not modified".

   partitura/utils/music.py: transpose(score, interval) is
       new_score = copy.deepcopy(score)                      (copy with a memo: an object met twice is copied once)
       parts = new_score.parts | [new_score] | []
       for part in parts: for note in part.notes: _transpose_note_inplace(note, interval)     (assignment to the object)
       return new_score
   The value-level models (Model/C16.v transpose_elems, Model/C16_Hist.v) cannot say "new" or "not modified": there a
   list is a value.  Here objects live in a HEAP: an address is a position of the heap, a cell holds what the harness
   observes of one object (fingerprint of everything but the pitch, pitch or None; Model/C16.v `elem`), a Part object
   is a cell too (pitch None) and stands first in the address list of its part.  A score / part argument is the list of
   its parts, each the list of the addresses of its objects.  deepcopy allocates at the end of the heap and keeps its
   memo; the loop then ASSIGNS to the cells of the copy (hp_upd).  What the code would do wrong is expressible:
   returning the argument (hp_transpose_fast: a unison fast path), copying the containers only (hp_transpose_shallow),
   and -- what the code really does -- moving a note twice when the same Part object is listed twice (the memo
   returns the one copy twice, the loop visits it twice).
   Definitions and boolean checkers only; proofs are in Proofs/C16_heap.v.  All names carry the prefix hp_. *)
From PV Require Import Lib.Base Model.C16.

Definition hp_heap := list elem.
Definition hp_obj := list (list nat).            (* parts -> addresses of the part object and of its elements *)
Definition hp_memo := list (nat * nat).          (* deepcopy's memo: address of the original -> address of the copy *)

Fixpoint hp_lookup (m : hp_memo) (a : nat) : option nat :=
  match m with
  | [] => None
  | (k, v) :: r => if Nat.eqb k a then Some v else hp_lookup r a
  end.

(* deepcopy of the objects at the addresses l, in order; None = an address outside the heap *)
Fixpoint hp_copy_addrs (h : hp_heap) (memo : hp_memo) (l : list nat) : option (hp_heap * hp_memo * list nat) :=
  match l with
  | [] => Some (h, memo, [])
  | a :: r =>
      match hp_lookup memo a with
      | Some a' =>
          match hp_copy_addrs h memo r with
          | Some (h', m', r') => Some (h', m', a' :: r')
          | None => None
          end
      | None =>
          match nth_error h a with
          | None => None
          | Some e =>
              match hp_copy_addrs (h ++ [e]) ((a, List.length h) :: memo) r with
              | Some (h', m', r') => Some (h', m', List.length h :: r')
              | None => None
              end
          end
      end
  end.

Fixpoint hp_copy_parts (h : hp_heap) (memo : hp_memo) (ps : hp_obj) : option (hp_heap * hp_memo * hp_obj) :=
  match ps with
  | [] => Some (h, memo, [])
  | p :: r =>
      match hp_copy_addrs h memo p with
      | None => None
      | Some (h1, m1, p') =>
          match hp_copy_parts h1 m1 r with
          | None => None
          | Some (h2, m2, r') => Some (h2, m2, p' :: r')
          end
      end
  end.

(* assignment to the object at address a *)
Fixpoint hp_upd (h : hp_heap) (a : nat) (e : elem) : hp_heap :=
  match h, a with
  | [], _ => []
  | _ :: r, O => e :: r
  | x :: r, S a' => x :: hp_upd r a' e
  end.

(* the loop: _transpose_note_inplace on the object at every address, in order (an object without a pitch is left
   as it is: transpose_elem); None = unknown interval class or an address outside the heap *)
Fixpoint hp_mutate (n q : Z) (up : bool) (h : hp_heap) (l : list nat) : option hp_heap :=
  match l with
  | [] => Some h
  | a :: r =>
      match nth_error h a with
      | None => None
      | Some e =>
          match transpose_elem n q up e with
          | None => None
          | Some e' => hp_mutate n q up (hp_upd h a e') r
          end
      end
  end.

(* transpose(): heap after the call and the returned object *)
Definition hp_transpose (n q : Z) (up : bool) (h : hp_heap) (arg : hp_obj) : option (hp_heap * hp_obj) :=
  match hp_copy_parts h [] arg with
  | None => None
  | Some (h1, _, res) =>
      match hp_mutate n q up h1 (List.concat res) with
      | None => None
      | Some h2 => Some (h2, res)
      end
  end.

(* what is read through a list of addresses *)
Definition hp_read (h : hp_heap) (l : list nat) : list (option elem) := map (nth_error h) l.

Definition hp_valid (h : hp_heap) (arg : hp_obj) : Prop := forall a, In a (List.concat arg) -> (a < List.length h)%nat.

(* ---- variants the code is NOT (used by the refuted Examples) ---- *)
(* "nothing to do for a perfect unison: hand the argument back" *)
Definition hp_transpose_fast (n q : Z) (up : bool) (h : hp_heap) (arg : hp_obj) : option (hp_heap * hp_obj) :=
  if is_p1 n q then Some (h, arg) else hp_transpose n q up h arg.

(* copy.copy instead of copy.deepcopy: new containers, the same note objects *)
Definition hp_transpose_shallow (n q : Z) (up : bool) (h : hp_heap) (arg : hp_obj) : option (hp_heap * hp_obj) :=
  match hp_mutate n q up h (List.concat arg) with
  | None => None
  | Some h2 => Some (h2, arg)
  end.

(* ---- boolean checker for one observed call ----
   (number, quality index, up, heap before, argument, heap after, result); addresses as the harness numbers the
   objects: the argument's objects part by part in first-met order, then the objects met in the result that are
   not objects of the argument, in first-met order. *)
Definition hp_nat_list_eqb (a b : list nat) : bool := list_eqb Nat.eqb a b.

Definition hp_case := (Z * Z * bool * list elem * list (list nat) * list elem * list (list nat))%type.

Definition hp_case_ok (c : hp_case) : bool :=
  let '(n, q, up, h0, arg, h2, res) := c in
  match hp_transpose n q up h0 arg with
  | None => false
  | Some (h2', res') => list_eqb elem_eqb h2' h2 && list_eqb hp_nat_list_eqb res' res
  end.

(* ---- sequences of calls on one live argument: each call transposes either the ORIGINAL argument again or the
   result of the call before it (the first "latest result" is the argument itself) ---- *)
Inductive hp_call := HpCall (on_result : bool) (n q : Z) (up : bool).

(* state: heap, addresses of the original argument, addresses of the latest result *)
Fixpoint hp_run (calls : list hp_call) (h : hp_heap) (arg cur : hp_obj) : option (hp_heap * hp_obj) :=
  match calls with
  | [] => Some (h, cur)
  | HpCall onres n q up :: r =>
      match hp_transpose n q up h (if onres then cur else arg) with
      | None => None
      | Some (h', res) => hp_run r h' arg res
      end
  end.

(* the same sequence on values (Model/C16.v): element list of the original argument, of the latest result *)
Fixpoint hp_vrun (calls : list hp_call) (varg vcur : list elem) : option (list elem) :=
  match calls with
  | [] => Some vcur
  | HpCall onres n q up :: r =>
      match transpose_elems n q up (if onres then vcur else varg) with
      | None => None
      | Some v => hp_vrun r varg v
      end
  end.

(* a machine that keeps the copy it made for an argument and, asked again, transposes THAT copy in place (not the
   code): the second call on the same argument returns the first result's cells, moved twice *)
Definition hp_run_memo (calls : list hp_call) (h : hp_heap) (arg : hp_obj) : option (hp_heap * hp_obj) :=
  match calls with
  | [HpCall false n q up; HpCall false n' q' up'] =>
      match hp_transpose n q up h arg with
      | None => None
      | Some (h1, r1) => match hp_mutate n' q' up' h1 (List.concat r1) with Some h2 => Some (h2, r1) | None => None end
      end
  | _ => hp_run calls h arg arg
  end.

(* checker for one observed history: heap before, argument, then per call (target, interval, the cells the heap has
   MORE after the call -- the harness has compared the cells that existed before the call one by one and prints them
   once --, result); the heap after the call must be the heap before it followed by exactly those cells *)
Definition hp_obs := (bool * Z * Z * bool * list elem * list (list nat))%type.

Fixpoint hp_hist_go (obs : list hp_obs) (h : hp_heap) (arg cur : hp_obj) : bool :=
  match obs with
  | [] => true
  | (onres, n, q, up, h2, res) :: r =>
      match hp_transpose n q up h (if onres then cur else arg) with
      | None => false
      | Some (h2', res') =>
          list_eqb elem_eqb h2' (h ++ h2) && list_eqb hp_nat_list_eqb res' res && hp_hist_go r h2' arg res'
      end
  end.

Definition hp_hist := (list elem * list (list nat) * list hp_obs)%type.

Definition hp_hist_ok (c : hp_hist) : bool := let '(h0, arg, obs) := c in hp_hist_go obs h0 arg arg.
