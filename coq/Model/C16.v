(* C16 -- transposition.  Executable definitions only (proofs: Proofs/C16*.v).

   Hand model of partitura/utils/music.py (as repaired by the fix: commits D23..D26):
     _transpose_step            -> tr_step
     _transpose_note_inplace    -> tr_note      (returns the new (step, alter, octave))
     transpose_note, step2pc    -> tn_note, step2pc
     transpose (the driver)     -> transpose_elems
   and of partitura/score.py: Interval.semitones / utils/globals.py: INTERVALCLASSES,
   INTERVAL_TO_SEMITONES -> iv_semitones, interval_classes.

   Encodings (fixed by the harness, harness/props/c16.py):
     step   : index in STEPS, C=0 D=1 E=2 F=3 G=4 A=5 B=6
     quality: dd=0 d=1 m=2 M=3 P=4 A=5 AA=6
     direction: true = "up", false = "down"
     a note's pitch is (step index, alter, octave); alter None is read as 0.
   The tie to the source is Gen/C16_*.v (T2: the graphs of the real functions on the
   whole finite domain of the property) and the driver correspondence. *)
From PV Require Import Lib.Base.
#[local] Open Scope Z_scope.

Definition pitch := (Z * Z * Z)%type.      (* step index, alter, octave *)

(* MIDI_BASE_CLASS / BASE_PC by step index *)
Definition base_pc (i : Z) : Z :=
  match i with 0 => 0 | 1 => 2 | 2 => 4 | 3 => 5 | 4 => 7 | 5 => 9 | _ => 11 end.

(* pitch_spelling_to_midi_pitch (C12) on step indices *)
Definition midi (x : pitch) : Z := let '(i, a, o) := x in (o + 1) * 12 + base_pc i + a.

(* ---------- interval classes ---------- *)
Definition q_dd := 0. Definition q_d := 1. Definition q_m := 2. Definition q_M := 3.
Definition q_P := 4. Definition q_A := 5. Definition q_AA := 6.

Definition perfect_number (n : Z) : bool := (n =? 1) || (n =? 4) || (n =? 5).

(* offset of a quality from the major / perfect size *)
Definition qual_offset (n q : Z) : option Z :=
  if perfect_number n then
    match q with 0 => Some (-2) | 1 => Some (-1) | 4 => Some 0 | 5 => Some 1 | 6 => Some 2 | _ => None end
  else
    match q with 0 => Some (-3) | 1 => Some (-2) | 2 => Some (-1) | 3 => Some 0 | 5 => Some 1 | 6 => Some 2 | _ => None end.

(* Interval(n, q).semitones for the classes of INTERVALCLASSES, None otherwise *)
Definition iv_semitones (n q : Z) : option Z :=
  if (1 <=? n) && (n <=? 7) then off <- qual_offset n q ;; Some (base_pc (n - 1) + off) else None.

Definition interval_classes : list (Z * Z) :=
  filter (fun nq => match iv_semitones (fst nq) (snd nq) with Some _ => true | None => false end)
         (list_prod (zrange 1 7) (zrange 0 7)).

Definition is_p1 (n q : Z) : bool := (n =? 1) && (q =? 4).

(* ---------- the arithmetic of one note ---------- *)

(* _transpose_step: STEPS[op(STEPS[step], number - 1)] *)
Definition tr_step (i n : Z) (up : bool) : Z :=
  if up then (i + (n - 1)) mod 7 else (i - (n - 1)) mod 7.

(* _transpose_note_inplace (p1: the interval is "P1", nothing is touched) *)
Definition tr_note (p1 : bool) (n sem : Z) (up : bool) (x : pitch) : pitch :=
  if p1 then x else
  let '(i, a, o) := x in
  let i' := tr_step i n up in
  let o' := if up then (if i' - i <? 0 then o + 1 else o)
            else (if i' - i >? 0 then o - 1 else o) in
  let a' := if up then a + (sem - (base_pc i' - base_pc i) mod 12)
            else a - (sem - (base_pc i - base_pc i') mod 12) in
  (i', a', o').

(* by interval class *)
Definition tr_iv (n q : Z) (up : bool) (x : pitch) : option pitch :=
  sem <- iv_semitones n q ;; Some (tr_note (is_p1 n q) n sem up x).

(* ---------- the diatonic SPECIFICATION ---------- *)
(* diatonic index: seven staff steps per octave *)
Definition diat (i o : Z) : Z := 7 * o + i.

Definition tr_spec (n sem : Z) (up : bool) (x : pitch) : pitch :=
  let '(i, a, o) := x in
  let D := if up then diat i o + (n - 1) else diat i o - (n - 1) in
  let i' := D mod 7 in
  let o' := D / 7 in
  let m' := if up then midi x + sem else midi x - sem in
  (i', m' - midi (i', 0, o'), o').

(* ---------- transpose_note / step2pc (octave free, "up" only) ---------- *)
Definition step2pc (i a : Z) : Z := (base_pc i + a) mod 12.

(* None = an assertion of transpose_note fails *)
Definition tn_note (n sem : Z) (up : bool) (i a : Z) : option (Z * Z) :=
  if up && (-3 <? a) && (a <? 3) && (n <? 8) && (0 <=? i) && (i <=? 6) then
    let i' := (i + n - 1) mod 7 in
    let a' := sem - (step2pc i' a - step2pc i a) mod 12 + a in
    if (-3 <? a') && (a' <? 3) then Some (i', a') else None
  else None.

(* ---------- the driver: transpose(score_or_part, interval) ---------- *)
(* An element of a flattened score: a fingerprint of everything but the pitch, and the
   pitch for Note / GraceNote objects (None for rests, unpitched notes, measures, ...). *)
Definition elem := (Z * option pitch)%type.

Definition transpose_elem (n q : Z) (up : bool) (e : elem) : option elem :=
  match snd e with
  | None => Some e
  | Some x => x' <- tr_iv n q up x ;; Some (fst e, Some x')
  end.

Fixpoint transpose_elems (n q : Z) (up : bool) (l : list elem) : option (list elem) :=
  match l with
  | [] => Some []
  | e :: r => e' <- transpose_elem n q up e ;; r' <- transpose_elems n q up r ;; Some (e' :: r')
  end.

(* ---------- boolean checkers ---------- *)
Definition pitch_eqb (x y : pitch) : bool :=
  let '(i, a, o) := x in let '(i', a', o') := y in Z.eqb i i' && Z.eqb a a' && Z.eqb o o'.

Definition opitch_eqb (x y : option pitch) : bool :=
  match x, y with Some a, Some b => pitch_eqb a b | None, None => true | _, _ => false end.

Definition elem_eqb (x y : elem) : bool := Z.eqb (fst x) (fst y) && opitch_eqb (snd x) (snd y).

Definition oelems_eqb (x : option (list elem)) (y : list elem) : bool :=
  match x with Some l => list_eqb elem_eqb l y | None => false end.

(* one driver case: interval, flattened argument before the call, flattened result,
   flattened argument after the call, flattened result of transposing the result back.
   For the last two, None stands for "identical to the first list" (the harness compared the
   complete fingerprints; the list is not printed twice). *)
Definition driver_case := (Z * Z * bool * list elem * list elem * option (list elem) * option (list elem))%type.

Definition same : option (list elem) := None.

Definition driver_ok (c : driver_case) : bool :=
  let '(n, q, up, before, result, after, back) := c in
  oelems_eqb (transpose_elems n q up before) result &&
  list_eqb elem_eqb before (match after with Some l => l | None => before end) &&
  oelems_eqb (transpose_elems n q (negb up) result) (match back with Some l => l | None => before end).

(* ---------- T2 tables: shape and checkers ---------- *)
Definition row := (pitch * pitch)%type.                 (* input, output of the real function *)
Definition group := (Z * Z * bool * list row)%type.     (* number, quality, up?, rows *)

Definition dom_notes : list pitch :=
  list_prod (list_prod (zrange 0 7) (zrange (-2) 5)) (zrange 0 9).

Definition dom_ivs : list (Z * Z * bool) :=
  flat_map (fun nq => [(fst nq, snd nq, true); (fst nq, snd nq, false)]) interval_classes.

Definition iv_eqb (x y : Z * Z * bool) : bool :=
  let '(n, q, u) := x in let '(n', q', u') := y in Z.eqb n n' && Z.eqb q q' && Bool.eqb u u'.

Definition group_ok (g : group) : bool :=
  let '(n, q, up, rows) := g in
  match iv_semitones n q with
  | None => false
  | Some sem =>
      list_eqb pitch_eqb (map fst rows) dom_notes &&
      forallb (fun r => pitch_eqb (snd r) (tr_note (is_p1 n q) n sem up (fst r))) rows
  end.

Definition tab_ok (t : list group) : bool :=
  list_eqb iv_eqb (map (fun g => let '(n, q, up, _) := g in (n, q, up)) t) dom_ivs && forallb group_ok t.

(* interval table rows: (number, quality, INTERVAL_TO_SEMITONES value, Interval(...).semitones up, down) *)
Definition ivrow_ok (r : Z * Z * Z * option Z * option Z) : bool :=
  let '(n, q, s, su, sd) := r in
  zopt_eqb (iv_semitones n q) (Some s) && zopt_eqb su (Some s) && zopt_eqb sd (Some s).

Definition zz_eqb (x y : Z * Z) : bool := Z.eqb (fst x) (fst y) && Z.eqb (snd x) (snd y).

Definition ivtab_ok (t : list (Z * Z * Z * option Z * option Z)) : bool :=
  list_eqb zz_eqb (map (fun r => let '(n, q, _, _, _) := r in (n, q)) t) interval_classes && forallb ivrow_ok t.

(* transpose_note rows: (number, quality, up, step, alter) -> option (step', alter') *)
Definition tnrow := (Z * Z * bool * Z * Z * option (Z * Z))%type.

Definition ozz_eqb (x y : option (Z * Z)) : bool :=
  match x, y with Some a, Some b => zz_eqb a b | None, None => true | _, _ => false end.

Definition tnrow_ok (r : tnrow) : bool :=
  let '(n, q, up, i, a, res) := r in
  match iv_semitones n q with
  | None => false
  | Some sem => ozz_eqb res (tn_note n sem up i a)
  end.

Definition dom_tn : list (Z * Z * bool * Z * Z) :=
  flat_map (fun nqu => map (fun ia => (fst (fst nqu), snd (fst nqu), snd nqu, fst ia, snd ia))
                           (list_prod (zrange 0 7) (zrange (-2) 5))) dom_ivs.

Definition tnkey_eqb (x y : Z * Z * bool * Z * Z) : bool :=
  let '(n, q, u, i, a) := x in let '(n', q', u', i', a') := y in
  Z.eqb n n' && Z.eqb q q' && Bool.eqb u u' && Z.eqb i i' && Z.eqb a a'.

Definition tntab_ok (t : list tnrow) : bool :=
  list_eqb tnkey_eqb (map (fun r => let '(n, q, u, i, a, _) := r in (n, q, u, i, a)) t) dom_tn &&
  forallb tnrow_ok t.
