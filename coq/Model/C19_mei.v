(* C19 -- the MEI loader's traversal in divisions (ticks): section -> measure -> staff -> layer -> element.

   Executable definitions only (proofs: Proofs/C19_mei.v).  Follows partitura/io/importmei.py:
     MeiParser._handle_section                    scoreDef (meter / key change) | measure, position = max end over the parts
     MeiParser._handle_staff_in_measure           measure of a part: one run per <layer>, end = max over the layers
     MeiParser._handle_layer_in_staff_in_measure  position from the order within the layer
     MeiParser._duration_info                     @dur.ppq if present, 0 for grace notes, else the formula (Model.C19.mei_ticks)
     MeiParser._handle_mrest                      int(ppq * 4 * beats / beat_type) of the LAST time signature of the part
     MeiParser._handle_metersig / _handle_keysig  append a signature at the current position, in every part
   The state carried from measure to measure is the position and, per part, the list of signatures added so far.
   Model.C19 holds what the notation denotes (Q); Proofs/C19_mei.v proves that this traversal computes divs x that. *)
From PV Require Import Lib.Base Model.C19.
From Coq Require Import QArith Qround.
#[local] Open Scope Z_scope.

(* an element of a layer as the loader meets it: the written event and @dur.ppq when the file carries it *)
Record mel := Mel { ml_ev : event; ml_ppq : option Z }.

(* content of a <section> in document order; a measure holds, per part (staffDef order), its layers (layer@n, content) *)
Inductive item :=
| IMeter (c u : Z)
| IKey (f : Z)
| IMeasure (staves : list (list (option Z * list mel))).

(* time signatures of one part: (position, beats, beat_type), in the order they were added *)
Definition tslist := list (Z * Z * Z).

(* _handle_mrest: list(part.iter_all(TimeSignature))[-1]; int(ppq * 4 * beats / beat_type) *)
Definition last_meter (ts : tslist) : Z * Z := let '(_, c, u) := last ts (0, 4, 4) in (c, u).
Definition mrest_ticks (divs : Z) (ts : tslist) : Z := let '(c, u) := last_meter ts in (divs * 4 * c) / u.

(* _handle_mrest | _duration_info *)
Definition el_ticks (divs mr : Z) (m : mel) : option Z :=
  let e := ml_ev m in
  if e_kind e =? 3 then Some mr
  else if e_grace e then Some 0
  else match ml_ppq m with Some p => Some p | None => mei_ticks divs e end.

(* one layer from position pos: (start, end) of every element that is added to the part (a space only moves the
   position), and the position reached; None = the loader's `assert duration == int(duration)` fails *)
Fixpoint layer_run (divs mr pos : Z) (els : list mel) : option (list (Z * Z) * Z) :=
  match els with
  | [] => Some ([], pos)
  | m :: r =>
      d <- el_ticks divs mr m ;;
      res <- layer_run divs mr (pos + d) r ;;
      Some ((if visible (ml_ev m) then [(pos, pos + d)] else []) ++ fst res, snd res)
  end.

(* the layers of one <staff>: voice = layer@n, else 1 + index of the layer within the staff *)
Fixpoint layers_run (divs mr pos : Z) (i : Z) (layers : list (option Z * list mel))
  : option (list (Z * list (Z * Z)) * list Z) :=
  match layers with
  | [] => Some ([], [])
  | (n, els) :: r =>
      lr <- layer_run divs mr pos els ;;
      res <- layers_run divs mr pos (i + 1) r ;;
      Some ((match n with Some v => v | None => i + 1 end, fst lr) :: fst res, snd lr :: snd res)
  end.

(* _handle_staff_in_measure: the measure of the part ends at the maximum end over its layers (at pos if there is none) *)
Definition staff_run (divs pos : Z) (ts : tslist) (layers : list (option Z * list mel))
  : option (list (Z * list (Z * Z)) * Z) :=
  res <- layers_run divs (mrest_ticks divs ts) pos 0 layers ;;
  Some (fst res, fold_right Z.max pos (snd res)).

(* the <staff> elements of a <measure>, one per part (a different number raises) *)
Fixpoint measure_run (divs pos : Z) (tss : list tslist) (staves : list (list (option Z * list mel)))
  : option (list (list (Z * list (Z * Z))) * list Z) :=
  match tss, staves with
  | [], [] => Some ([], [])
  | ts :: tr, st :: sr =>
      s <- staff_run divs pos ts st ;;
      res <- measure_run divs pos tr sr ;;
      Some (fst s :: fst res, snd s :: snd res)
  | _, _ => None
  end.

(* result: the measures (start, per part: per layer: (voice, rows)), the position reached, and per part the time
   signatures (position, beats, beat_type) and key signatures (position, fifths) it holds at the end *)
Record mei_out := MO {
  o_meas : list (Z * list (list (Z * list (Z * Z))));
  o_end : Z;
  o_ts : list tslist;
  o_ks : list (list (Z * Z)) }.

Fixpoint mei_run (divs pos : Z) (tss : list tslist) (kss : list (list (Z * Z))) (items : list item) : option mei_out :=
  match items with
  | [] => Some (MO [] pos tss kss)
  | IMeter c u :: r => mei_run divs pos (map (fun ts => ts ++ [(pos, c, u)]) tss) kss r
  | IKey f :: r => mei_run divs pos tss (map (fun ks => ks ++ [(pos, f)]) kss) r
  | IMeasure staves :: r =>
      res <- measure_run divs pos tss staves ;;
      out <- mei_run divs (fold_right Z.max pos (snd res)) tss kss r ;;
      Some (MO ((pos, fst res) :: o_meas out) (o_end out) (o_ts out) (o_ks out))
  end.

(* parts are created by the staffDefs: the initial meter and key at position 0 *)
Definition mei_load (divs : Z) (init : list (Z * Z * Z)) (items : list item) : option mei_out :=
  mei_run divs 0 (map (fun i => let '(c, u, _) := i in [(0, c, u)]) init)
               (map (fun i => let '(_, _, f) := i in [(0, f)]) init) items.

(* rows of the l-th layer of part s over the whole document *)
Definition part_layer_rows (s l : nat) (meas : list (Z * list (list (Z * list (Z * Z))))) : list (Z * Z) :=
  List.concat (map (fun m => snd (nth l (nth s (snd m) []) (0, []))) meas).

(* rows of voice v of part s *)
Definition part_voice_rows (s : nat) (v : Z) (meas : list (Z * list (list (Z * list (Z * Z))))) : list (Z * Z) :=
  List.concat (map (fun m => List.concat (map (fun l => if fst l =? v then snd l else []) (nth s (snd m) []))) meas).

Definition part_voices (s : nat) (meas : list (Z * list (list (Z * list (Z * Z))))) : list Z :=
  List.concat (map (fun m => map fst (filter (fun l => negb (match snd l with [] => true | _ => false end)) (nth s (snd m) []))) meas).

(* ---- what the notation denotes: the meter in force in a measure is the last one declared before it in the document *)
Fixpoint resolve (c u : Z) (items : list item) : list measure :=
  match items with
  | [] => []
  | IMeter c' u' :: r => resolve c' u' r
  | IKey _ :: r => resolve c u r
  | IMeasure staves :: r =>
      Me (4 * inject_Z c / inject_Z u)%Q (map (fun st => map (fun l => map ml_ev (snd l)) st) staves) :: resolve c u r
  end.

(* ---- checker of the correspondence: one loaded MEI document.
   observed per part: time signatures (tick, beats, beat_type), key signatures (tick, fifths), measure starts (ticks),
   per voice number the (start, end) ticks of its elements in time order (chords once) *)
Definition zpair_eqb (a b : Z * Z) : bool := (fst a =? fst b) && (snd a =? snd b).
Definition ztrip_eqb (a b : Z * Z * Z) : bool :=
  (fst (fst a) =? fst (fst b)) && (snd (fst a) =? snd (fst b)) && (snd a =? snd b).

Definition obs_part := (list (Z * Z * Z) * list (Z * Z) * list Z * list (Z * list (Z * Z)))%type.

(* signature in force at position T: the last one of the list (time order) that starts at or before T *)
Definition ts_at (l : list (Z * Z * Z)) (T : Z) : Z * Z :=
  let '(_, c, u) := last (filter (fun x => fst (fst x) <=? T) l) (0, 0, 0) in (c, u).
Definition ks_at (l : list (Z * Z)) (T : Z) : Z := snd (last (filter (fun x => fst x <=? T) l) (0, 0)).

(* the signatures are compared by what is in force at every measure start (not object by object: a loader that does not
   repeat a signature already in force loads the same music) *)
Definition check_part (out : mei_out) (s : nat) (ob : obs_part) : bool :=
  let '(ts, ks, mst, voices) := ob in
  forallb (fun T => zpair_eqb (ts_at (nth s (o_ts out) []) T) (ts_at ts T) && (ks_at (nth s (o_ks out) []) T =? ks_at ks T)) mst
  && list_eqb Z.eqb (map fst (o_meas out)) mst
  && forallb (fun vr => list_eqb zpair_eqb (part_voice_rows s (fst vr) (o_meas out)) (snd vr)) voices
  && forallb (fun v => existsb (Z.eqb v) (map fst voices)) (part_voices s (o_meas out)).

Definition check_mei_run (c : Z * list (Z * Z * Z) * list item * list obs_part) : bool :=
  let '(divs, init, items, obs) := c in
  match mei_load divs init items with
  | None => false
  | Some out =>
      (List.length obs =? List.length init)%nat
      && forallb (fun so => check_part out (fst so) (snd so)) (combine (seq 0 (List.length obs)) obs)
  end.
