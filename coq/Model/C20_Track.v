(* C20 -- executable model, fifth part: the argument dispatch of save_performance_midi and the track
   renumbering of the Performance constructor
   (partitura/io/exportmidi.py: save_performance_midi; partitura/performance.py: Performance.__init__,
   Performance.sanitize_track_numbers).  Definitions and boolean checkers only (proofs: Proofs/C20_Track.v).

   save_performance_midi accepts a Performance, a PerformedPart or an iterable of PerformedParts and only READS the
   `track` entries of the notes / controls / programs (default 0 when the key is missing).  The tempting way to
   "normalise" a list argument -- Performance(list(arg)).performedparts, the seeded slip e -- is an in-place operation:
   the constructor calls sanitize_track_numbers, which REWRITES the `track` entry of every note, control and program of
   the caller's parts (default -1 when the key is missing) so that no track number occurs in two parts.

   A performed part is the three lists of `track` entries of its notes, controls and programs (None = key absent). *)
From PV Require Import Lib.Base Model.C20 Model.C20_Mut.
From Coq Require Import ZArith List Bool.
Import ListNotations.
#[local] Open Scope Z_scope.

Record ppart : Type := mk_pp { p_notes : list (option Z); p_ctrls : list (option Z); p_progs : list (option Z) }.

Definition events (pp : ppart) : list (option Z) := p_notes pp ++ p_ctrls pp ++ p_progs pp.

(* d.get("track", dflt) *)
Definition get_track (dflt : Z) (t : option Z) : Z := match t with Some x => x | None => dflt end.

(* ---- sanitize_track_numbers ------------------------------------------------------------------------------------ *)
Definition key := (nat * Z)%type.         (* (position of the part in the list, track) *)
Definition key_eqb (a b : key) : bool := (fst a =? fst b)%nat && (snd a =? snd b).
Definition key_ltb (a b : key) : bool := (fst a <? fst b)%nat || ((fst a =? fst b)%nat && (snd a <? snd b)).

(* sorted(set(...)) of tuples: insertion into a strictly ascending list *)
Fixpoint kinsert (k : key) (l : list key) : list key :=
  match l with
  | [] => [k]
  | x :: r => if key_eqb k x then l else if key_ltb k x then k :: l else x :: kinsert k r
  end.
Definition sorted_set (ks : list key) : list key := fold_right kinsert [] ks.

Fixpoint enum_from {A} (i : nat) (l : list A) : list (nat * A) :=
  match l with [] => [] | x :: r => (i, x) :: enum_from (S i) r end.

(* [(i, n.get("track", -1)) for i, pp in enumerate(self) for n in pp.<field>] *)
Definition keys_by (f : ppart -> list (option Z)) (pps : list ppart) : list key :=
  flat_map (fun ip : nat * ppart => map (fun t => (fst ip, get_track (-1) t)) (f (snd ip))) (enum_from 0 pps).

Definition all_keys (pps : list ppart) : list key := keys_by p_notes pps ++ keys_by p_ctrls pps ++ keys_by p_progs pps.
Definition unique_track_ids (pps : list ppart) : list key := sorted_set (all_keys pps).

(* track_map[tid]: the position of tid in unique_track_ids (a key that is not there would be a KeyError; it cannot
   happen -- Proofs/C20_Track.v: key_in_ids) *)
Fixpoint index_of (k : key) (l : list key) : nat :=
  match l with [] => O | x :: r => if key_eqb k x then O else S (index_of k r) end.

(* for d in <field>: d["track"] = track_map[(i, d.get("track", -1))] *)
Definition renumber (ids : list key) (i : nat) (ts : list (option Z)) : list (option Z) :=
  map (fun t => Some (Z.of_nat (index_of (i, get_track (-1) t) ids))) ts.

Definition sanitize_part (ids : list key) (ip : nat * ppart) : ppart :=
  mk_pp (renumber ids (fst ip) (p_notes (snd ip))) (renumber ids (fst ip) (p_ctrls (snd ip)))
        (renumber ids (fst ip) (p_progs (snd ip))).

(* the parts after Performance(pps) (ensure_unique_tracks=True, the default) *)
Definition sanitize (pps : list ppart) : list ppart := map (sanitize_part (unique_track_ids pps)) (enum_from 0 pps).

(* num_tracks *)
Definition num_tracks (pps : list ppart) : nat := length (unique_track_ids pps).

(* the part lists the renumbering leaves alone, stated without running it: every note, control and program has a
   track entry, and every (part, track) pair in use carries as its track number its rank among all pairs in use
   (ordered by part, then track) *)
Definition canonical (pps : list ppart) : Prop :=
  (forall i pp o, nth_error pps i = Some pp -> In o (events pp) -> o <> None) /\
  Forall (fun k : key => snd k = Z.of_nat (index_of k (unique_track_ids pps))) (unique_track_ids pps).

(* ---- save_performance_midi -------------------------------------------------------------------------------------- *)
Inductive pm_arg : Type :=
| APerformance (pps : list ppart)             (* a Performance object holding these parts *)
| APPart (pp : ppart)
| AIterable (elems : list (option ppart))      (* list / tuple; None = an element that is not a PerformedPart *)
| AOther.                                      (* anything else (an int) *)

Inductive pm_mode : Type :=
| Direct               (* the code: performed_parts = list(performance_data) *)
| ThroughPerformance.  (* the slip: performed_parts = Performance(list(performance_data)).performedparts *)

Inductive pm_out : Type :=
| OValueError | OIndexError
| OFile (note_ons : list Z).    (* one entry per MIDI track (ascending track number): its number of note_on messages *)

Fixpoint all_pp (l : list (option ppart)) : option (list ppart) :=
  match l with
  | [] => Some []
  | Some pp :: r => match all_pp r with Some ps => Some (pp :: ps) | None => None end
  | None :: _ => None
  end.

(* the isinstance chain: Some (the parts the export loop walks, the argument afterwards) | None = ValueError *)
Definition dispatch (m : pm_mode) (a : pm_arg) : option (list ppart * pm_arg) :=
  match a with
  | APerformance pps => Some (pps, a)
  | APPart pp => Some ([pp], a)
  | AIterable es =>
      match all_pp es with
      | None => None
      | Some pps => match m with
                    | Direct => Some (pps, a)
                    | ThroughPerformance => let s := sanitize pps in Some (s, AIterable (map Some s))
                    end
      end
  | AOther => None
  end.

(* the tracks one part writes to: track = d.get("track", 0) for controls, notes, programs *)
Definition part_tracks (pp : ppart) : list Z :=
  map (get_track 0) (p_ctrls pp) ++ map (get_track 0) (p_notes pp) ++ map (get_track 0) (p_progs pp).

(* a part without programs gets a default program per (channel, track) of its controls and notes; with neither the
   (0,)-shaped array is indexed [:, 1] -> IndexError *)
Definition part_raises (pp : ppart) : bool :=
  match p_progs pp, p_ctrls pp, p_notes pp with [], [], [] => true | _, _, _ => false end.

Fixpoint zinsert (k : Z) (l : list Z) : list Z :=
  match l with
  | [] => [k]
  | x :: r => if k =? x then l else if k <? x then k :: l else x :: zinsert k r
  end.
Definition zsorted_set (ks : list Z) : list Z := fold_right zinsert [] ks.

Definition count_note_ons (pps : list ppart) (t : Z) : Z :=
  Z.of_nat (length (filter (fun o => get_track 0 o =? t) (flat_map p_notes pps))).

(* for j, i in enumerate(sorted(track_events.keys())): one MidiTrack each *)
Definition export (pps : list ppart) : pm_out :=
  if existsb part_raises pps then OIndexError
  else OFile (map (count_note_ons pps) (zsorted_set (flat_map part_tracks pps))).

(* (outcome, the argument afterwards) *)
Definition save_perf_midi (m : pm_mode) (a : pm_arg) : pm_out * pm_arg :=
  match dispatch m a with
  | None => (OValueError, a)
  | Some (pps, a') => (export pps, a')
  end.

(* the parts an argument consists of (what the fingerprint of the argument covers) *)
Definition arg_parts (a : pm_arg) : list ppart :=
  match a with
  | APerformance pps => pps
  | APPart pp => [pp]
  | AIterable es => flat_map (fun e => match e with Some pp => [pp] | None => [] end) es
  | AOther => []
  end.

(* ---- correspondence checkers ------------------------------------------------------------------------------------ *)
Definition pp_eqb (a b : ppart) : bool :=
  list_eqb zopt_eqb (p_notes a) (p_notes b) && list_eqb zopt_eqb (p_ctrls a) (p_ctrls b) &&
  list_eqb zopt_eqb (p_progs a) (p_progs b).

Definition out_eqb (a b : pm_out) : bool :=
  match a, b with
  | OValueError, OValueError => true
  | OIndexError, OIndexError => true
  | OFile x, OFile y => list_eqb Z.eqb x y
  | _, _ => false
  end.

(* (argument, observed outcome, the parts of the argument afterwards) of one call of save_performance_midi *)
Definition track_ok (c : pm_arg * pm_out * list ppart) : bool :=
  let '(a, out, after) := c in
  out_eqb (fst (save_perf_midi Direct a)) out && list_eqb pp_eqb (arg_parts (snd (save_perf_midi Direct a))) after.

(* (parts given to Performance(...), the same parts afterwards, num_tracks) *)
Definition sanitize_ok (c : list ppart * list ppart * nat) : bool :=
  let '(pps, after, n) := c in list_eqb pp_eqb (sanitize pps) after && Nat.eqb (num_tracks pps) n.
