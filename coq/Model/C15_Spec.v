(* C15 -- specification-side definitions (predicates and reference lists used in the theorem
   statements).  Definitions only; no proofs. *)
From PV Require Import Lib.Base Model.C05 Model.C05_Spec Model.C15.
#[local] Open Scope Z_scope.

(* what identifies an element and must survive the merge unchanged *)
Definition core (e : elem) : Z * kind * Z * option Z * option Z :=
  (e_oid e, e_kind e, e_pitch e, e_tie_prev e, e_tie_next e).

(* the elements merge_parts keeps, tagged with the index of their part: everything of part 0, the
   non-discarded classes of the later parts *)
Fixpoint kept_from (m : mode) (i : nat) (ps : list part) : list (nat * elem) :=
  match ps with
  | [] => []
  | p :: r => map (pair i) (filter (keep m (Nat.eqb i 0)) (fst p)) ++ kept_from m (S i) r
  end.

Definition tag_core (x : nat * elem) := (fst x, core (snd x)).

(* e' (in the merged part) stands at the same musical time as e (in a part with divisions d):
   positions and durations as cross-multiplied integers, start'/L = start/d and end'/L = end/d *)
Definition same_time (L d : Z) (e e' : elem) : Prop :=
  e_start e' * d = e_start e * L /\
  match e_end e', e_end e with
  | Some t', Some t => t' * d = t * L
  | None, None => True
  | _, _ => False
  end.

Definition generic (e : elem) : Prop := is_generic (e_kind e) = true.
Definition staffed (e : elem) : Prop := is_staffed (e_kind e) = true.

(* hypotheses of the quantifier *)
Definition divs_pos (ps : list part) : Prop := Forall (fun d => 0 < d) (divs_of ps).
(* notes carry a voice; voice numbers start from 1 *)
Definition voices_ok (es : list elem) : Prop :=
  forall e, In e es -> generic e -> exists v, e_voice e = Some v /\ 1 <= v.
(* stated staff numbers start from 1 (a missing staff counts as staff 1) *)
Definition staves_ok (es : list elem) : Prop :=
  forall e, In e es -> staffed e -> 1 <= staff1 e.
(* "auto": the numbering scheme gives each staff four voice numbers *)
Definition four_per_staff (es : list elem) : Prop := nvoices es <= 4 * nstaves es.

(* e' of the output stems from e of part j *)
Definition origin (ps : list part) (j : nat) (e e' : elem) : Prop :=
  exists es d, nth_error ps j = Some (es, d) /\ In e es /\ core e' = core e.

(* well-formedness needed to talk about tie chains across the merged part: object identities are
   unique over all parts, ties are well-formed inside each part *)
Definition all_notes (ps : list part) : list note := flat_map (fun p => notes_of (fst p)) ps.
Definition ties_ok (ps : list part) : Prop :=
  NoDup (map n_oid (all_notes ps)) /\ Forall (fun p => wf_ties (notes_of (fst p))) ps.

(* row r of the merged part's note array (with staff) stands for the Note / GraceNote element e of
   the merged part: onset, pitch, staff (0 when missing) and voice columns are the element's *)
Definition row_of_elem (r : row) (e : elem) : Prop :=
  (e_kind e = KNote \/ e_kind e = KGrace) /\ r_onset r = e_start e /\ r_pitch r = e_pitch e /\
  r_staff r = oz (e_staff e) 0 /\ (forall v, e_voice e = Some v -> v <> -1 -> r_voice r = v).
