(* C17 -- the path of a pitch through the MIDI score importer:
   partitura/io/importmidi.py: load_score_midi -- the notes collected per (track, channel), the keys sorted,
   assign_group_part_voice (six modes) giving every key a part, part_voice_list repeated per note, note_list =
   the concatenation, ONE call of estimate_spelling on the whole piece, the spellings paired with the notes BY
   POSITION (zip), create_part: score.Note(step, octave, alter) whose midi_pitch is computed by partitura
   (Gen/C17_MidiTab.v).  Not modelled: time signatures, measures, ties (tie_notes splits a note, the pieces keep
   the pitch -- checked by the direct oracle), tuplets, voices.  Definitions only. *)
From PV Require Import Lib.Base Gen.C17_PS13 Gen.C17_MidiTab Model.C17_Spelling.
#[local] Open Scope Z_scope.

Definition trch := (Z * Z)%type.                     (* (track, channel) *)
Definition mgroup := (trch * list row)%type.         (* notes (onset, pitch, duration) of one key *)

(* dict.setdefault on an insertion-ordered association list: (value now stored under k, dict) *)
Fixpoint sd_get {K} (eqb : K -> K -> bool) (k : K) (d : list (K * Z)) : option Z :=
  match d with [] => None | (k', v) :: r => if eqb k' k then Some v else sd_get eqb k r end.
Definition setdefault {K} (eqb : K -> K -> bool) (k : K) (v : Z) (d : list (K * Z)) : Z * list (K * Z) :=
  match sd_get eqb k d with Some x => (x, d) | None => (v, d ++ [(k, v)]) end.

Definition trch_eqb (a b : trch) : bool := (fst a =? fst b) && (snd a =? snd b).
Definition zlen {A} (l : list A) : Z := Z.of_nat (List.length l).

(* assign_group_part_voice(mode, keys): the part number of every key, in the order of the keys.
   st = (part_helper keyed by track, part_helper / part keyed by (track, channel)) *)
Fixpoint assign_parts_from (mode : Z) (ph_tr : list (Z * Z)) (ph_key : list (trch * Z)) (keys : list trch)
  : list (option Z) :=
  match keys with
  | [] => []
  | k :: rest =>
      if (mode =? 0) || (mode =? 3) then
        let '(p, ph') := setdefault Z.eqb (fst k) (zlen ph_tr) ph_tr in
        Some p :: assign_parts_from mode ph' ph_key rest
      else if (mode =? 1) || (mode =? 5) then
        let '(p, ph') := setdefault trch_eqb k (zlen ph_key) ph_key in
        Some p :: assign_parts_from mode ph_tr ph' rest
      else if (mode =? 2) || (mode =? 4) then
        Some 0 :: assign_parts_from mode ph_tr ph_key rest
      else None :: assign_parts_from mode ph_tr ph_key rest      (* part.get(tr_ch) of an empty dict *)
  end.
Definition assign_parts (mode : Z) (keys : list trch) : list (option Z) := assign_parts_from mode [] [] keys.

(* the spellings in the order of the INPUT rows (step[re_idx], ...): the table entry of a row is looked up and
   used once (equal rows are interchangeable) *)
Fixpoint take_first (r : row) (tab : list (row * spelling)) : option (spelling * list (row * spelling)) :=
  match tab with
  | [] => None
  | (r', sp) :: rest =>
      if row_eqb r r' then Some (sp, rest)
      else match take_first r rest with
           | Some (s, rest') => Some (s, (r', sp) :: rest')
           | None => None
           end
  end.

Fixpoint assign_in_order (tab : list (row * spelling)) (rows : list row) : option (list spelling) :=
  match rows with
  | [] => Some []
  | r :: rest =>
      match take_first r tab with
      | None => None
      | Some (sp, tab') => match assign_in_order tab' rest with
                           | Some l => Some (sp :: l)
                           | None => None
                           end
      end
  end.

(* estimate_spelling(note_array): one spelling per row, in the order of the rows *)
Definition spelling_global (rows : list row) : option (list spelling) :=
  assign_in_order (spell_default rows) rows.

(* what create_part makes of a note and its spelling: (onset, Note(step, octave, alter).midi_pitch) *)
Definition imported_note (r : row) (sp : spelling) : Z * option Z :=
  (r_onset r, note_midi_pitch (step_name (sp_step sp)) (sp_alter sp) (sp_octave sp)).

(* load_score_midi: (part, imported note) for every note of the file, in the order of note_list *)
Definition import_notes (mode : Z) (gs : list mgroup) : option (list (option Z * (Z * option Z))) :=
  let notes := flat_map (fun g => snd g) gs in
  let parts := flat_map (fun pg => repeat (fst pg) (List.length (snd (snd pg))))
                        (combine (assign_parts mode (map (fun g => fst g) gs)) gs) in
  match spelling_global notes with
  | None => None
  | Some sps => Some (map (fun x => (fst x, imported_note (fst (snd x)) (snd (snd x))))
                          (combine parts (combine notes sps)))
  end.

(* ---- the observable: the pitches sounding at the 1st, 2nd, ... distinct onset *)
Fixpoint zins (x : Z) (l : list Z) : list Z :=
  match l with [] => [x] | y :: r => if x <=? y then x :: l else y :: zins x r end.

Fixpoint rank_add (o p : Z) (l : list (Z * list Z)) : list (Z * list Z) :=
  match l with
  | [] => [(o, [p])]
  | (o', ps) :: r => if o <? o' then (o, [p]) :: l
                     else if o =? o' then (o', zins p ps) :: r
                     else (o', ps) :: rank_add o p r
  end.

Definition by_onset_rank (l : list (Z * Z)) : list (list Z) :=
  map (fun x => snd x) (fold_right (fun x acc => rank_add (fst x) (snd x) acc) [] l).

Fixpoint all_some_pitch (l : list (Z * option Z)) : option (list (Z * Z)) :=
  match l with
  | [] => Some []
  | (o, Some p) :: r => match all_some_pitch r with Some r' => Some ((o, p) :: r') | None => None end
  | (_, None) :: _ => None
  end.

(* ---- checker used by the correspondence: (mode, groups, pitches of the imported score by onset rank) *)
Definition midi_check (c : Z * list mgroup * list (list Z)) : bool :=
  let '(mode, gs, obs) := c in
  match import_notes mode gs with
  | None => false
  | Some out =>
      forallb (fun x => match fst x with Some _ => true | None => false end) out &&
      match all_some_pitch (map (fun x => snd x) out) with
      | Some ps => list_eqb (list_eqb Z.eqb) (by_onset_rank ps) obs
      | None => false
      end
  end.
