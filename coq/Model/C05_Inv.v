(* C05 -- inverse direction: executable model of
     partitura/musicanalysis/note_array_to_score.py: note_array_to_score
       * the lexsort of the input rows by (onset, pitch, duration)                        [inv_sort]
       * the divisions inferred for an array with beat AND division columns
         (int(round(duration_div / duration_beat [/ (4 / ts_beat_type)])) of the first
         row with a non-zero beat duration)                                              [infer_divs]
       * the length of the pickup measure (max onset_div of the rows with a negative
         onset_beat + the distance of the last negative beat from beat 0, in divisions)  [anacrusis_divs]
       * the time signatures read from the ts_beats / ts_beat_type columns               [ts_segments]
     create_part: one Note per row (a GraceNote when duration_div = 0) from onset_div to
       onset_div + duration_div, the measure (0, anacrusis_divs)
     partitura/score.py: tie_notes / split_note: a note is cut into a chain of tied pieces [pieces];
       WHERE it is cut (measure boundaries, notatable durations) is an input of the model
       (observed on the rebuilt part): the theorems hold for any list of cut points
   and of the composition with the forward direction (Model/C05.note_array of the rebuilt notes).
   Definitions and boolean checkers only; proofs are in Proofs/C05_inv.v. *)
From PV Require Import Lib.Base Lib.Round Model.C05.
From Coq Require Import QArith Qabs Qround.
#[local] Open Scope Z_scope.

(* one row of the array handed to note_array_to_score (division columns present or already
   computed by create_divs_from_beats / beat columns present or computed by create_beats_from_divs) *)
Record irow := mkIRow {
  i_on : Z; i_dur : Z;              (* onset_div, duration_div *)
  i_onb : Q; i_durb : Q;            (* onset_beat, duration_beat: exact value of the float *)
  i_pitch : Z;                      (* pitch column *)
  i_ts : option (Z * Z);            (* ts_beats, ts_beat_type columns (all rows or none) *)
  i_id : string;                    (* id of the note created for the row *)
  i_step : string; i_alter : option Z; i_octave : Z;   (* spelling chosen for the pitch (estimate_spelling) *)
  i_voice : option Z;
  i_cuts : list Z                   (* where tie_notes / split_note cut the note *)
}.

(* ------------------------------------------------------------------ lexsort *)

(* np.lexsort((duration, pitch, onset)): by onset, then pitch, then duration; stable *)
Definition key_leb (a b : irow) : bool :=
  (i_on a <? i_on b) ||
  ((i_on a =? i_on b) && ((i_pitch a <? i_pitch b) ||
                          ((i_pitch a =? i_pitch b) && (i_dur a <=? i_dur b)))).

Fixpoint iinsert (x : irow) (l : list irow) : list irow :=
  match l with
  | [] => [x]
  | y :: r => if key_leb x y then x :: l else y :: iinsert x r
  end.

Fixpoint inv_sort (l : list irow) : list irow :=
  match l with
  | [] => []
  | x :: r => iinsert x (inv_sort r)
  end.

(* ------------------------------------------------------------------ divisions of an array with both kinds of columns *)

Definition q4 (bt : Z) : Q := (inject_Z 4 / inject_Z bt)%Q.        (* 4 / ts_beat_type *)

(* "for idx, dur in enumerate(duration_beat): if dur != 0: break": the first row with a non-zero
   beat duration, the last row when there is none *)
Fixpoint first_nonzero (l : list irow) : option irow :=
  match l with
  | [] => None
  | x :: r => match r with
              | [] => Some x
              | _ => if Qeq_bool (i_durb x) 0%Q then first_nonzero r else Some x
              end
  end.

(* the quotient that is rounded *)
Definition divs_quotient (r : irow) : Q :=
  let q := (inject_Z (i_dur r) / i_durb r)%Q in
  match i_ts r with
  | Some (_, bt) => (q / q4 bt)%Q
  | None => q
  end.

(* None: no row, or division by a zero duration (numpy: nan -> ValueError) *)
Definition infer_divs (l : list irow) : option Z :=
  match first_nonzero l with
  | None => None
  | Some r => if Qeq_bool (i_durb r) 0%Q then None else Some (round_half_even (divs_quotient r))
  end.

(* ------------------------------------------------------------------ pickup measure *)

Definition qltb (a b : Q) : bool := negb (Qle_bool b a).
Definition qmax2 (a b : Q) : Q := if Qle_bool a b then b else a.

Fixpoint zmax_list (d : Z) (l : list Z) : Z :=
  match l with [] => d | x :: r => Z.max x (zmax_list d r) end.
Fixpoint qmax_list (d : Q) (l : list Q) : Q :=
  match l with [] => d | x :: r => qmax2 x (qmax_list d r) end.

(* ts_beat_type of a row; 4 when the array has no time signature columns *)
Definition bt_of (r : irow) : Z := match i_ts r with Some (_, bt) => bt | None => 4 end.

Definition neg_rows (l : list irow) : list irow := filter (fun r => qltb (i_onb r) 0%Q) l.

(* the number that is rounded: np.max(onset_div) + (0 - np.max(onset_beat)) * divs * (4 / np.max(beat_type))
   over the rows with a negative onset_beat *)
Definition anacrusis_value (r0 : irow) (rest : list irow) (divs : Z) : Q :=
  let mb := qmax_list (i_onb r0) (map i_onb rest) in
  let md := zmax_list (i_on r0) (map i_on rest) in
  let bt := zmax_list (bt_of r0) (map bt_of rest) in
  (inject_Z md + (0 - mb) * inject_Z divs * q4 bt)%Q.

Definition anacrusis_divs (l : list irow) (divs : Z) : Z :=
  match neg_rows l with
  | [] => 0
  | r0 :: rest => round_half_even (anacrusis_value r0 rest divs)
  end.

(* ------------------------------------------------------------------ time signatures from the columns *)

Fixpoint ts_changes (cur : Z * Z) (l : list irow) : list (Z * (Z * Z)) :=
  match l with
  | [] => []
  | r :: rest =>
    match i_ts r with
    | Some ts => if z2_eqb ts cur then ts_changes cur rest else (i_on r, ts) :: ts_changes ts rest
    | None => ts_changes cur rest
    end
  end.

(* rows in sorted order; the first signature is moved to time 0 *)
Definition ts_segments (l : list irow) : list (Z * (Z * Z)) :=
  match l with
  | [] => []
  | r0 :: _ => match i_ts r0 with
               | Some ts => (0, ts) :: ts_changes ts l
               | None => []
               end
  end.

(* the signature in force at time t: the last segment that starts at or before t *)
Fixpoint ts_at (segs : list (Z * (Z * Z))) (cur : Z * Z) (t : Z) : Z * Z :=
  match segs with
  | [] => cur
  | (s, ts) :: rest => if s <=? t then ts_at rest ts t else cur
  end.

(* ------------------------------------------------------------------ create_part + tie_notes *)

Definition mk_piece (r : irow) (oid s e : Z) (first last : bool) : note :=
  mkNote oid (i_id r) s e
         (if first then None else Some (oid - 1)) (if last then None else Some (oid + 1))
         (i_step r) (i_alter r) (i_octave r) (i_voice r) None
         (if i_dur r =? 0 then Some "appoggiatura"%string else None) false.

(* the chain of tied pieces of one note cut at cs *)
Fixpoint pieces (r : irow) (oid : Z) (first : bool) (s e : Z) (cs : list Z) : list note :=
  match cs with
  | [] => [mk_piece r oid s e first true]
  | c :: rest => mk_piece r oid s c first false :: pieces r (oid + 1) false c e rest
  end.

Definition row_pieces (r : irow) (oid : Z) : list note :=
  pieces r oid true (i_on r) (i_on r + i_dur r) (i_cuts r).

Fixpoint rebuild (oid : Z) (l : list irow) : list note :=
  match l with
  | [] => []
  | r :: rest => row_pieces r oid ++ rebuild (oid + 1 + Z.of_nat (List.length (i_cuts r))) rest
  end.

(* the time maps of the rebuilt part when it has ONE time signature with beat type bt and the
   pickup measure (0, A): quarter = t / divs, beat = (t - A) / (divs * 4 / bt) *)
Definition beat_unit (divs bt : Z) : Q := (inject_Z divs * q4 bt)%Q.

Definition rebuilt_maps (divs A bt : Z) : maps :=
  mkMaps (fun t => (inject_Z t / inject_Z divs)%Q)
         (fun t => (inject_Z (t - A) / beat_unit divs bt)%Q)
         (fun _ => (0, 0)) (fun _ => (0, 0, 0)) (fun _ => (0, 0)).

(* what the row says about the spelled pitch *)
Definition i_midi (r : irow) : Z := (i_octave r + 1) * 12 + base_pc (i_step r) + oz (i_alter r) 0.

(* array -> score -> array *)
Definition roundtrip (l : list irow) (divs A bt : Z) : option (list row) :=
  note_array (rebuild 0 (inv_sort l)) (rebuilt_maps divs A bt) divs.

(* ------------------------------------------------------------------ checker (correspondence) *)

(* multiset equality of lists of integer tuples *)
Fixpoint zl_remove (x : list Z) (l : list (list Z)) : option (list (list Z)) :=
  match l with
  | [] => None
  | y :: r => if list_eqb Z.eqb x y then Some r
              else match zl_remove x r with Some r' => Some (y :: r') | None => None end
  end.
Fixpoint zl_multiset_eqb (a b : list (list Z)) : bool :=
  match a with
  | [] => match b with [] => true | _ => false end
  | x :: r => match zl_remove x b with Some b' => zl_multiset_eqb r b' | None => false end
  end.

Definition b2z (b : bool) : Z := if b then 1 else 0.
(* the pitch of a piece counts only for the first one (the row shows the chain head) *)
Definition piece_sig (n : note) : list Z :=
  [n_start n; n_end n; (if is_head n then midi_pitch n else 0); b2z (is_head n);
   b2z (match n_tie_next n with None => true | Some _ => false end)].

(* observed: the divisions of the rebuilt part, its first measure, its notes (start, end, pitch of a first
   piece, has no tie_prev, has no tie_next), the rows of its note array (onset_div, duration_div, pitch,
   onset_beat, duration_beat) and their ts_beats / ts_beat_type columns *)
Definition rebuild_case_ok
           (l : list irow) (given : option Z)          (* rows as handed over; divs argument *)
           (has_meas : bool)                           (* time signature known: measures are created *)
           (bt : Z)                                    (* beat type of the single time signature *)
           (cmp_ts cmp_beats : bool)
           (obs_divs : Z) (obs_first_measure : option (Z * Z)) (obs_ts : list (Z * (Z * Z)))   (* onset_div, (ts_beats, ts_beat_type) per row *)
           (obs_notes : list (list Z))
           (obs_rows : list (Z * Z * Z * (Q * Q))) : bool :=
  let s := inv_sort l in
  match (match given with Some d => Some d | None => infer_divs s end) with
  | None => false
  | Some d =>
    let A := anacrusis_divs s d in
    Z.eqb d obs_divs &&
    (if has_meas && (0 <? A)
     then match obs_first_measure with Some (ms, me) => Z.eqb ms 0 && Z.eqb me A | None => false end
     else true) &&
    (if cmp_ts then forallb (fun x => z2_eqb (ts_at (ts_segments s) (0, 0) (fst x)) (snd x)) obs_ts else true) &&
    zl_multiset_eqb (map piece_sig (rebuild 0 s)) obs_notes &&
    match roundtrip l d A bt with
    | None => false
    | Some rows =>
      list_eqb z2_eqb (map (fun r => (r_onset r, r_pitch r)) rows)
                      (map (fun x => match x with (on, du, p, _) => (on, p) end) obs_rows) &&
      zl_multiset_eqb (map (fun r => [r_onset r; r_dur r; r_pitch r]) rows)
                      (map (fun x => match x with (on, du, p, _) => [on; du; p] end) obs_rows) &&
      (if cmp_beats
       then forallb (fun x => match x with (on, du, p, (ob, db)) =>
              existsb (fun r => Z.eqb (r_onset r) on && Z.eqb (r_dur r) du && Z.eqb (r_pitch r) p &&
                                Qle_bool (Qabs (ob - r_onb r)%Q) (1 # 10000)%Q &&
                                Qle_bool (Qabs (db - r_durb r)%Q) (1 # 10000)%Q) rows end) obs_rows
       else true)
    end
  end.

(* ------------------------------------------------------------------ predicates used in the statements *)

(* the row lies on the metrical grid "beat 0 is at division P, one beat lasts u divisions", its beat
   column off by less than half a division (every float32 / float64 rounding of an exact position is) *)
Definition on_grid (u : Q) (P : Z) (r : irow) : Prop :=
  (Qabs (i_onb r * u - inject_Z (i_on r - P)) < 1 # 2)%Q.

Definition i_core (r : irow) : string * Z * Z * Z := (i_id r, i_on r, i_dur r, i_midi r).

(* example: 6/8 at 6 divisions per quarter (3 per beat), pickup of 5 divisions that begins with a rest
   of 2 divisions; a note of 9 divisions cut at the barline *)
Definition ex_irow (on du : Z) (onb durb : Q) (p : Z) (id step : string) (cuts : list Z) : irow :=
  mkIRow on du onb durb p (Some (6, 8)) id step None 4 (Some 1) cuts.

Definition ex_inv : list irow :=
  [ ex_irow 5 9 0 3 64 "b" "E" [];                           (* handed over unsorted *)
    ex_irow 2 3 (-1) 1 60 "a" "C" [];
    ex_irow 14 12 3 4 62 "c" "D" [23] ].
