(* C01 -- the argument glue of Part.iter_all (partitura/score.py), as coded:

       if mode not in ("starting", "ending"): warnings.warn(...); mode = "starting"
       if start is None: start_idx = 0
       else:
           if not isinstance(start, TimePoint): start = TimePoint(start)
           start_idx = np.searchsorted(self._points, start)
       (the same for end, default len(self._points))
       if cls is None: cls = object; include_subclasses = True
       for tp in self._points[start_idx:end_idx]: yield from tp.iter_ending / iter_starting (cls, include_subclasses)

   A bound is None, a number (wrapped into a free-standing TimePoint) or a TimePoint object (the part's own, a
   caller-kept or a free one: only its time is compared, Model/C01_Idx.v tp_compare); the test that decides whether a
   bound was given is a parameter so that the truthiness test (`if end:`: the number 0 counts as omitted, a TimePoint
   object is always true) is expressible.  Built on the index-level pieces of Model/C01_Idx.v (idx_of = the binary
   search, pyslice) and on `tagged` of Model/C01.v.  Definitions only; Proofs/C01_args.v. *)
From PV Require Import Lib.Base Model.C01 Model.C01_Idx.
From Coq Require Import ZArith List Bool.
Import ListNotations.
Open Scope Z_scope.

Inductive bound := BNone | BNum (z : Z) | BTp (z : Z).
Inductive mode_arg := MStarting | MEnding | MOther.     (* MOther: any other value (warns, "starting" is used) *)

Definition b_is_not_none (b : bound) : bool := match b with BNone => false | _ => true end.
Definition b_truthy (b : bound) : bool := match b with BNone => false | BNum z => negb (z =? 0) | BTp _ => true end.
(* the key the search compares: TimePoint(z).t / tp.t *)
Definition b_time (b : bound) : Z := match b with BNone => 0 | BNum z => z | BTp z => z end.
Definition b_opt (b : bound) : option Z := match b with BNone => None | BNum z => Some z | BTp z => Some z end.
Definition mode_side (m : mode_arg) : side := match m with MEnding => SEnd | MStarting => SStart | MOther => SStart end.
(* cls None: object with include_subclasses forced to True *)
Definition sub_eff (c : option Z) (sub : bool) : bool := match c with None => true | Some _ => sub end.

Definition iter_all_args_gen (given : bound -> bool) (p : part) (c : option Z) (a b : bound) (sub : bool) (m : mode_arg)
  : list (Z * obj) :=
  let mode := mode_side m in
  let si := if given a then idx_of (points p) (Some (b_time a)) else O in
  let ei := if given b then idx_of (points p) (Some (b_time b)) else List.length (points p) in
  flat_map (tagged mode c (sub_eff c sub)) (pyslice si ei (points p)).

Definition iter_all_args := iter_all_args_gen b_is_not_none.      (* the code *)
Definition iter_all_args_truthy := iter_all_args_gen b_truthy.    (* `if start:` / `if end:` *)

(* ---------------------------------------------------------------- checker for the correspondence *)
Inductive argq := AQ (c : option Z) (a b : bound) (sub : bool) (m : mode_arg) (res : list (Z * obj)).

Definition argq_ok (p : part) (q : argq) : bool :=
  match q with
  | AQ c a b sub m res => let l := iter_all_args p c a b sub m in times_eqb l res && tobjs_eqb (sort_tobjs l) res
  end.

(* (initial quarter duration, the operations executed on the real Part, the calls with the lists they returned) *)
Definition args_case_ok (c : Z * list op * list argq) : bool :=
  let '(q0, ops, qs) := c in
  let p := run (init q0) ops in
  forallb (argq_ok p) qs.
