(* C17 -- the entry point of key estimation:
   partitura/musicanalysis/key_identification.py: estimate_key (default key_profiles = "krumhansl_kessler"; a name
   outside VALID_KEY_PROFILES raises ValueError) and the dispatch of the name to one of the three profile
   matrices in ks_kid (a name ks_kid does not know raises ValueError).  VALID_KEY_PROFILES is reflected from
   partitura/utils/globals.py into Gen/C17_KeyTab.v.  Definitions only. *)
From PV Require Import Lib.Base Gen.C17_KeyTab Model.C17_Key.
#[local] Open Scope Z_scope.

Definition smem (s : string) (l : list string) : bool := existsb (String.eqb s) l.

(* ks_kid: the matrix a name stands for (0 Krumhansl-Kessler, 1 CBMS / Temperley, 2 Kostka-Payne) *)
Definition ks_profile_of_name (nm : string) : option Z :=
  if smem nm ["ks"; "kk"; "krumhansl_kessler"]%string then Some 0
  else if smem nm ["temperley"; "tp"; "cmbs"]%string then Some 1
  else if smem nm ["kp"; "kostka_payne"]%string then Some 2
  else None.

(* estimate_key(note_array[, key_profiles=name]): None = ValueError *)
Definition estimate_key_api (kp : option string) (ns : list knote) : option string :=
  let nm := match kp with None => "krumhansl_kessler"%string | Some n => n end in
  if negb (smem nm valid_key_profiles) then None
  else match ks_profile_of_name nm with
       | Some s => Some (estimate_key_fast (profile_set s) ns)
       | None => None
       end.

(* ---- checker used by the correspondence: (key_profiles argument or None, notes, name returned) *)
Definition key_check_api (c : option string * list knote * string) : bool :=
  let '(kp, ns, name) := c in
  match estimate_key_api kp ns with Some r => String.eqb r name | None => false end.
