(* C02_Hist -- the part as the public API builds it, call by call:
   Part.__init__ (quarter durations [(0, q0)], notated beats, no signatures),
   Part.set_quarter_duration (sorted insertion / replacement / "unless redundant"),
   Part.add(TimeSignature) (musical beats = default of the constructor, whatever was set before),
   set_musical_beat_per_ts / use_musical_beat / use_notated_beat (Model/C02.v: beat_step),
   in ANY order.  The maps of Model/C02.v are then taken of the part the history leaves behind.
   Definitions only; proofs are in Proofs/C02_hist.v. *)
From PV Require Import Lib.Base Model.C02.
From Coq Require Import QArith Qround.
#[local] Open Scope Z_scope.

(* ------------------------------------------------ set_quarter_duration *)
(* i = searchsorted(times, t); times[i] == t -> replace; else insert at i unless i > 0 and the
   entry before it (the one in force just before t) already has the value.
   prev = value of the entry scanned last (None: i == 0). *)
Fixpoint setqd_from (prev : option Z) (t q : Z) (tbl : list (Z * Z)) : list (Z * Z) :=
  match tbl with
  | [] => match prev with
          | Some pv => if pv =? q then [] else [(t, q)]
          | None => [(t, q)]
          end
  | (k, v) :: r =>
      if t <? k then
        match prev with
        | Some pv => if pv =? q then tbl else (t, q) :: tbl
        | None => (t, q) :: tbl
        end
      else if t =? k then (k, q) :: r
      else (k, v) :: setqd_from (Some v) t q r
  end.

Definition setqd (t q : Z) (tbl : list (Z * Z)) : list (Z * Z) := setqd_from None t q tbl.

(* the plain change table ("last write per time wins"): the same without the redundancy rule *)
Fixpoint dict_set (t q : Z) (tbl : list (Z * Z)) : list (Z * Z) :=
  match tbl with
  | [] => [(t, q)]
  | (k, v) :: r =>
      if t <? k then (t, q) :: tbl
      else if t =? k then (k, q) :: r
      else (k, v) :: dict_set t q r
  end.

(* the first change later than t, if any *)
Fixpoint next_key (t : Z) (tbl : list (Z * Z)) : option Z :=
  match tbl with
  | [] => None
  | (k, _) :: r => if t <? k then Some k else next_key t r
  end.

Definition before_next (t : Z) (tbl : list (Z * Z)) (s : Z) : bool :=
  match next_key t tbl with Some n => s <? n | None => true end.

(* a write is recorded unless no change is recorded at t and q is already in force there *)
Definition has_key (t : Z) (tbl : list (Z * Z)) : bool := existsb (fun kv => fst kv =? t) tbl.
Definition first_key_le (t : Z) (tbl : list (Z * Z)) : bool :=
  match tbl with (k, _) :: _ => k <=? t | [] => false end.
Definition effective (t q : Z) (tbl : list (Z * Z)) : bool :=
  has_key t tbl || negb (first_key_le t tbl) || negb (prev_lookup tbl t 0 =? q).

(* ------------------------------------------------ Part.add(TimeSignature) *)
Fixpoint insert_ts (x : tsig) (l : list tsig) : list tsig :=
  match l with
  | [] => [x]
  | y :: r => if ts_t x <? ts_t y then x :: l else y :: insert_ts x r
  end.

(* ------------------------------------------------ histories *)
Inductive hop :=
| HSetQ (t q : Z)              (* set_quarter_duration(t, q) *)
| HAddTs (t beats type : Z)    (* add(TimeSignature(beats, type), t) *)
| HBeat (op : beat_op).        (* the three musical-beat switches *)

Record hstate := mk_hstate { h_qs : list (Z * Z); h_flag : bool; h_tss : list tsig }.

Definition hinit (q0 : Z) : hstate := mk_hstate [(0, q0)] false [].

Definition hstep (st : hstate) (op : hop) : hstate :=
  match op with
  | HSetQ t q => mk_hstate (setqd t q (h_qs st)) (h_flag st) (h_tss st)
  | HAddTs t b bt =>
      mk_hstate (h_qs st) (h_flag st) (insert_ts (mk_tsig t b bt (musical_default b)) (h_tss st))
  | HBeat op =>
      let '(f, tss) := beat_step (h_flag st, h_tss st) op in mk_hstate (h_qs st) f tss
  end.

Definition hrun (q0 : Z) (h : list hop) : hstate := fold_left hstep h (hinit q0).

Definition hpart (first last q0 : Z) (h : list hop) (m1 : option (Z * Z)) : part :=
  let st := hrun q0 h in mk_part first last (h_qs st) (h_tss st) m1.

Definition hmode (q0 : Z) (h : list hop) : tmode := if h_flag (hrun q0 h) then Musical else Beat.

(* the writes of a history, in call order *)
Fixpoint writes (h : list hop) : list (Z * Z) :=
  match h with
  | [] => []
  | HSetQ t q :: r => (t, q) :: writes r
  | _ :: r => writes r
  end.

Fixpoint ts_times (h : list hop) : list Z :=
  match h with
  | [] => []
  | HAddTs t _ _ :: r => t :: ts_times r
  | _ :: r => ts_times r
  end.

(* largest keypoint *)
Definition kp_max (m : tmode) (p : part) : Z := last (kp_xs m p) 0.

(* ------------------------------------------------ correspondence checker *)
(* one case: first, last, initial quarter duration, the history of calls, the first measure,
   per observed position (every integer of [first, last] and every change point, also outside)
     (t, quarter_map t, beat_map t, inv_quarter_map (quarter_map t), inv_beat_map (beat_map t), quarter_duration_map t),
   inverse probes (v, inv_quarter_map v, inv_beat_map v),
   quarter-duration probes at arbitrary rational times (t, quarter_duration_map t) *)
Definition c02_hcase : Type :=
  (Z * Z * Z * list hop * option (Z * Z) *
   list (Z * option Q * option Q * option Q * option Q * Z) *
   list (Q * option Q * option Q) * list (Q * Z))%type.

Definition check_hcase (c : c02_hcase) : bool :=
  let '(first, last, q0, h, m1, obs, probes, qprobes) := c in
  let p := hpart first last q0 h m1 in
  let bm := hmode q0 h in
  let qp := time_pts Quarter p in
  let bp := time_pts bm p in
  let qpi := swap_pts qp in
  let bpi := swap_pts bp in
  forallb (fun o =>
    let '(t, qv, bv, iq, ib, qd) := o in
    oclose qv (interp qp (inject_Z t)) && oclose bv (interp bp (inject_Z t)) &&
    inv_ok qpi t qv iq && inv_ok bpi t bv ib && (qd =? qd_map p t)) obs &&
  forallb (fun o =>
    let '(v, iq, ib) := o in oclose iq (interp qpi v) && oclose ib (interp bpi v)) probes &&
  forallb (fun o => let '(t, qd) := o in qd =? qd_map p (Qfloor t)) qprobes.
