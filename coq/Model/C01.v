(* C01 -- executable model of the Part timeline of partitura/score.py
   (Part.add/remove/_add_point/_remove_point/_cleanup_point/get_point/get_or_add_point/
    set_quarter_duration/quarter_durations/iter_all/first_point/last_point,
    TimePoint.add_*_object/iter_starting/iter_ending/iter_prev/iter_next,
    utils/generic.py iter_subclasses).
   Definitions only; proofs are in Proofs/C01_*.v.

   Representation.
   * an object is (class id, serial); its class is intrinsic (type(o) in Python).  Class ids index
     the reflected hierarchy Gen/C01_ClassTree.v (0 = TimedObject).
   * a time point stores its time, quarter, the TIMES of its prev/next neighbours (so a stale link
     is representable) and the starting/ending registries.  The class-keyed dict of insertion-ordered
     sets `starting_objects` is one insertion-ordered list; `starting_objects[c]` is its filter by class.
   * Part._points is the list `points` (numpy object array); np.searchsorted(points, t) is
     length (before t points); np.insert / np.delete at that index are `before ++ x :: from`.
   * o.start / o.end (back references) are the functions ostart / oend : obj -> option time.
   * _quarter_times/_quarter_durations are one list of pairs `qtab`; _quarter_map is qd_at qtab. *)
From PV Require Import Lib.Base Gen.C01_ClassTree.

Definition obj := (Z * Z)%type.
Definition ocls (o : obj) : Z := fst o.
Definition obj_eqb (a b : obj) : bool := (fst a =? fst b) && (snd a =? snd b).

Record point := mkPoint {
  pt : Z; pq : Z; pprev : option Z; pnext : option Z; pstart : list obj; pend : list obj }.

Definition set_prev (v : option Z) (p : point) := mkPoint (pt p) (pq p) v (pnext p) (pstart p) (pend p).
Definition set_next (v : option Z) (p : point) := mkPoint (pt p) (pq p) (pprev p) v (pstart p) (pend p).
Definition set_quarter (q : Z) (p : point) := mkPoint (pt p) q (pprev p) (pnext p) (pstart p) (pend p).

Inductive side := SStart | SEnd.
Definition preg (s : side) (q : point) : list obj := match s with SStart => pstart q | SEnd => pend q end.
Definition set_preg (s : side) (l : list obj) (q : point) : point :=
  match s with
  | SStart => mkPoint (pt q) (pq q) (pprev q) (pnext q) l (pend q)
  | SEnd => mkPoint (pt q) (pq q) (pprev q) (pnext q) (pstart q) l
  end.

Record part := mkPart {
  points : list point; qtab : list (Z * Z); ostart : obj -> option Z; oend : obj -> option Z }.

Definition oref (s : side) (p : part) : obj -> option Z := match s with SStart => ostart p | SEnd => oend p end.
Definition set_oref (s : side) (f : obj -> option Z) (ps : list point) (p : part) : part :=
  match s with
  | SStart => mkPart ps (qtab p) f (oend p)
  | SEnd => mkPart ps (qtab p) (ostart p) f
  end.
Definition fset (f : obj -> option Z) (o : obj) (v : option Z) : obj -> option Z :=
  fun x => if obj_eqb o x then v else f x.

(* Part.__init__ *)
Definition init (q0 : Z) : part := mkPart [] [(0, q0)] (fun _ => None) (fun _ => None).

(* ---------------------------------------------------------------- list helpers *)
Fixpoint last_opt {A} (l : list A) : option A :=
  match l with [] => None | a :: r => match r with [] => Some a | _ => last_opt r end end.
Fixpoint upd_last {A} (f : A -> A) (l : list A) : list A :=
  match l with [] => [] | a :: r => match r with [] => [f a] | _ => a :: upd_last f r end end.
Definition upd_head {A} (f : A -> A) (l : list A) : list A :=
  match l with [] => [] | a :: r => f a :: r end.

(* points[:i] and points[i:] for i = np.searchsorted(points, TimePoint(t)) (side='left') *)
Fixpoint before (t : Z) (ps : list point) : list point :=
  match ps with [] => [] | p :: r => if pt p <? t then p :: before t r else [] end.
Fixpoint from (t : Z) (ps : list point) : list point :=
  match ps with [] => [] | p :: r => if pt p <? t then from t r else ps end.

Definition hdt (r : list point) (b : option Z) : option Z := match r with q :: _ => Some (pt q) | [] => b end.
Definition lastt (l : list point) (a : option Z) : option Z := match last_opt l with Some x => Some (pt x) | None => a end.

(* Part.get_point (for t >= 0) *)
Definition get_point (t : Z) (ps : list point) : option point :=
  match from t ps with q :: _ => if pt q =? t then Some q else None | [] => None end.

(* Part._add_point *)
Definition add_point (tp : point) (ps : list point) : list point :=
  let t := pt tp in
  let l := before t ps in
  let r := from t ps in
  if match r with q :: _ => negb (pt q =? t) | [] => true end then
    (* np.insert(points, i, tp); if i > 0: link i-1 <-> i; if i < len-1: link i <-> i+1 *)
    let tp1 := match last_opt l with Some a => set_prev (Some (pt a)) tp | None => tp end in
    let tp2 := match r with q :: _ => set_next (Some (pt q)) tp1 | [] => tp1 end in
    upd_last (set_next (Some t)) l ++ tp2 :: upd_head (set_prev (Some t)) r
  else ps.

(* Part._remove_point (as repaired by the D01/D02 fix commits); None = IndexError from points[i] *)
Definition remove_point (t : Z) (ps : list point) : option (list point) :=
  let l := before t ps in
  match from t ps with
  | [] => None
  | q :: r =>
      if pt q =? t then
        (* np.delete(points, i); prev_tp.next = next_tp; next_tp.prev = prev_tp *)
        Some (upd_last (set_next (hdt r None)) l ++ upd_head (set_prev (lastt l None)) r)
      else Some ps
  end.

Definition is_empty (q : point) : bool :=
  match pstart q, pend q with [], [] => true | _, _ => false end.

(* the point a back reference with time t denotes *)
Definition find_pt (t : Z) (ps : list point) : option point := find (fun q => pt q =? t) ps.

(* Part._cleanup_point(tp) for the point referenced by time t *)
Definition cleanup_point (t : Z) (ps : list point) : option (list point) :=
  match find_pt t ps with
  | Some q => if is_empty q then remove_point t ps else Some ps
  | None => Some ps
  end.

(* _OrderedSet.add / remove *)
Definition oset_add (o : obj) (l : list obj) : list obj := if existsb (obj_eqb o) l then l else l ++ [o].
Definition oset_remove (o : obj) (l : list obj) : list obj := filter (fun x => negb (obj_eqb o x)) l.

Definition upd_at (t : Z) (f : point -> point) (ps : list point) : list point :=
  map (fun q => if pt q =? t then f q else q) ps.

(* ---------------------------------------------------------------- quarter durations *)
(* _quarter_map = interp1d(times, durs, kind="previous", fill_value=(y[0], y[-1])) *)
Fixpoint qd_prev (tab : list (Z * Z)) (t : Z) (cur : Z) : Z :=
  match tab with [] => cur | (t', q') :: r => if t' <=? t then qd_prev r t q' else cur end.
Definition qd_at (tab : list (Z * Z)) (t : Z) : Z :=
  match tab with [] => 0 | (_, q0) :: _ => qd_prev tab t q0 end.

Definition same_q (prevq : option Z) (q : Z) : bool := match prevq with Some q' => q' =? q | None => false end.

(* the table update of set_quarter_duration (as repaired by the D03 fix commit):
   i = searchsorted(times, t); entry at t -> replace if different; else insert unless the entry
   before has the same value (prevq = None encodes i == 0).  Returns (table, changed). *)
Fixpoint set_q_tab (t q : Z) (prevq : option Z) (tab : list (Z * Z)) : list (Z * Z) * bool :=
  match tab with
  | [] => if same_q prevq q then ([], false) else ([(t, q)], true)
  | (t', q') :: r =>
      if t' <? t then let '(r', c) := set_q_tab t q (Some q') r in ((t', q') :: r', c)
      else if t' =? t then (if q' =? q then (tab, false) else ((t, q) :: r, true))
      else if same_q prevq q then (tab, false) else ((t, q) :: tab, true)
  end.

(* times[i+1]: the next later change; None = np.inf *)
Fixpoint next_change (t : Z) (tab : list (Z * Z)) : option Z :=
  match tab with [] => None | (t', _) :: r => if t <? t' then Some t' else next_change t r end.

Definition in_span (t : Z) (tn : option Z) (s : Z) : bool :=
  (t <=? s) && match tn with Some x => s <? x | None => true end.

(* Part.set_quarter_duration *)
Definition set_quarter_duration (p : part) (t q : Z) : part :=
  let '(tab', changed) := set_q_tab t q None (qtab p) in
  if changed then
    let tn := next_change t tab' in
    mkPart (map (fun x => if in_span t tn (pt x) then set_quarter q x else x) (points p)) tab' (ostart p) (oend p)
  else p.

(* ---------------------------------------------------------------- operations *)
Definition fresh_point (t q : Z) : point := mkPoint t q None None [] [].

(* Part.get_or_add_point (for t >= 0) *)
Definition get_or_add_point (p : part) (t : Z) : part :=
  match get_point t (points p) with
  | Some _ => p
  | None => mkPart (add_point (fresh_point t (qd_at (qtab p) t)) (points p)) (qtab p) (ostart p) (oend p)
  end.

(* self.get_or_add_point(t).add_starting_object(o) / add_ending_object(o) *)
Definition add_side (s : side) (p : part) (o : obj) (t : Z) : part :=
  let p1 := get_or_add_point p t in
  set_oref s (fset (oref s p1) o (Some t))
    (upd_at t (fun q => set_preg s (oset_add o (preg s q)) q) (points p1)) p1.

Inductive out := OutOk | OutInvalidTime | OutIndexError.
Definition out_code (o : out) : Z := match o with OutOk => 0 | OutInvalidTime => 1 | OutIndexError => 2 end.

Definition add_opt (s : side) (r : part * out) (o : obj) (t : option Z) : part * out :=
  match r with
  | (p, OutOk) =>
      match t with
      | None => (p, OutOk)
      | Some t => if t <? 0 then (p, OutInvalidTime) else (add_side s p o t, OutOk)
      end
  | _ => r
  end.

Definition neg_opt (t : option Z) : bool := match t with Some t => t <? 0 | None => false end.

(* Part.add (as repaired by the D04 fix commit: both times are checked before the timeline is touched) *)
Definition add (p : part) (o : obj) (s e : option Z) : part * out :=
  if neg_opt s || neg_opt e then (p, OutInvalidTime)
  else add_opt SEnd (add_opt SStart (p, OutOk) o s) o e.

(* one half of Part.remove: deregister, clean the point up, clear the back reference *)
Definition remove_side (s : side) (p : part) (o : obj) : part * out :=
  match oref s p o with
  | None => (p, OutOk)
  | Some t =>
      let ps1 := upd_at t (fun q => set_preg s (oset_remove o (preg s q)) q) (points p) in
      match cleanup_point t ps1 with
      | None => (set_oref s (oref s p) ps1 p, OutIndexError)
      | Some ps2 => (set_oref s (fset (oref s p) o None) ps2 p, OutOk)
      end
  end.

Inductive which := WStart | WEnd | WBoth.

Definition remove (p : part) (o : obj) (w : which) : part * out :=
  match w with
  | WStart => remove_side SStart p o
  | WEnd => remove_side SEnd p o
  | WBoth => match remove_side SStart p o with
             | (p1, OutOk) => remove_side SEnd p1 o
             | r => r
             end
  end.

(* TimePoint.remove_starting_object / remove_ending_object called on the point the object refers to
   (`o.start.remove_starting_object(o)`): deregisters and clears the back reference; NO clean-up, so the
   point may stay behind empty -- like a point made by a bare get_or_add_point *)
Definition tp_remove (s : side) (p : part) (o : obj) : part :=
  match oref s p o with
  | None => p
  | Some t =>
      set_oref s (fset (oref s p) o None)
        (upd_at t (fun q => set_preg s (oset_remove o (preg s q)) q) (points p)) p
  end.

Inductive op :=
| OAdd (o : obj) (s e : option Z)
| ORemove (o : obj) (w : which)
| OSetQ (t q : Z)
| OGetOrAdd (t : Z)
| OTpRemove (o : obj) (s : side).

Definition step (p : part) (o : op) : part * out :=
  match o with
  | OAdd ob s e => add p ob s e
  | ORemove ob w => remove p ob w
  | OSetQ t q => (set_quarter_duration p t q, OutOk)
  | OGetOrAdd t => if t <? 0 then (p, OutInvalidTime) else (get_or_add_point p t, OutOk)
  | OTpRemove ob s => (tp_remove s p ob, OutOk)
  end.

Fixpoint run (p : part) (ops : list op) : part :=
  match ops with [] => p | o :: r => run (fst (step p o)) r end.

(* ---------------------------------------------------------------- queries *)
Definition zmem (x : Z) (l : list Z) : bool := existsb (Z.eqb x) l.
Definition subs_of (c : Z) : list Z := match zlookup c ct_subs with Some l => l | None => [] end.

(* utils/generic.py iter_subclasses: depth first over __subclasses__() with a _seen set *)
Fixpoint dfs (fuel : nat) (todo seen acc : list Z) : list Z :=
  match fuel with
  | O => rev acc
  | S f =>
      match todo with
      | [] => rev acc
      | c :: rest => if zmem c seen then dfs f rest seen acc
                     else dfs f (subs_of c ++ rest) (c :: seen) (c :: acc)
      end
  end.
Definition ct_fuel : nat := (2 * List.length (flat_map snd ct_subs) + 2)%nat.
Definition iter_subclasses (c : Z) : list Z := dfs ct_fuel (subs_of c) [] [].

Definition by_cls (c : Z) (l : list obj) : list obj := filter (fun o => ocls o =? c) l.

(* TimePoint.iter_starting / iter_ending on one registry; cls None = object with subclasses *)
Definition iter_reg (l : list obj) (c : option Z) (sub : bool) : list obj :=
  match c with
  | None => l
  | Some c => by_cls c l ++ (if sub then flat_map (fun d => by_cls d l) (iter_subclasses c) else [])
  end.

Definition from_opt (a : option Z) ps := match a with Some t => from t ps | None => ps end.
Definition before_opt (b : option Z) ps := match b with Some t => before t ps | None => ps end.

Definition tagged (s : side) (c : option Z) (sub : bool) (q : point) : list (Z * obj) :=
  map (pair (pt q)) (iter_reg (preg s q) c sub).

(* Part.iter_all: points[searchsorted(start) : searchsorted(end)] *)
Definition iter_all (p : part) (c : option Z) (a b : option Z) (sub : bool) (mode : side) : list (Z * obj) :=
  flat_map (tagged mode c sub) (before_opt b (from_opt a (points p))).

(* following stored links *)
Fixpoint follow (nxt : point -> option Z) (fuel : nat) (ps : list point) (cur : option Z) : list point :=
  match fuel with
  | O => []
  | S f => match cur with
           | None => []
           | Some t => match find_pt t ps with
                       | None => []
                       | Some q => q :: follow nxt f ps (nxt q)
                       end
           end
  end.

(* TimePoint.iter_next / iter_prev called on the point of the part at time t *)
Definition iter_link (nxt : point -> option Z) (p : part) (t : Z) (c : option Z) (eq sub : bool) : list (Z * obj) :=
  match find_pt t (points p) with
  | None => []
  | Some q0 => flat_map (tagged SStart c sub)
                 (follow nxt (S (List.length (points p))) (points p) (if eq then Some t else nxt q0))
  end.
Definition iter_next := iter_link pnext.
Definition iter_prev := iter_link pprev.

Definition first_point (p : part) : option Z := option_map pt (hd_error (points p)).
Definition last_point (p : part) : option Z := option_map pt (last_opt (points p)).

(* Part.quarter_durations(start, end) *)
Definition quarter_durations (p : part) (a b : option Z) : list (Z * Z) :=
  filter (fun e => match a with Some x => x <=? fst e | None => true end
                   && match b with Some y => fst e <? y | None => true end) (qtab p).

(* ---------------------------------------------------------------- correspondence checker *)
Definition obj_leb (a b : obj) : bool := (fst a <? fst b) || ((fst a =? fst b) && (snd a <=? snd b)).
Fixpoint ins_obj (x : obj) (l : list obj) : list obj :=
  match l with [] => [x] | y :: r => if obj_leb x y then x :: l else y :: ins_obj x r end.
Definition sort_objs (l : list obj) : list obj := fold_right ins_obj [] l.

Definition tobj_leb (a b : Z * obj) : bool := (fst a <? fst b) || ((fst a =? fst b) && obj_leb (snd a) (snd b)).
Fixpoint ins_tobj (x : Z * obj) (l : list (Z * obj)) : list (Z * obj) :=
  match l with [] => [x] | y :: r => if tobj_leb x y then x :: l else y :: ins_tobj x r end.
Definition sort_tobjs (l : list (Z * obj)) : list (Z * obj) := fold_right ins_tobj [] l.

Definition objs_eqb := list_eqb obj_eqb.
Definition tobjs_eqb := list_eqb (fun a b : Z * obj => (fst a =? fst b) && obj_eqb (snd a) (snd b)).
Definition zz_eqb := list_eqb (fun a b : Z * Z => (fst a =? fst b) && (snd a =? snd b)).

(* what the harness dumps for one time point: (t, quarter, prev.t, next.t, starting, ending), registries sorted *)
Definition pdump := (Z * Z * option Z * option Z * list obj * list obj)%type.
Definition point_eqb (q : point) (d : pdump) : bool :=
  match d with
  | (t, qq, pv, nx, st, en) =>
      (pt q =? t) && (pq q =? qq) && zopt_eqb (pprev q) pv && zopt_eqb (pnext q) nx
      && objs_eqb (sort_objs (pstart q)) st && objs_eqb (sort_objs (pend q)) en
  end.
Fixpoint points_eqb (ps : list point) (ds : list pdump) : bool :=
  match ps, ds with
  | [], [] => true
  | q :: ps', d :: ds' => point_eqb q d && points_eqb ps' ds'
  | _, _ => false
  end.

Inductive query :=
| QIterAll (c : option Z) (a b : option Z) (sub : bool) (mode : side)
| QIterNext (t : Z) (c : option Z) (eq sub : bool)
| QIterPrev (t : Z) (c : option Z) (eq sub : bool)
| QFirstLast
| QGetPoint (t : Z)
| QQuarterDurations (a b : option Z)
(* interpreted by the index-level / registry-level models only (Model/C01_Idx.v, Model/C01_Dict.v) *)
| QSearch (t : Z)            (* np.searchsorted(part._points, TimePoint(t)) *)
| QCmp (a b : Z)             (* TimePoint(a) op TimePoint(b) for op in < <= == >= > != *)
| QCachedMap (s : Z).        (* int(part._quarter_map(s)): the cached interpolator *)

Inductive qres :=
| RObjs (l : list (Z * obj))        (* in iteration order, equal-time runs sorted by the harness *)
| RTimes (a b : option Z)
| RQd (l : list (Z * Z))
| RIdx (i : Z)
| RBools (l : list bool)
| RVal (v : Z).

Definition times_eqb (a b : list (Z * obj)) : bool := list_eqb Z.eqb (map fst a) (map fst b).

Definition query_ok (p : part) (q : query) (r : qres) : bool :=
  match q, r with
  | QIterAll c a b sub mode, RObjs l =>
      let m := iter_all p c a b sub mode in times_eqb m l && tobjs_eqb (sort_tobjs m) l
  | QIterNext t c eq sub, RObjs l =>
      let m := iter_next p t c eq sub in times_eqb m l && tobjs_eqb (sort_tobjs m) l
  | QIterPrev t c eq sub, RObjs l =>
      (* descending times: the harness sorts equal-time runs; compare time sequence and the multiset *)
      let m := iter_prev p t c eq sub in times_eqb m l && tobjs_eqb (sort_tobjs m) (sort_tobjs l)
  | QFirstLast, RTimes a b => zopt_eqb (first_point p) a && zopt_eqb (last_point p) b
  | QGetPoint t, RTimes a _ => zopt_eqb (option_map pt (get_point t (points p))) a
  | QQuarterDurations a b, RQd l => zz_eqb (quarter_durations p a b) l
  | QSearch _, RIdx _ | QCmp _ _, RBools _ => true     (* not this model's business *)
  | QCachedMap s, RVal v => qd_at (qtab p) s =? v      (* here the map is always the current table *)
  | _, _ => false
  end.

(* observation after one operation *)
Record obs := mkObs {
  ob_out : Z;
  ob_points : list pdump;
  ob_qtab : list (Z * Z);
  ob_refs : list (option Z * option Z);      (* start.t / end.t of every object of the history, in order *)
  ob_queries : list (query * qres) }.

Fixpoint refs_eqb (p : part) (objs : list obj) (refs : list (option Z * option Z)) : bool :=
  match objs, refs with
  | [], [] => true
  | o :: objs', r :: refs' =>
      zopt_eqb (ostart p o) (fst r) && zopt_eqb (oend p o) (snd r) && refs_eqb p objs' refs'
  | _, _ => false
  end.

Definition obs_ok (objs : list obj) (p : part) (o : out) (ob : obs) : bool :=
  (out_code o =? ob_out ob) && points_eqb (points p) (ob_points ob) && zz_eqb (qtab p) (ob_qtab ob)
  && refs_eqb p objs (ob_refs ob)
  && forallb (fun qr => query_ok p (fst qr) (snd qr)) (ob_queries ob).

(* index of the first step whose observation differs; None = whole history agrees *)
Fixpoint first_diff (objs : list obj) (p : part) (i : Z) (h : list (op * obs)) : option Z :=
  match h with
  | [] => None
  | (o, ob) :: r =>
      let '(p', out) := step p o in
      if obs_ok objs p' out ob then first_diff objs p' (i + 1) r else Some i
  end.

Definition history_ok (c : Z * list obj * list (op * obs)) : bool :=
  match c with (q0, objs, h) => match first_diff objs (init q0) 0 h with None => true | Some _ => false end end.

(* small-scope enumeration: only the observation after the last operation is compared
   (every prefix of an enumerated history is itself enumerated) *)
Fixpoint run_out (p : part) (ops : list op) (o : out) : part * out :=
  match ops with [] => (p, o) | x :: r => let '(p', o') := step p x in run_out p' r o' end.
Definition final_ok (c : Z * list obj * list op * obs) : bool :=
  match c with (q0, objs, ops, ob) => let '(p, o) := run_out (init q0) ops OutOk in obs_ok objs p o ob end.
