(* C01 -- code-level model of the two READ paths of the quarter-duration table of partitura/score.py:
   Part.quarter_duration_map (the interpolator handed out / cached as _quarter_map) and
   Part.quarter_durations(start, end).  Definitions only; Proofs/C01_qmap.v proves that on every table a
   history can produce they give the duration in force (Model/C01.v qd_at, the scan the three part-level
   models use) resp. exactly the entries of the half-open window.

   Part.quarter_duration_map:
       x = self._quarter_times; y = self._quarter_durations
       if len(x) == 1: x = x + x; y = y + y                       (list concatenation: [t0, t0], [q0, q0])
       return interp1d(x, y, kind="previous", bounds_error=False, fill_value=(y[0], y[-1]))
   scipy interp1d, kind="previous" (scipy/interpolate/_interpolate.py, _call_previousnext + _evaluate):
       _side = 'left'; _ind = 0; _x_shift = nextafter(x, -inf)
       idx = searchsorted(_x_shift, x_new, side='left')           (binary search asking _x_shift[mid] < x_new)
       idx = idx.clip(1 - _ind, len(x) - _ind)                    (= clip(1, len(x)))
       y_new = y[idx + _ind - 1]                                  (= y[idx - 1])
       y_new[x_new < x[0]] = fill_value_below; y_new[x_new > x[-1]] = fill_value_above
   For integer x and an integer x_new, `nextafter(x[i], -inf) < x_new` is `x[i] <= x_new`; the comparison is a
   parameter (`below`) so that the variant that forgets the shift (x[i] < x_new) is expressible.
   The binary search is Model/C01_Idx.v's `searchsorted` (npy_binsearch, side='left').

   Part.quarter_durations(start, end):
       qd = column_stack((times, durations))
       if start is not None: qd = qd[qd[:, 0] >= start, :]
       if end is not None:   qd = qd[qd[:, 0] < end, :]
   two masks applied one after the other, each guarded by `is not None` (the guard is a parameter: the
   truthiness test `if end:` treats the bound 0 as omitted). *)
From PV Require Import Lib.Base Model.C01 Model.C01_Idx.
From Coq Require Import ZArith List Bool Arith.
Import ListNotations.
Open Scope Z_scope.

(* np.clip(n, lo, hi) = minimum(hi, maximum(n, lo)) *)
Definition clip_nat (lo hi n : nat) : nat := Nat.min hi (Nat.max lo n).

(* interp1d(x, y, kind="previous", bounds_error=False, fill_value=fill)(s); None = an exception
   (empty x, len(x) != len(y), index out of range) *)
Definition interp_previous (below : Z -> Z -> bool) (x y : list Z) (fill : Z * Z) (s : Z) : option Z :=
  match x with
  | [] => None
  | x0 :: _ =>
      if negb (List.length x =? List.length y)%nat then None else
      let i := searchsorted x (fun xi => below xi s) in
      let i := clip_nat 1 (List.length x) i in
      match nth_error y (i - 1) with
      | None => None
      | Some v => Some (if s <? x0 then fst fill else if last x x0 <? s then snd fill else v)
      end
  end.

(* Part.quarter_duration_map, parametrised by the comparison of the shifted search and by the fill values *)
Definition qmap_gen (below : Z -> Z -> bool) (fill_of : list Z -> option (Z * Z)) (tab : list (Z * Z)) (s : Z) : option Z :=
  let x := map fst tab in
  let y := map snd tab in
  let x' := if (List.length x =? 1)%nat then x ++ x else x in
  let y' := if (List.length x =? 1)%nat then y ++ y else y in
  match fill_of y' with
  | None => None
  | Some f => interp_previous below x' y' f s
  end.

(* fill_value=(y[0], y[-1]); IndexError on an empty table *)
Definition fill_code (y : list Z) : option (Z * Z) := match y with [] => None | y0 :: _ => Some (y0, last y y0) end.
(* the code *)
Definition qmap_code : list (Z * Z) -> Z -> option Z := qmap_gen Z.leb fill_code.

(* two slips of the kind the stored seeds show (closed instead of half-open, first instead of last) *)
Definition fill_first (y : list Z) : option (Z * Z) := match y with [] => None | y0 :: _ => Some (y0, y0) end.
Definition qmap_fill_first : list (Z * Z) -> Z -> option Z := qmap_gen Z.leb fill_first.     (* fill_value=(y[0], y[0]) *)
Definition qmap_unshifted : list (Z * Z) -> Z -> option Z := qmap_gen Z.ltb fill_code.        (* search without the shift *)

(* Part.quarter_durations(start, end) *)
Definition is_not_none (o : option Z) : bool := match o with Some _ => true | None => false end.
Definition truthy (o : option Z) : bool := match o with Some z => negb (z =? 0) | None => false end.
Definition qdur_gen (given : option Z -> bool) (tab : list (Z * Z)) (a b : option Z) : list (Z * Z) :=
  let qd := tab in
  let qd := if given a then filter (fun e => match a with Some x => x <=? fst e | None => true end) qd else qd in
  let qd := if given b then filter (fun e => match b with Some y => fst e <? y | None => true end) qd else qd in
  qd.
Definition qdur_code := qdur_gen is_not_none.
Definition qdur_truthy := qdur_gen truthy.                                                    (* `if start:` / `if end:` *)

(* ---------------------------------------------------------------- checkers for the correspondence *)
Definition oz_eqb (a : option Z) (v : Z) : bool := match a with Some w => w =? v | None => false end.

(* one table read off a real Part + the answers of its quarter_duration_map / cached _quarter_map at the times
   asked + the results of quarter_durations(a, b) *)
Definition qmap_case_ok (c : list (Z * Z) * list (Z * Z) * list (option Z * option Z * list (Z * Z))) : bool :=
  let '(tab, asks, qds) := c in
  forallb (fun sv => oz_eqb (qmap_code tab (fst sv)) (snd sv)) asks &&
  forallb (fun abl => zz_eqb (qdur_code tab (fst (fst abl)) (snd (fst abl))) (snd abl)) qds.

(* scipy's interp1d itself on a sorted x (duplicates allowed) *)
Definition interp_case_ok (c : list Z * list Z * (Z * Z) * list (Z * Z)) : bool :=
  let '(x, y, fill, asks) := c in
  forallb (fun sv => oz_eqb (interp_previous Z.leb x y fill (fst sv)) (snd sv)) asks.
