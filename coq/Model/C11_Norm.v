(* C11 -- executable model of the remaining normalisation steps of partitura/score.py:
     tie_notes / split_note under a changing divisions value (Part.set_quarter_duration),
     the slur ends carried over by tie_notes / split_note,
     sanitize_part (grace notes without a main note, tie chains with a gap),
     find_tuplets (tuplet detection on runs of untyped notes of equal duration),
     the composite answers of estimate_symbolic_duration(return_com_durations=True).
   Definitions only; proofs are in Proofs/C11_norm.v.  The model follows the code as it is after
   the repairs recorded in findings.d/C11.json. *)
From PV Require Import Lib.Base Lib.Round Gen.C11_Tables Model.C11.
From Coq Require Import QArith Qabs Ascii.
#[local] Open Scope Z_scope.

(* ---------------------------------------------------------------------- *)
(* the divisions in force: Part.set_quarter_duration entries (time, divisions) in time order; the value
   at t is that of the last entry at or before t (of the first entry before all of them) *)
Definition divmap := list (Z * Z).
Fixpoint div_at_from (d : Z) (dm : divmap) (t : Z) : Z :=
  match dm with
  | [] => d
  | (a, v) :: r => if a <=? t then div_at_from v r t else d
  end.
Definition div_at (dm : divmap) (t : Z) : Z :=
  match dm with [] => 1 | (_, v) :: r => div_at_from v r t end.

(* tie_notes under a divisions map.  Stage 1 is as in Model.C11; stage 2 looks at every piece under
   the divisions at the piece's start (`divs_map(note.start.t)`), and the pieces split_note makes
   carry the symbolic durations find_tie_split computed under that same value *)
Definition stage2_pieces_dm (dm : divmap) (ps : list (Z * Z)) : list (Z * Z) :=
  flat_map (fun p => stage2_piece (div_at dm (fst p)) p) ps.
Definition tie_pieces_dm (bars : list Z) (dm : divmap) (ps : list (Z * Z)) : list (Z * Z) :=
  stage2_pieces_dm dm (stage1_pieces bars ps).
Definition tie_chain_dm (bars : list Z) (dm : divmap) (c : chain) : chain :=
  let '(p, v, st, ps) := c in (p, v, st, tie_pieces_dm bars dm ps).

(* every piece afterwards with the symbolic duration it carries (note.symbolic_duration) *)
Definition stage2_piece_sym (d : Z) (p : Z * Z) : list (Z * Z * est) :=
  map (fun q => (q, estimate (snd q - fst q) d)) (stage2_piece d p).
Definition tie_pieces_sym_dm (bars : list Z) (dm : divmap) (ps : list (Z * Z)) : list (Z * Z * est) :=
  flat_map (fun p => stage2_piece_sym (div_at dm (fst p)) p) (stage1_pieces bars ps).

(* ---------------------------------------------------------------------- *)
(* sanitize_part, grace notes.
   Abstraction of the object graph: a grace sequence is the set of grace notes with the same
   last_grace_note_in_seq; its members are listed in the order part.iter_all(GraceNote) visits
   them, each with (index, start time, voice); its link is the grace_next of the last member when
   that is a note which is not a grace note (main_note of every member), None otherwise.
   The candidates are the objects of class Note exactly (index, start time, voice) in the order
   part.iter_all(Note) yields them. *)
Definition gmember := (Z * Z * Z)%type.
Definition gseq := (list gmember * option Z)%type.
Definition cnote := (Z * Z * Z)%type.

Definition gm_id (m : gmember) : Z := fst (fst m).
Definition gm_t (m : gmember) : Z := snd (fst m).
Definition gm_v (m : gmember) : Z := snd m.

Definition cn_matches (t v : Z) (n : cnote) : bool := (snd (fst n) =? t) && (snd n =? v).

(* `for no in part.iter_all(Note, start=t, end=t+1): if no.voice == gn.voice: last.grace_next = no`:
   the last note of that voice starting at t stays *)
Definition cand_at (notes : list cnote) (t v : Z) : option Z :=
  match rev (filter (cn_matches t v) notes) with
  | [] => None
  | n :: _ => Some (fst (fst n))
  end.

(* one pass over the members of a sequence in visiting order: a member visited while the
   sequence has no main note gets the candidate at its own time and voice (if any) as the main
   note of the whole sequence; it is removed when the sequence still has none.
   Result: indices removed, link afterwards *)
Fixpoint san_members (notes : list cnote) (ms : list gmember) (lnk : option Z) : list Z * option Z :=
  match ms with
  | [] => ([], lnk)
  | m :: r =>
    let lnk' := match lnk with Some _ => lnk | None => cand_at notes (gm_t m) (gm_v m) end in
    let res := san_members notes r lnk' in
    (match lnk' with None => gm_id m :: fst res | Some _ => fst res end, snd res)
  end.

Definition sanitize_graces (notes : list cnote) (seqs : list gseq) : list (list Z * option Z) :=
  map (fun s => san_members notes (fst s) (snd s)) seqs.

Definition removed_graces (notes : list cnote) (seqs : list gseq) : list Z :=
  flat_map fst (sanitize_graces notes seqs).

(* helpers for the statements about san_members *)
Definition is_none {A} (o : option A) : bool := match o with None => true | Some _ => false end.
Fixpoint take_while {A} (f : A -> bool) (l : list A) : list A :=
  match l with [] => [] | x :: r => if f x then x :: take_while f r else [] end.
Fixpoint drop_while {A} (f : A -> bool) (l : list A) : list A :=
  match l with [] => [] | x :: r => if f x then drop_while f r else l end.

(* a sequence sanitize_part can complete: it has a main note, or a note (class Note) of the voice of
   its first visited member starts at that member's time *)
Definition linkable (notes : list cnote) (s : gseq) : Prop :=
  snd s <> None
  \/ match fst s with [] => True | m :: _ => is_none (cand_at notes (gm_t m) (gm_v m)) = false end.

(* note-array rows of the grace notes (index, time) before and after *)
Definition grace_rows (seqs : list gseq) : list (Z * Z) :=
  flat_map (fun s => map (fun m => (gm_id m, gm_t m)) (fst s)) seqs.
Definition grace_rows_after (notes : list cnote) (seqs : list gseq) : list (Z * Z) :=
  flat_map (fun s => map (fun m => (gm_id m, gm_t m))
                         (filter (fun m => negb (existsb (Z.eqb (gm_id m)) (fst (san_members notes (fst s) (snd s)))))
                                 (fst s))) seqs.

(* ---------------------------------------------------------------------- *)
(* sanitize_part, ties: a chain whose extent differs from its summed duration by more than
   tie_tolerance is taken apart (every piece becomes a note of its own) *)
Definition end_of (ps : list (Z * Z)) : Z := match ps with [] => 0 | p :: r => snd (List.last r p) end.

Definition chain_span_ok (tol : Z) (ps : list (Z * Z)) : bool :=
  Z.abs ((end_of ps - onset_of ps) - total_dur ps) <=? tol.

Definition sanitize_chain (tol : Z) (c : chain) : list chain :=
  let '(p, v, st, ps) := c in
  match ps with
  | [] | [_] => [c]                       (* n.tie_next is None *)
  | _ => if chain_span_ok tol ps then [c] else map (fun q => (p, v, st, [q])) ps
  end.

Definition sanitize_chains (tol : Z) (cs : list chain) : list chain := flat_map (sanitize_chain tol) cs.

(* ---------------------------------------------------------------------- *)
(* find_tuplets.  Input: the notes and rests in the order part.iter_all(GenericNote,
   include_subclasses=True) yields them, each (start, end, untyped) where untyped means
   `note.symbolic_duration is None`.  Notes are referred to by their position in that list. *)
Definition tnote := (Z * Z * bool)%type.
Definition tn_s (n : tnote) : Z := fst (fst n).
Definition tn_e (n : tnote) : Z := snd (fst n).
Definition tn_u (n : tnote) : bool := snd n.

(* 1. group consecutive untyped notes: a note joins the last group when it starts where the previous
   untyped note ended (typed notes in between are passed over: prev_end is only set by untyped
   notes).  The groups are the maximal runs of the untyped notes, in order, in which every note
   starts where its predecessor ends *)
Fixpoint untyped_items (i : nat) (ns : list tnote) : list (nat * Z * Z) :=
  match ns with
  | [] => []
  | n :: r => if tn_u n then (i, tn_s n, tn_e n) :: untyped_items (S i) r else untyped_items (S i) r
  end.

Fixpoint runs (l : list (nat * Z * Z)) : list (list (nat * Z * Z)) :=
  match l with
  | [] => []
  | x :: r =>
    match runs r with
    | (y :: g) :: gs => if snd x =? snd (fst y) then (x :: y :: g) :: gs else [x] :: (y :: g) :: gs
    | _ => [[x]]
    end
  end.

Definition untyped_groups (ns : list tnote) : list (list (nat * Z * Z)) := runs (untyped_items 0 ns).

Definition it_idx (x : nat * Z * Z) : nat := fst (fst x).
Definition it_s (x : nat * Z * Z) : Z := snd (fst x).
Definition it_e (x : nat * Z * Z) : Z := snd x.
Definition it_dur (x : nat * Z * Z) : Z := it_e x - it_s x.

Definition all_same_dur (w : list (nat * Z * Z)) : bool :=
  match w with
  | [] => true
  | x :: r => forallb (fun y => it_dur y =? it_dur x) r
  end.

(* the symbolic duration find_tuplets assigns to a window of k notes spanning total divisions:
   the estimate of total // 2 when it has no dots, with actual_notes = k and normal_notes = 2.
   (after the repair: an estimate that is itself a tuplet guess is not a "recognized duration") *)
Definition tuplet_type (div total k : Z) : option symdur :=
  if total mod 2 =? 0 then
    match estimate (total / 2) div with
    | ESome (ty, dots, None) => if dots =? 0 then Some (ty, 0, Some (k, 2)) else None
    | _ => None
    end
  else None.

Definition window_total (w : list (nat * Z * Z)) : Z :=
  match w with [] => 0 | x :: r => it_e (List.last r x) - it_s x end.

(* 3. the sliding window of one tuplet size over one group; fuel = length of the group + 1.
   Result: the assignments made, in order: (positions of the notes, symbolic duration) *)
Definition window_start (w : list (nat * Z * Z)) : Z := match w with [] => 0 | x :: _ => it_s x end.

Fixpoint slide (fuel : nat) (dm : divmap) (k : nat) (g : list (nat * Z * Z)) : list (list nat * symdur) :=
  match fuel with
  | O => []
  | S f =>
    if Nat.ltb (List.length g) k then []
    else
      let w := firstn k g in
      if all_same_dur w then
        match tuplet_type (div_at dm (window_start w)) (window_total w) (Z.of_nat k) with
        | Some sd => (map it_idx w, sd) :: slide f dm k (skipn k g)
        | None => slide f dm k (tl g)
        end
      else slide f dm k (tl g)
  end.

Definition tuplet_sizes : list nat := [9; 7; 5; 3]%nat.

Definition group_assignments (dm : divmap) (g : list (nat * Z * Z)) : list (list nat * symdur) :=
  flat_map (fun k => slide (S (List.length g)) dm k g) tuplet_sizes.

Definition find_tuplets (dm : divmap) (ns : list tnote) : list (list nat * symdur) :=
  flat_map (group_assignments dm) (untyped_groups ns).

(* the symbolic duration note i carries afterwards: the last assignment that names it *)
Definition assigned_to (asg : list (list nat * symdur)) (i : nat) : option symdur :=
  fold_left (fun acc a => if existsb (Nat.eqb i) (fst a) then Some (snd a) else acc) asg None.

(* ---------------------------------------------------------------------- *)
(* slur ends: tie_notes moves the slurs that stop at a note to the last of the pieces the note is
   split into (both stages).  For an input chain the pieces of the result are grouped by the
   input piece they come from *)
Definition tie_pieces_grouped (bars : list Z) (dm : divmap) (ps : list (Z * Z)) : list (list (Z * Z)) :=
  map (fun p => stage2_pieces_dm dm (pieces (fst p) (cuts_in bars (fst p) (snd p)) (snd p))) ps.

(* position, in the output chain, of the piece that carries the slur stops (and the tie to the
   successor) of input piece j, and of the piece that keeps its slur starts *)
Definition slur_stop_pos (bars : list Z) (dm : divmap) (ps : list (Z * Z)) (j : nat) : nat :=
  (List.length (List.concat (firstn (S j) (tie_pieces_grouped bars dm ps))) - 1)%nat.
Definition slur_start_pos (bars : list Z) (dm : divmap) (ps : list (Z * Z)) (j : nat) : nat :=
  List.length (List.concat (firstn j (tie_pieces_grouped bars dm ps))).

(* ---------------------------------------------------------------------- *)
(* composite answers: the pairs / triples of SYM_COMPOSITE_DURS *)
Definition sum_sym (sds : list symdur) (div : Z) : option Q :=
  fold_right (fun sd acc => a <- acc ;; v <- sym_to_num sd div ;; Some (v + a)%Q) (Some 0%Q) sds.

(* estimate_symbolic_duration(d, div, return_com_durations=True): None = any other answer *)
Definition estimate_composite (d div : Z) : option (list symdur) :=
  let qdur := (inject_Z d / inject_Z div)%Q in
  if Qeq_bool qdur 0 then None else
  let i := find_nearest durs qdur in
  if Qltb (Qabs (qdur - qnth durs i)) eps_default then None
  else
    let j := find_nearest composite_durs qdur in
    if Qltb (Qabs (qdur - qnth composite_durs j)) eps_default then nth_error sym_composite j else None.

(* SYM_COMPOSITE_DURS[j] denotes COMPOSITE_DURS[j] (the table holds floating-point sums such as
   1/4 + 1/6: agreement up to 1e-12 of a quarter) *)
Definition tiny : Q := 1 # 1000000000000.
Definition composite_row_ok (c : Q) (sds : list symdur) : bool :=
  match sum_sym sds 1 with
  | Some v => Qle_bool (Qabs (v - c)) tiny
  | None => false
  end.
Definition composite_consistent : bool := forallb2 composite_row_ok composite_durs sym_composite.

(* ---------------------------------------------------------------------- *)
(* boolean checkers for the correspondence *)

(* sanitize_part on grace notes: candidates, sequences, observed per sequence: indices removed (in
   visiting order), whether a member survives, and the main note of the survivors *)
Definition chk_sanitize_graces (c : list cnote * list gseq * list (list Z * bool * option Z)) : bool :=
  let '(notes, seqs, obs) := c in
  forallb2 (fun (m : list Z * option Z) (o : list Z * bool * option Z) =>
              let '(orm, surv, olnk) := o in
              list_eqb Z.eqb (fst m) orm && (negb surv || zopt_eqb (snd m) olnk))
           (sanitize_graces notes seqs) obs.

(* sanitize_part on ties: tolerance, chains before, observed: for every chain before, the pieces of
   the chain that now starts at its head; number of chain heads afterwards *)
Definition chk_sanitize_chains (c : Z * list chain * list (list (Z * Z)) * Z) : bool :=
  let '(tol, cs, obs, nheads) := c in
  forallb2 (fun (ch : chain) (o : list (Z * Z)) =>
              match sanitize_chain tol ch with
              | (_, _, _, ps) :: _ => list_eqb pair_eqb ps o
              | [] => false
              end) cs obs
  && (Z.of_nat (List.length (sanitize_chains tol cs)) =? nheads).

(* find_tuplets: div, notes, observed symbolic duration of every untyped note afterwards *)
Definition chk_find_tuplets (c : divmap * list tnote * list (Z * option symdur)) : bool :=
  let '(dm, ns, obs) := c in
  let asg := find_tuplets dm ns in
  forallb (fun o => match assigned_to asg (Z.to_nat (fst o)), snd o with
                    | None, None => true
                    | Some a, Some b => symdur_eqb a b
                    | _, _ => false
                    end) obs.

(* slur ends after tie_notes: bars, div, pieces of the input chain, observed list of
   (input piece, position of the piece that now carries its slur stops) *)
Definition chk_slur_stops (c : list Z * divmap * list (Z * Z) * list (Z * Z)) : bool :=
  let '(bars, dm, ps, obs) := c in
  forallb (fun o => Z.of_nat (slur_stop_pos bars dm ps (Z.to_nat (fst o))) =? snd o) obs.

(* tie_notes under a divisions map: bars, divisions map, input chains, observed output chains *)
Definition chk_tie_chain_dm (bars : list Z) (dm : divmap) (c : chain) (o : obs_chain) : bool :=
  let '(p, v, st, ps) := c in
  let '(p', v', st', ops) := o in
  (p =? p') && (v =? v') && (st =? st')
  && forallb2 (fun (m : Z * Z * est) (x : Z * Z * option symdur) =>
                 pair_eqb (fst m) (fst x) && est_matches (snd m) (snd x))
              (tie_pieces_sym_dm bars dm ps) ops.

Definition chk_tie_dm (c : list Z * divmap * list chain * list obs_chain) : bool :=
  let '(bars, dm, cs, os) := c in forallb2 (chk_tie_chain_dm bars dm) cs os.

(* composite answers: d, div, observed tuple (None = not a tuple) *)
Definition chk_composite (c : Z * Z * option (list symdur)) : bool :=
  let '(d, div, obs) := c in
  match estimate_composite d div, obs with
  | None, None => true
  | Some a, Some b => list_eqb symdur_eqb a b
  | _, _ => false
  end.
