(* C04 -- round j: the time-signature branch of save_score_midi under anacrusis_behavior="time_sig_change"
   (partitura/io/exportmidi.py), as the code does it: meta_events[part] is an insertion-ordered dict
   tick -> list of messages;
     loop 1 over the measures: a measure whose length in beats differs from the beats of the signature in
            force at its start gets a fitted signature at its start tick, its start is recorded in
            ts_changing_time and fitted_measure_time, and the original signature is restored at its end
            tick unless ts_changing_time holds the end time;
     loop 2 (clean-up): every tick holding exactly two entries keeps the second one only;
     loop 3 over the part's TimeSignature objects: appended at their tick unless the time is a fitted one;
     then the key signatures are appended to the same dict;
   the dicts of the parts that have notes in a track are merged into the track (events[tr][t] = me +
   events[tr][t], so a later part comes first inside a tick), ticks ascending.
   Definitions only.  `variant` 0 is the code; 1-4 are the slips the theorems are shown to reject. *)
From PV Require Import Lib.Base Model.C04 Model.C04_stream.
From Coq Require Import ZArith List QArith Qround Bool.
Import ListNotations.
#[local] Open Scope Z_scope.

Definition sigm := (Z * Z * Z)%type.              (* kind (2 time signature | 3 key signature), a, b *)
Definition mdict := list (Z * list sigm).         (* defaultdict(list), keys in insertion order *)

Fixpoint d_get (d : mdict) (k : Z) : list sigm :=
  match d with [] => [] | (k', v) :: r => if k =? k' then v else d_get r k end.

(* d[k].append(x): a missing key is created at the end *)
Fixpoint d_append (d : mdict) (k : Z) (x : sigm) : mdict :=
  match d with
  | [] => [(k, [x])]
  | (k', v) :: r => if k =? k' then (k', v ++ [x]) :: r else (k', v) :: d_append r k x
  end.

(* time_signature_map(t): interp1d kind="previous", the first signature before the first one, 4/4 without any *)
Fixpoint ts_prev (cur : Z * Z) (tsigs : list (Z * Z * Z)) (t : Z) : Z * Z :=
  match tsigs with
  | [] => cur
  | (t', b, bt) :: r => if t' <=? t then ts_prev (b, bt) r t else cur
  end.
Definition ts_at (tsigs : list (Z * Z * Z)) (t : Z) : Z * Z :=
  match tsigs with [] => (4, 4) | (_, b, bt) :: _ => ts_prev (b, bt) tsigs t end.

(* int(x) of a float: truncation towards zero *)
Definition qtrunc (x : Q) : Z := if Qle_bool 0 x then Qfloor x else - Qfloor (- x).

Definition measure := (Z * Z * Q)%type.           (* start, end, beat_map(end) - beat_map(start) *)
Definition tsc_state := (mdict * list Z * list Z)%type.   (* meta_events[part], ts_changing_time, fitted_measure_time *)

Definition tsc_measure (variant : Z) (tk : Z -> Z) (tsigs : list (Z * Z * Z)) (st : tsc_state) (m : measure) : tsc_state :=
  let '(d, tct, fitted) := st in
  let '(s, e, nb) := m in
  let '(b, bt) := ts_at tsigs s in
  if Qeq_bool nb (inject_Z b) then st
  else
    let d1 := d_append d (tk s) (2, qtrunc nb, bt) in
    let tct1 := tct ++ [s] in
    let d2 := if (negb (variant =? 3)) && existsb (Z.eqb e) tct1 then d1 else d_append d1 (tk e) (2, b, bt) in
    (d2, tct1, fitted ++ [s]).

Definition tsc_cleanup (variant : Z) (d : mdict) : mdict :=
  map (fun kv => (fst kv, if (List.length (snd kv) =? 2)%nat
                          then (if variant =? 2 then firstn 1 (snd kv) else tl (snd kv)) else snd kv)) d.

Definition tsc_own (tk : Z -> Z) (fitted : list Z) (d : mdict) (ts : Z * Z * Z) : mdict :=
  let '(t, b, bt) := ts in if existsb (Z.eqb t) fitted then d else d_append d (tk t) (2, b, bt).

Definition tsc_keys (tk : Z -> Z) (d : mdict) (ks : Z * Z) : mdict := d_append d (tk (fst ks)) (3, snd ks, 0).

(* meta_events[part] when the loop over the parts has finished with this part *)
Definition tsc_dict (variant : Z) (tk : Z -> Z) (tsigs : list (Z * Z * Z)) (ksigs : list (Z * Z)) (ms : list measure) : mdict :=
  let '(d, tct, fitted0) := fold_left (tsc_measure variant tk tsigs) ms ([], map (fun x => fst (fst x)) tsigs, []) in
  let fitted := if variant =? 4 then tct else fitted0 in
  if variant =? 1
  then fold_left (tsc_own tk fitted) tsigs (tsc_cleanup variant (fold_left (tsc_keys tk) ksigs d))
  else fold_left (tsc_keys tk) ksigs (fold_left (tsc_own tk fitted) tsigs (tsc_cleanup variant d)).

(* the signatures of a track, in written order: ds = the dicts of the parts holding notes of the track, in
   the order of the parts; ticks ascending, inside a tick the later part first *)
Definition track_meta_seq (ds : list mdict) : list (Z * sigm) :=
  flat_map (fun t => map (fun x => (t, x)) (flat_map (fun d => d_get d t) (rev ds)))
           (usort (flat_map (map fst) ds)).

(* what a reader of the track holds as the time signature at tick T: the last one written at a tick <= T *)
Definition in_force (sq : list (Z * sigm)) (T : Z) : option (Z * Z) :=
  fold_left (fun acc x => let '(t, (k, a, b)) := x in if (t <=? T) && (k =? 2) then Some (a, b) else acc) sq None.

(* what the property asks for at the start of a measure: the score's signature when the measure has its
   nominal length, the fitted one (same beat type) otherwise *)
Definition tsc_expected (tsigs : list (Z * Z * Z)) (m : measure) : Z * Z :=
  let '(s, _, nb) := m in let '(b, bt) := ts_at tsigs s in
  if Qeq_bool nb (inject_Z b) then (b, bt) else (qtrunc nb, bt).

Definition tsig_ticks (sq : list (Z * sigm)) : list Z :=
  map fst (filter (fun x => let '(_, (k, _, _)) := x in k =? 2) sq).

Fixpoint z_nodup (l : list Z) : bool :=
  match l with [] => true | x :: r => negb (existsb (Z.eqb x) r) && z_nodup r end.

Definition pair_eqb (x y : Z * Z) : bool := (fst x =? fst y) && (snd x =? snd y).

(* the clause, decidable: at the start tick of every measure the expected signature is in force, and no tick
   carries two time signatures *)
Definition tsc_ok (variant : Z) (tk : Z -> Z) (tsigs : list (Z * Z * Z)) (ksigs : list (Z * Z)) (ms : list measure) : bool :=
  let sq := track_meta_seq [tsc_dict variant tk tsigs ksigs ms] in
  forallb (fun m => match in_force sq (tk (fst (fst m))) with
                    | Some x => pair_eqb x (tsc_expected tsigs m) | None => false end) ms
  && z_nodup (tsig_ticks sq).

(* ---- a complete finite domain of measure grids: a grid is a list of (length of the measure in beats, new
   time signature at its start: 0 none | 1 = 3/4 | 2 = 4/4 | 3 = 3/8); timeline unit = one eighth *)
Definition sym := (Z * Z)%type.
Definition sym_ts (c : Z) : option (Z * Z) :=
  if c =? 1 then Some (3, 4) else if c =? 2 then Some (4, 4) else if c =? 3 then Some (3, 8) else None.

Fixpoint grid_build (t : Z) (cur : Z * Z) (g : list sym) : list (Z * Z * Z) * list measure :=
  match g with
  | [] => ([], [])
  | (nb, c) :: r =>
      let cur' := match sym_ts c with Some x => x | None => cur end in
      let e := t + nb * (8 / snd cur') in
      let '(ts, ms) := grid_build e cur' r in
      ((match sym_ts c with Some (b, bt) => [(t, b, bt)] | None => [] end) ++ ts, (t, e, inject_Z nb) :: ms)
  end.

Definition syms (first : bool) : list sym :=
  flat_map (fun nb => map (fun c => (nb, c)) (if first then [1; 2; 3] else [0; 1; 2; 3])) [2; 3; 4].

Fixpoint grids_tail (n : nat) : list (list sym) :=
  match n with
  | O => [[]]
  | S k => [] :: flat_map (fun g => map (fun s => s :: g) (syms false)) (grids_tail k)
  end.
(* all grids of 1 .. n measures; the first measure carries a time signature *)
Definition grids (n : nat) : list (list sym) :=
  match n with O => [] | S k => flat_map (fun g => map (fun s => s :: g) (syms true)) (grids_tail k) end.

Definition grid_ok (variant : Z) (tk : Z -> Z) (ksigs : list (Z * Z)) (g : list sym) : bool :=
  let '(ts, ms) := grid_build 0 (4, 4) g in tsc_ok variant tk ts ksigs ms.

(* the tick map and the key signatures of the finite-domain theorem *)
Definition tk3 (t : Z) : Z := 3 * t + 1.
Definition ks0 : list (Z * Z) := [(0, 5); (8, 7)].

(* a measure that does not have its nominal length (the test of the measure loop) *)
Definition irregular (tsigs : list (Z * Z * Z)) (m : measure) : bool :=
  let '(s, _, nb) := m in negb (Qeq_bool nb (inject_Z (fst (ts_at tsigs s)))).

(* ---- correspondence: the key / time signature messages of every written track, in written order *)
Definition mbeats (qd : list (Z * Z)) (bt s e : Z) : Q :=
  ((qraw qd e - qraw qd s) * inject_Z bt / 4)%Q.

Definition part_measures (p : part) (se : list (Z * Z)) : list measure :=
  map (fun m => (fst m, snd m, mbeats (p_qd p) (snd (ts_at (p_tsigs p) (fst m))) (fst m) (snd m))) se.

Definition part_dict (an ppq : Z) (ps : list part) (pm : part * list (Z * Z)) : mdict :=
  let p := fst pm in
  tsc_dict 0 (tick ppq (ftp an ps) p) (p_tsigs p) (p_ksigs p) (part_measures p (snd pm)).

Definition track_sig_msgs (tr : list msg) : list (Z * sigm) :=
  map (fun m => let '(t, k, a, b, _) := m in (t, (k, a, b)))
      (filter (fun m => (m_kind m =? 2) || (m_kind m =? 3)) (absolute tr)).

Definition sigm_eqb (x y : Z * sigm) : bool :=
  let '(t, (k, a, b)) := x in let '(t', (k', a', b')) := y in (t =? t') && (k =? k') && (a =? a') && (b =? b').

Fixpoint list_eqb {A} (eqb : A -> A -> bool) (x y : list A) : bool :=
  match x, y with
  | [], [] => true
  | a :: r, b :: s => eqb a b && list_eqb eqb r s
  | _, _ => false
  end.

(* multiset equality by removal: the order of the signature messages inside the sequence is left to check_stream
   (tick sequence) -- at one tick a reader does not depend on it as long as no tick holds two time signatures *)
Fixpoint sig_remove (x : Z * sigm) (l : list (Z * sigm)) : option (list (Z * sigm)) :=
  match l with
  | [] => None
  | y :: r => if sigm_eqb x y then Some r else match sig_remove x r with Some r' => Some (y :: r') | None => None end
  end.
Fixpoint sig_ms_eqb (x y : list (Z * sigm)) : bool :=
  match x with
  | [] => match y with [] => true | _ => false end
  | a :: r => match sig_remove a y with Some y' => sig_ms_eqb r y' | None => false end
  end.

(* an = 1 only; meas = per part the (start, end) of its Measure objects *)
Definition check_tsc (mode an ppq : Z) (ps : list part) (meas : list (list (Z * Z))) (trs : list (list msg)) : bool :=
  if negb (an =? 1) then true else
  let keys := all_keys ps in
  let pms := combine ps meas in
  (List.length meas =? List.length ps)%nat &&
  forallb (fun itr =>
             let ds := map (part_dict an ppq ps)
                           (filter (fun pm => existsb (Z.eqb (fst itr)) (part_tracks mode keys (fst pm))) pms) in
             sig_ms_eqb (track_sig_msgs (snd itr)) (track_meta_seq ds))
          (indexed 0 trs).
