(* C13 -- further executable definitions around Model.C13 (no proofs; proofs are in Proofs/C13_api.v):
   the sparse-matrix assembly of scipy (entries with equal positions are ADDED), the priority order
   behind get_time_units_from_note_array, the drum filter as a function of its own, and checkers that
   feed these definitions through the correspondence run of harness/props/c13.py. *)
From PV Require Import Lib.Base Lib.Round Model.C13.
From Coq Require Import QArith Qround.
#[local] Open Scope Z_scope.

(* scipy.sparse.csc_matrix((data, (row, col)), shape=(M, N), dtype=int): the value of a position is the
   SUM of all entries handed over for it (this is why _make_pianoroll merges colliding notes in a
   dictionary first) *)
Definition sparse_sum (m : list cell) (r c : Z) : Z :=
  fold_left Z.add
    (map (fun x : cell => let '(r', c', v) := x in if (r =? r') && (c =? c') then v else 0) m) 0.

(* dense comparison as Model.C13.dense_matches, but reading the model's stored cells the way the sparse
   constructor assembles them *)
Definition dense_matches_sum (cells : list cell) (runs : list obs_run) : bool :=
  forallb (fun x : obs_run => let '(r, a, b, v) := x in
             negb (v =? 0) && forallb (fun c => sparse_sum cells r c =? v) (zrange a (Z.to_nat (b - a)))) runs
  && forallb (fun x : cell => let '(r, c, _) := x in
             let v := sparse_sum cells r c in
             (v =? 0) || existsb (fun y : obs_run => let '(r', a, b, v') := y in
                                    (r =? r') && (a <=? c) && (c <? b) && (v =? v')) runs) cells.

(* positions of the stored cells are pairwise different (decidable form of NoDup) *)
Fixpoint distinct_positions (m : list cell) : bool :=
  match m with
  | [] => true
  | (r, c, _) :: t => negb (existsb (fun y : cell => let '(r', c', _) := y in (r =? r') && (c =? c')) t)
                      && distinct_positions t
  end.

Definition check_pianoroll_asm (x : copts * narr * obs_roll) : bool :=
  let '(c, a, ob) := x in
  match compute_pianoroll c a, ob with
  | None, None => true
  | Some r, Some (rows, cols, runs, oidx) =>
      (r_rows r =? rows) && (r_cols r =? cols) && dense_matches_sum (r_cells r) runs
      && distinct_positions (r_cells r)
      && match oidx with None => true | Some l => list_eqb idxrow_eqb (r_idx r) l end
  | _, _ => false
  end.

(* get_time_units_from_note_array: the unit found is the one of least rank among those present *)
Definition unit_rank (u : tunit) : Z :=
  match u with UBeat => 0 | UQuarter => 1 | UDiv => 2 | USec => 3 | UTick => 4 end.

(* the drum filter of compute_pianoroll *)
Definition not_drum (r : arow) : bool := let '(_, _, _, ch) := r in negb (ch =? 9).

(* compute_pianoroll followed by pianoroll_to_notearray at the same resolution (what the last clause of
   the property speaks about), with the code's own decoder (the column scan) *)
Definition resolved_div (c : copts) (a : narr) : option Z :=
  match resolve_unit a (c_time_unit c) with
  | None => None
  | Some u => Some (match c_time_div c with Some d => d | None => auto_div u end)
  end.

Definition roundtrip (c : copts) (a : narr) : option (list (Z * Q * Q * Z)) :=
  match compute_pianoroll c a, resolved_div c a with
  | Some R, Some td => pianoroll_to_notearray_scan (r_rows R) (r_cols R) (r_cells R) td
  | _, _ => None
  end.

Definition check_roundtrip_api (x : copts * narr * option (list (Z * Q * Q * Z))) : bool :=
  let '(c, a, ob) := x in
  match roundtrip c a, ob with
  | Some l, Some l' => perm_eqb qnote_eqb l l'
  | None, None => true
  | _, _ => false
  end.
