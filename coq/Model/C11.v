(* C11 -- executable model of partitura's notation normalisation:
     score.add_measures, score.tie_notes (both stages), score.split_note,
     utils.music.estimate_symbolic_duration / symbolic_to_numeric_duration /
     order_splits / find_smallest_unit / find_tie_split, utils.generic.find_nearest /
     search.
   Definitions only; proofs are in Proofs/C11*.v.  The duration tables come from
   Gen/C11_Tables.v (reflected from partitura/utils/globals.py on every run; floats
   are the exact rationals they denote).  The model follows the code as it is after
   the repairs recorded in findings.d/C11.json. *)
From PV Require Import Lib.Base Lib.Round Gen.C11_Tables.
From Coq Require Import QArith Qabs Qround Qminmax.
#[local] Open Scope Z_scope.

(* ---------------------------------------------------------------------- *)
(* bounded iteration: [iter2 k step x] runs [step] at most 2^k times; [inl] = still
   running (out of fuel), [inr] = finished *)
Fixpoint iter2 {X R : Type} (k : nat) (step : X -> X + R) (x : X) : X + R :=
  match k with
  | O => step x
  | S k' => match iter2 k' step x with
            | inl x' => iter2 k' step x'
            | inr r => inr r
            end
  end.

Definition fin {X R} (o : X + R) : option R := match o with inr r => Some r | inl _ => None end.

(* ---------------------------------------------------------------------- *)
(* symbolic durations: type, dots, optional (actual_notes, normal_notes) *)
Definition symdur := (string * Z * option (Z * Z))%type.

Definition Qltb (a b : Q) : bool := negb (Qle_bool b a).
Definition qnth (xs : list Q) (i : nat) : Q := nth i xs 0%Q.

(* np.searchsorted(xs, v, side="left") on a sorted array *)
Definition count_lt (xs : list Q) (v : Q) : nat := List.length (filter (fun x => Qltb x v) xs).

(* utils.generic.find_nearest *)
Definition find_nearest (xs : list Q) (v : Q) : nat :=
  let idx := count_lt xs v in
  match idx with
  | O => O
  | S p => if Nat.eqb idx (List.length xs)
              || Qle_bool (Qabs (v - qnth xs p)) (Qabs (v - qnth xs idx))
           then p else idx
  end.

(* symbolic_to_numeric_duration *)
Definition sym_to_num (sd : symdur) (div : Z) : option Q :=
  let '(ty, dots, tup) := sd in
  lab <- slookup ty label_durs ;;
  dm <- nth_error dot_multipliers (Z.to_nat dots) ;;
  let '(a, n) := match tup with Some (a, n) => (a, n) | None => (0, 0) end in
  let nn := if n =? 0 then 1 else n in
  let aa := if a =? 0 then 1 else a in
  Some (inject_Z div * lab * dm * (inject_Z nn / inject_Z aa))%Q.

(* the tuplet guess loop of estimate_symbolic_duration (after the repair: the quotient
   must be within eps of the nearest integer, which is taken as actual_notes) *)
Definition near_int (eps r : Q) : bool :=
  Qle_bool (Qabs (r - inject_Z (round_half_even r))) eps.

Definition tuplet_step (eps s qdur : Q) (n : Z) : Z + (Z * Z) :=
  let r := (inject_Z n * s / qdur)%Q in
  if near_int eps r then inr (round_half_even r, n) else inl (n + 1).

Definition tuplet_fuel : nat := 20.

(* outcome of the estimator: out of fuel / reports none ({} in Python) / a value *)
Inductive est := EFuel | ENone | ESome (sd : symdur).

Definition sym_of_table (i : nat) : est :=
  match nth_error sym_durs i with Some (ty, dots) => ESome (ty, dots, None) | None => ENone end.

Definition estimate_q (eps qdur : Q) : est :=
  if Qeq_bool qdur 0 then ENone else
  let i := find_nearest durs qdur in
  if Qltb (Qabs (qdur - qnth durs i)) eps then sym_of_table i
  else
    let j := find_nearest composite_durs qdur in
    if Qltb (Qabs (qdur - qnth composite_durs j)) eps then ENone
    else if Qltb 4 qdur then ENone
    else
      let k := count_lt straight_durs qdur in
      match iter2 tuplet_fuel (tuplet_step eps (qnth straight_durs k) qdur) 2 with
      | inr (a, n) => ESome (nth k sym_straight ""%string, 0, Some (a, n))
      | inl _ => EFuel
      end.

Definition estimate (d div : Z) : est := estimate_q eps_default (inject_Z d / inject_Z div)%Q.

Definition has_sym (e : est) : bool := match e with ESome _ => true | _ => false end.

(* which branch produced the value: 1 = table hit, 2 = tuplet guess *)
Definition table_index (qdur : Q) : nat := find_nearest durs qdur.
Definition straight_index (qdur : Q) : nat := count_lt straight_durs qdur.

(* ---------------------------------------------------------------------- *)
(* find_smallest_unit, order_splits, find_tie_split *)

Definition unit_step (u : Z) : Z + Z := if (0 <? u) && (u mod 2 =? 0) then inl (u / 2) else inr u.
Definition find_smallest_unit (divs : Z) : option Z := fin (iter2 7 unit_step divs).

(* np.arange(2b*(1+(s+b)//(2b)), e+b, 2b) - b : the odd multiples of b in (s, e) *)
Definition level_splits (s e b : Z) : list Z :=
  let x0 := 2 * b * (1 + (s + b) / (2 * b)) - b in
  if x0 <? e then map (fun k => x0 + 2 * b * k) (zrange 0 (Z.to_nat ((e - x0 + 2 * b - 1) / (2 * b))))
  else [].

Fixpoint order_splits_aux (fuel : nat) (s e b : Z) (acc : list Z) : list Z :=
  match fuel with
  | O => acc
  | S f => if (b * (1 + s / b) <? e) && (s <? b * (e / b))
           then order_splits_aux f s e (2 * b) (level_splits s e b ++ acc)
           else acc
  end.

Definition order_splits (s e unit : Z) : list Z := order_splits_aux 64 s e unit [].

(* consecutive pairs of s :: cuts ++ [e] *)
Fixpoint pieces (s : Z) (cuts : list Z) (e : Z) : list (Z * Z) :=
  match cuts with
  | [] => [(s, e)]
  | c :: r => (s, c) :: pieces c r e
  end.

Definition success (div s e : Z) (state : list Z) : bool :=
  forallb (fun p => has_sym (estimate (snd p - fst p) div)) (pieces s state e).

Definition max_splits : nat := 3.

Definition expand (s e unit : Z) (state : list Z) : list (list Z) :=
  if Nat.leb max_splits (List.length state) then []
  else
    let split_start := last state s in
    filter (fun st => ((hd 0 st - s) mod unit =? 0) && ((e - last st 0) mod unit =? 0))
           (map (fun x => state ++ [x]) (order_splits split_start e unit)).

(* utils.generic.search with combine = old ++ new (breadth first) *)
Definition search_step (div s e unit : Z) (queue : list (list Z)) : list (list Z) + option (list Z) :=
  match queue with
  | [] => inr None
  | st :: rest => if success div s e st then inr (Some st) else inl (rest ++ expand s e unit st)
  end.

Definition search_fuel : nat := 22.

(* None = out of fuel; Some None = no solution; Some (Some cuts) = the split points *)
Definition find_tie_split (s e div : Z) : option (option (list Z)) :=
  match find_smallest_unit div with
  | None => None
  | Some unit => fin (iter2 search_fuel (search_step div s e unit) [[]])
  end.

(* ---------------------------------------------------------------------- *)
(* tie_notes on tie chains.  A chain is one sounding note: pitch, voice, staff and the
   list of its notated pieces (start, end) in tie order.  An untied note is a chain of
   one piece, a note that already has tie_next a chain of several. *)
Definition chain := (Z * Z * Z * list (Z * Z))%type.

(* stage 1: split every piece at the measure starts strictly inside it *)
Definition cuts_in (bars : list Z) (s e : Z) : list Z := filter (fun m => (s <? m) && (m <? e)) bars.
Definition stage1_pieces (bars : list Z) (ps : list (Z * Z)) : list (Z * Z) :=
  flat_map (fun p => pieces (fst p) (cuts_in bars (fst p) (snd p)) (snd p)) ps.

(* stage 2: split every piece without a symbolic duration where find_tie_split succeeds *)
Definition stage2_piece (div : Z) (p : Z * Z) : list (Z * Z) :=
  match estimate (snd p - fst p) div with
  | ENone => match find_tie_split (fst p) (snd p) div with
             | Some (Some cuts) => pieces (fst p) cuts (snd p)
             | _ => [p]
             end
  | _ => [p]
  end.
Definition stage2_pieces (div : Z) (ps : list (Z * Z)) : list (Z * Z) := flat_map (stage2_piece div) ps.

Definition tie_pieces (bars : list Z) (div : Z) (ps : list (Z * Z)) : list (Z * Z) :=
  stage2_pieces div (stage1_pieces bars ps).

Definition tie_chain (bars : list Z) (div : Z) (c : chain) : chain :=
  let '(p, v, st, ps) := c in (p, v, st, tie_pieces bars div ps).

(* what sounds: onset of the first piece and the summed duration (note_array's
   onset_div / duration_div of a tie chain), with pitch, voice, staff *)
Definition total_dur (ps : list (Z * Z)) : Z := fold_right (fun p a => (snd p - fst p) + a) 0 ps.
Definition onset_of (ps : list (Z * Z)) : Z := match ps with [] => 0 | p :: _ => fst p end.
Definition sounding (c : chain) : Z * Z * Z * Z * Z :=
  let '(p, v, st, ps) := c in (p, v, st, onset_of ps, total_dur ps).

(* the symbolic duration every note carries afterwards *)
Definition piece_sym (div : Z) (p : Z * Z) : est := estimate (snd p - fst p) div.

(* ---------------------------------------------------------------------- *)
(* add_measures *)

(* a measure in the result: start, end, number, and whether it existed before *)
Definition meas := (Z * Z * Z * bool)%type.
Definition m_start (m : meas) : Z := let '(s, _, _, _) := m in s.
Definition m_end (m : meas) : Z := let '(_, e, _, _) := m in e.
Definition m_num (m : meas) : Z := let '(_, _, n, _) := m in n.
Definition m_old (m : meas) : bool := let '(_, _, _, o) := m in o.

(* bar length in divisions of a signature beats/beat_type (exact rational) *)
Definition barlen (div beats beat_type : Z) : Q := (inject_Z (beats * 4 * div) / inject_Z beat_type)%Q.

(* the time-signature stretches (start, end, bar length) exactly as add_measures builds
   them: a 4/4 stretch is put in front when the first signature comes after the first
   point, a signature at (or after) the last point is dropped, the last stretch ends at
   the last point *)
Definition ts_rows (tsigs : list (Z * Z * Z)) (first : Z) : list (Z * Z * Z) :=
  match tsigs with
  | [] => []
  | (t, _, _) :: _ => if first <? t then (first, 4, 4) :: tsigs else tsigs
  end.

Fixpoint drop_last_if {A} (p : A -> bool) (l : list A) : list A :=
  match l with
  | [] => []
  | x :: r => match r with
              | [] => if p x then [] else [x]
              | _ :: _ => x :: drop_last_if p r
              end
  end.

(* is the last element of l below v (true for the empty list)? *)
Fixpoint last_lt (l : list Z) (v : Z) : bool :=
  match l with
  | [] => true
  | x :: r => match r with [] => x <? v | _ :: _ => last_lt r v end
  end.

Definition row_t (r : Z * Z * Z) : Z := fst (fst r).

Fixpoint zip_stretches (div : Z) (rows : list (Z * Z * Z)) (ends : list Z) : list (Z * Z * Q) :=
  match rows, ends with
  | (t, b, bt) :: rows', e :: ends' => (t, e, barlen div b bt) :: zip_stretches div rows' ends'
  | _, _ => []
  end.

Definition stretches (div : Z) (tsigs : list (Z * Z * Z)) (first last : Z) : list (Z * Z * Q) :=
  let rows := drop_last_if (fun r => last <=? row_t r) (ts_rows tsigs first) in
  let ends0 := map row_t (tl rows) in
  let ends := if last_lt ends0 last then ends0 ++ [last] else ends0 in
  zip_stretches div rows ends.

(* first existing measure (in time order) that starts in [lo, hi) *)
Definition first_in (ex : list (Z * Z)) (lo hi : Z) : option (Z * Z) :=
  find (fun m => (lo <=? fst m) && (fst m <? hi)) ex.

(* where a full bar starting at pos ends: nearest division to pos + bar length (not
   beyond the last point), at least one division *)
Definition full_end (bl : Q) (last pos : Z) : Z :=
  Z.max (round_half_even (Qmin (inject_Z pos + bl) (inject_Z last))) (pos + 1).

Fixpoint fill (fuel : nat) (ex : list (Z * Z)) (bl : Q) (last ts_end pos cnt : Z) : option (list meas * Z) :=
  match fuel with
  | O => None
  | S f =>
    if ts_end <=? pos then Some ([], cnt)
    else
      let mend := Z.min ts_end (full_end bl last pos) in
      match first_in ex pos mend with
      | Some (s, e) =>
        if s =? pos then
          r <- fill f ex bl last ts_end e (cnt + 1) ;;
          Some ((s, e, cnt, true) :: fst r, snd r)
        else
          r <- fill f ex bl last ts_end e (cnt + 2) ;;
          Some ((pos, s, cnt, false) :: (s, e, cnt + 1, true) :: fst r, snd r)
      | None =>
        r <- fill f ex bl last ts_end mend (cnt + 1) ;;
        Some ((pos, mend, cnt, false) :: fst r, snd r)
      end
  end.

(* end of the last measure of a list (d for the empty list) *)
Definition last_end_m (ms : list meas) (d : Z) : Z :=
  match ms with [] => d | m :: r => m_end (List.last r m) end.

(* the position is carried from one signature's stretch to the next: an existing measure that
   runs across a signature change is not covered a second time *)
Fixpoint fill_all (ex : list (Z * Z)) (last : Z) (ss : list (Z * Z * Q)) (cnt pos : Z) : option (list meas) :=
  match ss with
  | [] => Some []
  | (a, b, bl) :: ss' =>
    let p0 := Z.max a pos in
    r <- fill (S (Z.to_nat (b - p0))) ex bl last b p0 cnt ;;
    r' <- fill_all ex last ss' (snd r) (last_end_m (fst r) p0) ;;
    Some (fst r ++ r')
  end.

(* existing measures are given in time order; the result lists every measure the loop
   met or made, in the order it did *)
Definition add_measures (div : Z) (tsigs : list (Z * Z * Z)) (first last : Z) (ex : list (Z * Z))
  : option (list meas) :=
  match tsigs with
  | [] => Some (map (fun m => (fst m, snd m, 0, true)) ex)   (* warning, nothing added *)
  | _ => if first =? last then Some (map (fun m => (fst m, snd m, 0, true)) ex)
         else fill_all ex last (stretches div tsigs first last) 1 first
  end.

(* ---------------------------------------------------------------------- *)
(* boolean checkers for the correspondence (case literals are printed by the harness) *)

Definition pair_eqb (a b : Z * Z) : bool := (fst a =? fst b) && (snd a =? snd b).
Definition tup_eqb (a b : option (Z * Z)) : bool :=
  match a, b with
  | Some x, Some y => pair_eqb x y
  | None, None => true
  | _, _ => false
  end.
Definition symdur_eqb (a b : symdur) : bool :=
  let '(t1, d1, u1) := a in let '(t2, d2, u2) := b in
  String.eqb t1 t2 && (d1 =? d2) && tup_eqb u1 u2.

(* observed symbolic duration: None = {} / None in Python *)
Definition est_matches (e : est) (obs : option symdur) : bool :=
  match e, obs with
  | ENone, None => true
  | ESome a, Some b => symdur_eqb a b
  | _, _ => false
  end.

(* estimator case: (d, div, observed) *)
Definition chk_estimate (c : Z * Z * option symdur) : bool :=
  let '(d, div, obs) := c in est_matches (estimate d div) obs.

(* O4 on an observed estimator row, independent of the model: 0 = reports none,
   1 = converts back exactly, 2 = inexact table hit STRICTLY within 1/1000 quarter of the table value it names
   (the documented eps; known finding K1), 5 = inexact table hit at a distance of EXACTLY 1/1000 quarter (the
   float subtraction decides; K6), 3 = inexact tuplet guess whose quotient is within 1/1000 (+1e-9) of
   actual_notes, 4 = anything else (a violation) -- in particular a table hit further away than 1/1000 *)
Definition thousandth : Q := 1 # 1000.
Definition table_value (sd : symdur) : option Q :=
  let '(ty, dots, tup) := sd in
  match tup with
  | Some _ => None
  | None => lab <- slookup ty label_durs ;; dm <- nth_error dot_multipliers (Z.to_nat dots) ;; Some (lab * dm)%Q
  end.
Definition classify_row (d div : Z) (obs : option symdur) : Z :=
  match obs with
  | None => 0
  | Some sd =>
    match sym_to_num sd div with
    | None => 4
    | Some v =>
      if Qeq_bool v (inject_Z d) then 1
      else
        let qdur := (inject_Z d / inject_Z div)%Q in
        match sd with
        | (ty, dots, None) =>
          match table_value sd with
          | Some tv => if Qle_bool thousandth (Qabs (qdur - tv))
                       then (if Qle_bool (Qabs (qdur - tv)) thousandth then 5 else 4)
                       else 2
          | None => 4
          end
        | (ty, dots, Some (a, n)) =>
          match slookup ty label_durs with
          | Some lab =>
            if (dots =? 0) && (0 <? a) && (0 <? n)
               && Qle_bool (Qabs (inject_Z n * lab / qdur - inject_Z a)) (thousandth + (1 # 1000000000))
            then 3 else 4
          | None => 4
          end
        end
    end
  end.

Definition chk_row_o4 (c : Z * Z * option symdur) : bool :=
  let '(d, div, obs) := c in negb (classify_row d div obs =? 4).


(* compact rows of the T2 sweep (the literal size dominates coqc's time on the case files):
     0 = skip marker (the row has the answer of its reduced fraction and is judged there),
     1 = reports none,
     c >= 2: c-2 = ti + 16*(dots + 4*(t + 4*n)), ti = index into the keys of LABEL_DURS;
             t = 0: no tuplet; t = 1,2,3: normal_notes = n and actual_notes = a' + (t-2) with
             a' = round_half_even (n * LABEL_DURS[type] / (d/div)),
     c < 0 : escape, -c = 1 + ti + 16*(dots + 4*(actual + 2^26*normal)), ti = 15: not a key *)
Definition decode_sd (c : Z) : option symdur :=
  if c =? 0 then None
  else
    let c1 := c - 1 in
    let ty := nth (Z.to_nat (c1 mod 16)) (map fst label_durs) ""%string in
    let c2 := c1 / 16 in
    let dots := c2 mod 4 in
    let c3 := c2 / 4 in
    let a := c3 mod 67108864 in
    let n := c3 / 67108864 in
    Some (ty, dots, if (a =? 0) && (n =? 0) then None else Some (a, n)).

(* None = skip marker; Some obs = the observed answer *)
Definition decode_row (d div c : Z) : option (option symdur) :=
  if c =? 0 then None
  else if c =? 1 then Some None
  else if c <? 0 then Some (decode_sd (- c))
  else
    let c2 := c - 2 in
    let ty := nth (Z.to_nat (c2 mod 16)) (map fst label_durs) ""%string in
    let dots := (c2 / 16) mod 4 in
    let t := (c2 / 64) mod 4 in
    let n := c2 / 256 in
    if t =? 0 then Some (Some (ty, dots, None))
    else
      match slookup ty label_durs with
      | Some lab =>
        let a' := round_half_even (inject_Z n * lab / (inject_Z d / inject_Z div))%Q in
        Some (Some (ty, dots, Some (a' + t - 2, n)))
      | None => Some (Some (ty, dots, Some (0, n)))
      end.

(* all durations d, d+1, ... of one divisions value *)
Fixpoint sweep_o4_from (d div : Z) (codes : list Z) : bool :=
  match codes with
  | [] => true
  | c :: r => match decode_row d div c with
              | None => true
              | Some obs => negb (classify_row d div obs =? 4)
              end && sweep_o4_from (d + 1) div r
  end.
Definition chk_sweep_o4 (c : Z * list Z) : bool := sweep_o4_from 1 (fst c) (snd c).

(* explicit rows (d, code) of one divisions value, judged as the sweep rows are *)
Definition chk_rows_o4 (c : Z * list (Z * Z)) : bool :=
  forallb (fun row => match decode_row (fst row) (fst c) (snd row) with
                      | Some obs => negb (classify_row (fst row) (fst c) obs =? 4)
                      | None => false
                      end) (snd c).

Definition chk_sweep_model (c : Z * list (Z * Z)) : bool :=
  forallb (fun row => match decode_row (fst row) (fst c) (snd row) with
                      | Some obs => est_matches (estimate (fst row) (fst c)) obs
                      | None => false
                      end) (snd c).

(* order_splits / find_tie_split cases *)
Definition chk_order_splits (c : Z * Z * Z * list Z) : bool :=
  let '(s, e, u, obs) := c in list_eqb Z.eqb (order_splits s e u) obs.

Definition chk_find_tie_split (c : Z * Z * Z * option (list Z)) : bool :=
  let '(s, e, div, obs) := c in
  match find_tie_split s e div, obs with
  | Some None, None => true
  | Some (Some a), Some b => list_eqb Z.eqb a b
  | _, _ => false
  end.

(* tie_notes case: bars, div, input chains, observed output chains (each piece with its
   observed symbolic duration) *)
Definition obs_chain := (Z * Z * Z * list (Z * Z * option symdur))%type.

Definition chk_tie_chain (bars : list Z) (div : Z) (c : chain) (o : obs_chain) : bool :=
  let '(p, v, st, ps) := tie_chain bars div c in
  let '(p', v', st', ops) := o in
  (p =? p') && (v =? v') && (st =? st')
  && list_eqb pair_eqb ps (map (fun x => fst x) ops)
  && forallb (fun x => est_matches (piece_sym div (fst x)) (snd x)) ops.

Fixpoint forallb2 {A B} (f : A -> B -> bool) (a : list A) (b : list B) : bool :=
  match a, b with
  | [], [] => true
  | x :: a', y :: b' => f x y && forallb2 f a' b'
  | _, _ => false
  end.

Definition chk_tie (c : list Z * Z * list chain * list obs_chain) : bool :=
  let '(bars, div, cs, os) := c in forallb2 (chk_tie_chain bars div) cs os.

(* add_measures case: div, signatures, first, last, existing, observed (start, end, number) *)
Definition chk_measures (c : Z * list (Z * Z * Z) * Z * Z * list (Z * Z) * list (Z * Z * Z)) : bool :=
  let '(div, tsigs, first, last, ex, obs) := c in
  match add_measures div tsigs first last ex with
  | None => false
  | Some ms => forallb2 (fun (m : meas) (o : Z * Z * Z) =>
                           let '(s, e, n) := o in (m_start m =? s) && (m_end m =? e) && (m_num m =? n)) ms obs
  end.
