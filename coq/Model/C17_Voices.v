(* C17 (2/3) -- voice estimation: executable model of the OUTER layer of
   partitura/musicanalysis/voice_separation.py: estimate_voices -- ids, chord grouping by
   (onset, duration), ONE representative per chord, the array handed to VoSA, the scatter of
   the representatives' voices through idx_equivs, rename_voices (numbering by first
   occurrence) and the final reversal max - r + 1.
   Two things are parameters (Section variables, not axioms):
   * [oracle]: the contig-mapping search itself (class VoSA: ~900 lines of heuristic) is NOT
     modelled; the theorems hold for every function that returns rows for the representatives;
   * [rep]: WHICH note of a chord represents it (the code: argmax_pitch, the first note of
     maximal pitch = [rep_of]); nothing the property states depends on that choice, so the
     theorems hold for every choice of a member, and the correspondence accepts whatever
     member the implementation hands to VoSA ([rep_obs]).
   Definitions only. *)
From PV Require Import Lib.Base.
#[local] Open Scope Z_scope.

(* a note: (pitch, onset, duration); its id is its row number *)
Definition vnote := (Z * Z * Z)%type.
Definition vn_pitch (n : vnote) : Z := fst (fst n).
Definition vn_onset (n : vnote) : Z := snd (fst n).
Definition vn_dur (n : vnote) : Z := snd n.

Fixpoint indexed_from {A} (i : Z) (l : list A) : list (Z * A) :=
  match l with [] => [] | x :: r => (i, x) :: indexed_from (i + 1) r end.

(* note_by_key: dict (onset, dur) -> list of ids, keys in order of first occurrence *)
Definition ckey := (Z * Z)%type.
Definition ckey_of (n : vnote) : ckey := (vn_onset n, vn_dur n).
Definition ckey_eqb (a b : ckey) : bool := (fst a =? fst b) && (snd a =? snd b).

Fixpoint add_to_groups (k : ckey) (id : Z) (gs : list (ckey * list Z)) : list (ckey * list Z) :=
  match gs with
  | [] => [(k, [id])]
  | (k', ids) :: r => if ckey_eqb k' k then (k', ids ++ [id]) :: r
                      else (k', ids) :: add_to_groups k id r
  end.

Definition group_notes (ins : list (Z * vnote)) : list (ckey * list Z) :=
  fold_left (fun gs x => add_to_groups (ckey_of (snd x)) (fst x) gs) ins [].

Definition pitch_of (ins : list (Z * vnote)) (id : Z) : Z :=
  match zlookup id ins with Some n => vn_pitch n | None => 0 end.

(* argmax_pitch: idx[np.argmax(pitches[idx])] -- the first id of maximal pitch *)
Fixpoint rep_from (ins : list (Z * vnote)) (best : Z) (ids : list Z) : Z :=
  match ids with
  | [] => best
  | i :: r => rep_from ins (if pitch_of ins best <? pitch_of ins i then i else best) r
  end.
Definition rep_of (ins : list (Z * vnote)) (ids : list Z) : Z :=
  match ids with [] => 0 | i :: r => rep_from ins i r end.

(* idx_equivs: representative id -> ids of the chord (identity map in monophonic mode);
   [rp] picks the representative among the ids of a chord *)
Definition equivs_with (rp : list Z -> Z) (mono : bool) (ins : list (Z * vnote)) : list (Z * list Z) :=
  if mono then map (fun x => (fst x, [fst x])) ins
  else map (fun g => (rp (snd g), snd g)) (group_notes ins).

(* the code's choice: argmax_pitch *)
Definition equivs_of (mono : bool) (ins : list (Z * vnote)) : list (Z * list Z) :=
  equivs_with (rep_of ins) mono ins.

Fixpoint zinsert (x : Z) (l : list Z) : list Z :=
  match l with [] => [x] | y :: r => if x <=? y then x :: l else y :: zinsert x r end.
Definition zsort (l : list Z) : list Z := fold_right zinsert [] l.

(* input_array = notearray[sorted(idx_equivs.keys())] *)
Definition vosa_input (ins : list (Z * vnote)) (eqv : list (Z * list Z)) : list (Z * vnote) :=
  map (fun id => (id, match zlookup id ins with Some n => n | None => (0, 0, 0) end))
      (zsort (map fst eqv)).

Definition mem_z (i : Z) (l : list Z) : bool := existsb (Z.eqb i) l.

(* for idx, voice in zip(v["id"], v["voice"]): voices[idx_equivs[idx]] = voice
   -- the value finally stored at position i is the one of the last write that covers i *)
Definition final_voice (writes : list (list Z * Z)) (i : Z) : option Z :=
  fold_left (fun acc w => if mem_z i (fst w) then Some (snd w) else acc) writes None.

Fixpoint all_some {A} (l : list (option A)) : option (list A) :=
  match l with
  | [] => Some []
  | Some x :: r => match all_some r with Some r' => Some (x :: r') | None => None end
  | None :: _ => None
  end.

(* rename_voices: v -> vmap.setdefault(v, len(vmap) + 1) *)
Fixpoint first_occ (l : list Z) : list Z :=
  match l with
  | [] => []
  | x :: r => x :: filter (fun y => negb (y =? x)) (first_occ r)
  end.
Fixpoint index_of (v : Z) (l : list Z) : Z :=
  match l with [] => 0 | x :: r => if x =? v then 0 else 1 + index_of v r end.
Definition rename_voices (vs : list Z) : list Z :=
  let d := first_occ vs in map (fun v => index_of v d + 1) vs.

Definition zmax_list (l : list Z) : Z := fold_right Z.max 0 l.

(* rrvoices = max(rvoices) - rvoices + 1 *)
Definition reverse_voices (rs : list Z) : list Z :=
  let k := zmax_list rs in map (fun r => k - r + 1) rs.

Section Outer.
  (* which member represents a chord (given the indexed notes and the chord's ids) *)
  Variable rep : list (Z * vnote) -> list Z -> Z.
  (* rows (id, note) of the array given to VoSA |-> rows (id, voice) of VoSA(..).note_array() *)
  Variable oracle : list (Z * vnote) -> list (Z * Z).

  (* None: the implementation would raise KeyError (an id that is no representative) or
     return an uninitialised entry of np.empty (a note nobody wrote to) *)
  Definition scatter (mono : bool) (notes : list vnote) : option (list Z) :=
    let ins := indexed_from 0 notes in
    let eqv := equivs_with (rep ins) mono ins in
    let res := oracle (vosa_input ins eqv) in
    match all_some (map (fun r => match zlookup (fst r) eqv with
                                  | Some mem => Some (mem, snd r)
                                  | None => None end) res) with
    | None => None
    | Some writes => all_some (map (fun x => final_voice writes (fst x)) ins)
    end.

  Definition estimate_voices (mono : bool) (notes : list vnote) : option (list Z) :=
    match scatter mono notes with
    | Some vs => Some (reverse_voices (rename_voices vs))
    | None => None
    end.
End Outer.

(* "the oracle is total on the representatives": its rows carry the ids it was given, all of
   them and no others (as sets: order and repetitions do not matter, the last write wins) *)
Definition oracle_total_on (inp : list (Z * vnote)) (res : list (Z * Z)) : bool :=
  forallb (fun i => mem_z i (map fst inp)) (map fst res) &&
  forallb (fun i => mem_z i (map fst res)) (map fst inp).

(* the representative the implementation was OBSERVED to use: the member of the chord that is
   among the ids handed to VoSA (the first such member; the chord's first note if there is none --
   the checker then fails on the comparison of the id sets) *)
Definition rep_obs (vin : list Z) (ins : list (Z * vnote)) (ids : list Z) : Z :=
  match filter (fun i => mem_z i vin) ids with
  | x :: _ => x
  | [] => hd 0 ids
  end.

(* ---- checker used by the correspondence: (mono, notes, ids given to VoSA, VoSA's rows, output).
   The ids handed to VoSA are one member of every chord and nothing else (every id in monophonic
   mode) -- in any order, whichever member; VoSA answered exactly them; the output is the model's *)
Definition voices_check (c : bool * list vnote * list Z * list (Z * Z) * list Z) : bool :=
  let '(mono, notes, vin, vres, out) := c in
  let ins := indexed_from 0 notes in
  let inp := vosa_input ins (equivs_with (rep_obs vin ins) mono ins) in
  list_eqb Z.eqb (zsort vin) (map fst inp) &&
  oracle_total_on inp vres &&
  match estimate_voices (rep_obs vin) (fun _ => vres) mono notes with
  | Some vs => list_eqb Z.eqb vs out
  | None => false
  end.

(* fall-back when the VoSA call cannot be observed: the output, restricted to one note per chord
   and fed back as the oracle's answer, must reproduce itself *)
Definition voices_check_self (c : bool * list vnote * list Z) : bool :=
  let '(mono, notes, out) := c in
  let ins := indexed_from 0 notes in
  let inp := vosa_input ins (equivs_of mono ins) in
  let vres := map (fun x => (fst x, nth (Z.to_nat (fst x)) out 0)) inp in
  Nat.eqb (List.length out) (List.length notes) &&
  match estimate_voices rep_of (fun _ => vres) mono notes with
  | Some vs => list_eqb Z.eqb vs out
  | None => false
  end.
