(* C15 -- merging parts keeps every note at the same musical time in disjoint voices.
   Executable Gallina model of partitura/score.py: merge_parts (with iter_parts / Score.__init__
   for the flattening of lists, groups and scores), as the code does it:
     * parts = flattened list; exactly one part: returned as it is;
     * lcm of the parts' (single) quarter durations, per-part multiplier lcm / d;
     * voices in use per part = voices of its GenericNote elements, staves in use = staves of its
       GenericNote / Words / Direction / Clef elements with a missing staff counted as staff 1
       (np.unique: set of values; position in the sorted set = number of smaller members);
       maximum_voices / maximum_staves = max of those sets (default 1);
     * element loop: part 0 keeps everything, later parts drop the classes of el_to_discard (the
       tuple depends on the mode: Clef is dropped in "voice" mode only); start and end multiplied;
       "voice": voice + sum of maximum_voices of earlier parts (GenericNote only);
       "staff": (staff or 1) + sum of maximum_staves of earlier parts (GenericNote, Words,
                Direction, Clef);
       "auto" : staff -> n_previous_staves + 1 + position, voice -> 4 * n_previous_staves + 1 +
                position;
     * the merged part is created with the lcm as quarter duration.
   The sounding-note table of a part is Model.C05.note_array applied to the GenericNote elements
   ([notes_of]); the score-level array is Model.C05.score_array.
   Definitions and boolean checkers only; proofs are in Proofs/C15*.v. *)
From PV Require Import Lib.Base Model.C05.
From Coq Require Import QArith.
#[local] Open Scope Z_scope.

(* ------------------------------------------------------------------ elements *)

(* class of an element as far as merge_parts distinguishes classes (isinstance tests, so a
   subclass has the kind of the listed base class: LoudnessDirection is a Direction, ...) *)
Inductive kind :=
| KNote | KGrace | KRest                    (* GenericNote: Note, GraceNote, Rest *)
| KUnpitched                                (* GenericNote that is neither a Note nor a Rest: UnpitchedNote
                                               (percussion), a bare GenericNote -- renumbered like a note, not
                                               a row of the note array (Part.notes_tied selects Note) *)
| KWords | KDirection | KClef              (* carry a staff that "staff"/"auto" renumber *)
| KMeasure | KTimeSig | KKeySig | KBarline | KPage | KSystem   (* documented: first part only *)
| KDaCapo | KFine | KFermata | KEnding | KTempo                (* also in el_to_discard *)
| KSlur | KTuplet | KOther.                                    (* any other TimedObject *)

Definition kind_code (k : kind) : Z :=
  match k with
  | KNote => 0 | KGrace => 1 | KRest => 2 | KWords => 3 | KDirection => 4 | KClef => 5
  | KMeasure => 6 | KTimeSig => 7 | KKeySig => 8 | KBarline => 9 | KPage => 10 | KSystem => 11
  | KDaCapo => 12 | KFine => 13 | KFermata => 14 | KEnding => 15 | KTempo => 16
  | KSlur => 17 | KTuplet => 18 | KOther => 19 | KUnpitched => 20
  end.
Definition kind_eqb (a b : kind) : bool := Z.eqb (kind_code a) (kind_code b).

Record elem := mkElem {
  e_oid : Z;                  (* object identity *)
  e_kind : kind;
  e_start : Z;                (* e.start.t *)
  e_end : option Z;           (* e.end.t, None when the object has no end *)
  e_voice : option Z;
  e_staff : option Z;
  e_pitch : Z;                (* midi pitch of a Note / GraceNote (0 otherwise) *)
  e_tie_prev : option Z;      (* oid of tie_prev / tie_next (notes) *)
  e_tie_next : option Z
}.

Definition part := (list elem * Z)%type.       (* elements in iteration order, quarter duration *)

Inductive mode := MVoice | MStaff | MAuto.

Definition is_generic (k : kind) : bool :=
  match k with KNote | KGrace | KRest | KUnpitched => true | _ => false end.

(* isinstance(e, (GenericNote, Words, Direction, Clef)) *)
Definition is_staffed (k : kind) : bool :=
  match k with KNote | KGrace | KRest | KUnpitched | KWords | KDirection | KClef => true | _ => false end.

(* el_to_discard of the mode *)
Definition discard (m : mode) (k : kind) : bool :=
  match k with
  | KBarline | KPage | KSystem | KMeasure | KTimeSig | KKeySig
  | KDaCapo | KFine | KFermata | KEnding | KTempo => true
  | KClef => match m with MVoice => true | _ => false end
  | _ => false
  end.

(* the classes the documentation lists as "only taken from the first part" *)
Definition doc_structural (k : kind) : bool :=
  match k with
  | KBarline | KPage | KSystem | KClef | KMeasure | KTimeSig | KKeySig => true
  | _ => false
  end.

(* ------------------------------------------------------------------ voices and staves in use *)

Definition voices_of (es : list elem) : list Z :=
  flat_map (fun e => if is_generic (e_kind e)
                     then match e_voice e with Some v => [v] | None => [] end else []) es.

Definition staff1 (e : elem) : Z := oz (e_staff e) 1.      (* a missing staff counts as staff 1 *)

Definition staves_of (es : list elem) : list Z :=
  flat_map (fun e => if is_staffed (e_kind e) then [staff1 e] else []) es.

Definition uniq (l : list Z) : list Z := nodup Z.eq_dec l.           (* np.unique as a set *)

(* position of v in the sorted set = number of members below v *)
Definition rank (v : Z) (l : list Z) : Z := Z.of_nat (List.length (filter (fun x => x <? v) l)).

Definition zmax_list (default : Z) (l : list Z) : Z :=
  match l with [] => default | x :: r => fold_left Z.max r x end.

Definition maxv (es : list elem) : Z := zmax_list 1 (voices_of es).   (* maximum_voices[i] *)
Definition maxs (es : list elem) : Z := zmax_list 1 (staves_of es).   (* maximum_staves[i] *)
Definition nvoices (es : list elem) : Z := Z.of_nat (List.length (uniq (voices_of es))).
Definition nstaves (es : list elem) : Z := Z.of_nat (List.length (uniq (staves_of es))).

(* ------------------------------------------------------------------ the element loop *)

Definition set_time (e : elem) (s : Z) (en : option Z) : elem :=
  mkElem (e_oid e) (e_kind e) s en (e_voice e) (e_staff e) (e_pitch e) (e_tie_prev e) (e_tie_next e).
Definition set_voice (e : elem) (v : option Z) : elem :=
  mkElem (e_oid e) (e_kind e) (e_start e) (e_end e) v (e_staff e) (e_pitch e) (e_tie_prev e) (e_tie_next e).
Definition set_staff (e : elem) (s : option Z) : elem :=
  mkElem (e_oid e) (e_kind e) (e_start e) (e_end e) (e_voice e) s (e_pitch e) (e_tie_prev e) (e_tie_next e).

Definition rescale_elem (k : Z) (e : elem) : elem :=
  set_time e (e_start e * k) (option_map (fun t => t * k) (e_end e)).

(* offsets carried along the part loop: sum(maximum_voices[:i]), sum(maximum_staves[:i]),
   n_previous_staves *)
Record offs := mkOffs { o_voice : Z; o_staff : Z; o_nstaves : Z }.

(* renumbering of one kept element; None = the Python statement raises (TypeError for
   None + int in "voice" mode, KeyError for a voice-less note in "auto" mode) *)
Definition renumber (m : mode) (o : offs) (uv us : list Z) (e : elem) : option elem :=
  match m with
  | MVoice =>
    if is_generic (e_kind e)
    then match e_voice e with
         | Some v => Some (set_voice e (Some (v + o_voice o)))
         | None => None
         end
    else Some e
  | MStaff =>
    if is_staffed (e_kind e) then Some (set_staff e (Some (staff1 e + o_staff o))) else Some e
  | MAuto =>
    let e1 := if is_generic (e_kind e)
              then match e_voice e with
                   | Some v => Some (set_voice e (Some (4 * o_nstaves o + 1 + rank v uv)))
                   | None => None
                   end
              else Some e in
    match e1 with
    | None => None
    | Some e2 =>
      if is_staffed (e_kind e)
      then Some (set_staff e2 (Some (o_nstaves o + 1 + rank (staff1 e) us)))
      else Some e2
    end
  end.

Definition keep (m : mode) (first : bool) (e : elem) : bool := first || negb (discard m (e_kind e)).

Fixpoint xform_elems (m : mode) (k : Z) (first : bool) (o : offs) (uv us : list Z)
         (es : list elem) : option (list elem) :=
  match es with
  | [] => Some []
  | e :: r =>
    if keep m first e
    then match renumber m o uv us (rescale_elem k e), xform_elems m k first o uv us r with
         | Some e', Some r' => Some (e' :: r')
         | _, _ => None
         end
    else xform_elems m k first o uv us r
  end.

Definition xform_part (m : mode) (L : Z) (first : bool) (o : offs) (p : part) : option (list elem) :=
  let '(es, d) := p in
  xform_elems m (L / d) first o (uniq (voices_of es)) (uniq (staves_of es)) es.

Definition next_offs (o : offs) (es : list elem) : offs :=
  mkOffs (o_voice o + maxv es) (o_staff o + maxs es) (o_nstaves o + nstaves es).

(* the part loop; every output element is tagged with the index of the part it came from *)
Fixpoint merge_from (m : mode) (L : Z) (i : nat) (o : offs) (ps : list part)
  : option (list (nat * elem)) :=
  match ps with
  | [] => Some []
  | p :: rest =>
    match xform_part m L (Nat.eqb i 0) o p, merge_from m L (S i) (next_offs o (fst p)) rest with
    | Some a, Some b => Some (map (pair i) a ++ b)
    | _, _ => None
    end
  end.

Definition divs_of (ps : list part) : list Z := map snd ps.
Definition merge_lcm (ps : list part) : Z := lcm_list (divs_of ps).

(* ------------------------------------------------------------------ containers *)

(* a Part or a PartGroup (children) ; iter_parts = depth-first flattening *)
Inductive tree := TPart (p : part) | TGroup (children : list tree).

Fixpoint flatten (t : tree) : list part :=
  match t with
  | TPart p => [p]
  | TGroup l => flat_map flatten l
  end.

Inductive result :=
| RSingle (p : part)                          (* the one part, returned as it is *)
| RMerged (L : Z) (out : list (nat * elem))   (* new part: quarter duration, tagged elements *)
| RRaise.

(* merge_parts(parts, reassign): [ts] is the argument as a list of parts and groups (a single
   Part or PartGroup is the one-element list; a Score is the list of its flattened parts) *)
Definition merge_parts (m : mode) (ts : list tree) : result :=
  match flat_map flatten ts with
  | [] => RRaise
  | [p] => RSingle p
  | ps =>
    let L := merge_lcm ps in
    match merge_from m L 0 (mkOffs 0 0 0) ps with
    | Some out => RMerged L out
    | None => RRaise
    end
  end.

(* ------------------------------------------------------------------ the argument (dispatch) *)

(* What merge_parts is given.  "if isinstance(parts, Score): parts = parts.parts  else: parts =
   list(iter_parts(parts))":
     * a Score holds the flat list of its parts, computed once by Score.__init__ as
       list(iter_parts(partlist)) from the Part / PartGroup / list it was built from;
     * a list or tuple of parts and groups is traversed depth first by iter_parts;
     * anything else (a Part, a PartGroup) is wrapped by iter_parts into a one-element list. *)
Inductive arg :=
| AScore (partlist : list tree)
| ASeq (items : list tree)
| AOne (t : tree).

Definition score_parts (partlist : list tree) : list part := flat_map flatten partlist.   (* Score.__init__: self.parts *)

Definition arg_trees (a : arg) : list tree :=
  match a with
  | AScore partlist => map TPart (score_parts partlist)
  | ASeq items => items
  | AOne t => [t]
  end.

Definition merge_parts_arg (m : mode) (a : arg) : result := merge_parts m (arg_trees a).

(* partitura.io.load_score_as_part: merge_parts(load_score(filename).parts) -- the flat part list of the
   loaded score, default reassign ("voice") *)
Definition load_as_part (parts : list part) : result := merge_parts_arg MVoice (ASeq (map TPart parts)).

(* ------------------------------------------------------------------ the offsets as running sums *)

(* the offsets in force when part j is transferred: the sums over the parts before it *)
Definition offs_at (ps : list part) (j : nat) : offs :=
  fold_left next_offs (map fst (firstn j ps)) (mkOffs 0 0 0).

Definition zsum (l : list Z) : Z := fold_right Z.add 0 l.

(* every kept generic element carries a voice (otherwise "voice" / "auto" raise) *)
Definition all_voiced (ps : list part) : bool :=
  forallb (fun p => forallb (fun e => negb (is_generic (e_kind e)) || match e_voice e with Some _ => true | None => false end) (fst p)) ps.

(* ------------------------------------------------------------------ sounding notes (C05) *)

(* the GenericNote elements as C05 notes; the spelling is chosen so that midi_pitch = e_pitch.
   n_rest marks the objects that are not rows of the note array: Rest, and the GenericNotes that are
   not Note instances (KUnpitched) -- Part.notes_tied iterates Note and its subclasses only *)
Definition note_of (e : elem) : note :=
  mkNote (e_oid e) ""%string (e_start e) (oz (e_end e) (e_start e)) (e_tie_prev e) (e_tie_next e)
         "C"%string (Some (e_pitch e)) (-1) (e_voice e) (e_staff e)
         (match e_kind e with KGrace => Some "grace"%string | _ => None end)
         (match e_kind e with KRest | KUnpitched => true | _ => false end).

Definition notes_of (es : list elem) : list note :=
  map note_of (filter (fun e => is_generic (e_kind e)) es).

Definition no_maps : maps := maps_of [] [] [].

(* note array of a part (integer columns) *)
Definition part_rows (p : part) : option (list row) := note_array (notes_of (fst p)) no_maps (snd p).

Fixpoint parts_rows (ps : list part) : option (list (list row)) :=
  match ps with
  | [] => Some []
  | p :: r => match part_rows p, parts_rows r with
              | Some a, Some l => Some (a :: l)
              | _, _ => None
              end
  end.

Definition merged_rows (L : Z) (out : list (nat * elem)) : option (list row) :=
  note_array (notes_of (map snd out)) no_maps L.

(* a row as (onset, duration, pitch) in units of 1/(K * divs) quarters *)
Definition qkey (K : Z) (r : row) : Z * Z * Z := (r_onset r * K, r_dur r * K, r_pitch r).

(* ------------------------------------------------------------------ checkers (correspondence) *)

Definition elem_eqb (a b : elem) : bool :=
  Z.eqb (e_oid a) (e_oid b) && kind_eqb (e_kind a) (e_kind b) && Z.eqb (e_start a) (e_start b) &&
  zopt_eqb (e_end a) (e_end b) && zopt_eqb (e_voice a) (e_voice b) && zopt_eqb (e_staff a) (e_staff b) &&
  Z.eqb (e_pitch a) (e_pitch b) && zopt_eqb (e_tie_prev a) (e_tie_prev b) &&
  zopt_eqb (e_tie_next a) (e_tie_next b).

Definition tagged_eqb (a b : nat * elem) : bool := Nat.eqb (fst a) (fst b) && elem_eqb (snd a) (snd b).

Definition part_eqb (a b : part) : bool := list_eqb elem_eqb (fst a) (fst b) && Z.eqb (snd a) (snd b).

(* insertion sort of tagged elements by oid (the harness lists the observed elements by oid) *)
Fixpoint ins_oid (x : nat * elem) (l : list (nat * elem)) : list (nat * elem) :=
  match l with
  | [] => [x]
  | y :: r => if e_oid (snd x) <=? e_oid (snd y) then x :: l else y :: ins_oid x r
  end.
Fixpoint sort_oid (l : list (nat * elem)) : list (nat * elem) :=
  match l with [] => [] | x :: r => ins_oid x (sort_oid r) end.

(* what the harness observed: the index (in the flattened list) of the part that was returned
   with its elements afterwards, or the new part's quarter duration and tagged elements, or an
   exception *)
Inductive observed :=
| OSingle (idx : nat) (p : part)
| OMerged (L : Z) (out : list (nat * elem))
| ORaise.

Definition case_ok (m : mode) (ts : list tree) (obs : observed) : bool :=
  match merge_parts m ts, obs with
  | RSingle p, OSingle idx p' =>
    Nat.eqb idx 0 && part_eqb p p' && Nat.eqb (List.length (flat_map flatten ts)) 1
  | RMerged L out, OMerged L' out' =>
    Z.eqb L L' && list_eqb tagged_eqb (sort_oid out) (sort_oid out')
  | RRaise, ORaise => true
  | _, _ => false
  end.

(* note array (with staff) of the merged part: rows (onset_div, duration_div, pitch, voice, staff)
   in the implementation's order; compared as a table ordered by (onset, pitch) *)
Definition nrow := (Z * Z * Z * Z * Z)%type.
Definition nrow_of (r : row) : nrow := (r_onset r, r_dur r, r_pitch r, r_voice r, r_staff r).
Definition nrow_eqb (a b : nrow) : bool :=
  match a, b with
  | (o1, d1, p1, v1, s1), (o2, d2, p2, v2, s2) =>
    Z.eqb o1 o2 && Z.eqb d1 d2 && Z.eqb p1 p2 && Z.eqb v1 v2 && Z.eqb s1 s2
  end.

Fixpoint remove_nrow (x : nrow) (l : list nrow) : option (list nrow) :=
  match l with
  | [] => None
  | y :: r => if nrow_eqb x y then Some r
              else match remove_nrow x r with Some r' => Some (y :: r') | None => None end
  end.
Fixpoint nrows_multiset_eqb (a b : list nrow) : bool :=
  match a with
  | [] => match b with [] => true | _ => false end
  | x :: r => match remove_nrow x b with Some b' => nrows_multiset_eqb r b' | None => false end
  end.

Definition same_nrows (model impl : list nrow) : bool :=
  list_eqb (fun x y => match x, y with (o1, _, p1, _, _), (o2, _, p2, _, _) => Z.eqb o1 o2 && Z.eqb p1 p2 end)
           model impl
  && nrows_multiset_eqb model impl.

(* the merged part's note array as the model computes it from the model's merged elements *)
Definition merged_array_ok (m : mode) (ts : list tree) (impl : list nrow) : bool :=
  match merge_parts m ts with
  | RMerged L out =>
    match merged_rows L out with
    | Some rows => same_nrows (map nrow_of rows) impl
    | None => false
    end
  | _ => false
  end.

(* the score-level note array of the (fresh) inputs: rows (onset_div, duration_div, pitch) and the
   divs_pq column; the model is C05's score_array over the parts' arrays.  Compared as multisets
   (the implementation orders the rows by beat position, which depends on each part's own time
   signatures; the order of that table is C05's subject) *)
Definition score_array_ok (ts : list tree) (Ls : Z) (impl : list (Z * Z * Z)) : bool :=
  match parts_rows (flat_map flatten ts) with
  | Some arrs =>
    let rows := score_array false arrs in
    nrows_multiset_eqb (map (fun r => (r_onset r, r_dur r, r_pitch r, 0, 0)) rows)
                          (map (fun x => match x with (o, d, p) => (o, d, p, 0, 0) end) impl)
    && forallb (fun r => Z.eqb (r_divs r) Ls) rows
  | None => false
  end.

(* both arrays describe the same sounding notes: cross-multiplied (onset, duration, pitch) *)
Definition link_ok (m : mode) (ts : list tree) : bool :=
  match merge_parts m ts, parts_rows (flat_map flatten ts) with
  | RMerged L out, Some arrs =>
    match merged_rows L out with
    | Some rows =>
      let Ls := score_lcm arrs in
      nrows_multiset_eqb (map (fun r => match qkey Ls r with (o, d, p) => (o, d, p, 0, 0) end) rows)
                         (map (fun r => match qkey L r with (o, d, p) => (o, d, p, 0, 0) end) (score_array false arrs))
    | None => false
    end
  | _, _ => false
  end.

(* the closed forms evaluated on what the implementation produced: every observed element (j, e') is
   the element of input j with that identity, rescaled by L / d and renumbered with the offsets
   [offs_at ps j] (the running sums over the inputs before j) ... *)
Fixpoint find_elem (oid : Z) (es : list elem) : option elem :=
  match es with
  | [] => None
  | e :: r => if Z.eqb (e_oid e) oid then Some e else find_elem oid r
  end.

Definition offsets_ok (m : mode) (ps : list part) (L : Z) (out' : list (nat * elem)) : bool :=
  forallb (fun x : nat * elem =>
    match nth_error ps (fst x) with
    | Some (es, d) =>
      match find_elem (e_oid (snd x)) es with
      | Some e =>
        match renumber m (offs_at ps (fst x)) (uniq (voices_of es)) (uniq (staves_of es)) (rescale_elem (L / d) e) with
        | Some e' => elem_eqb e' (snd x)
        | None => false
        end
      | None => false
      end
    | None => false
    end) out'.

(* ... and the observed elements of the discarded classes are exactly those of the first input,
   rescaled (structural_exactly_first) *)
Definition structural_ok (m : mode) (ps : list part) (L : Z) (out' : list (nat * elem)) : bool :=
  match ps with
  | (es0, d0) :: _ =>
    list_eqb tagged_eqb
      (sort_oid (filter (fun x : nat * elem => discard m (e_kind (snd x))) out'))
      (sort_oid (map (pair 0%nat) (map (rescale_elem (L / d0)) (filter (fun e => discard m (e_kind e)) es0))))
  | [] => false
  end.

Definition full_case_ok (m : mode) (a : arg) (obs : observed) (marr : list nrow)
           (Ls : Z) (sarr : list (Z * Z * Z)) : bool :=
  let ts := arg_trees a in
  match merge_parts_arg m a, obs with
  | RSingle p, OSingle idx p' =>
    Nat.eqb idx 0 && part_eqb p p' && Nat.eqb (List.length (flat_map flatten ts)) 1
  | RMerged L out, OMerged L' out' =>
    Z.eqb L L' && list_eqb tagged_eqb (sort_oid out) (sort_oid out') &&
    offsets_ok m (flat_map flatten ts) L' out' && structural_ok m (flat_map flatten ts) L' out' &&
    merged_array_ok m ts marr && score_array_ok ts Ls sarr && link_ok m ts
  | RRaise, ORaise => negb (Nat.leb 2 (List.length (flat_map flatten ts))) ||
                      (negb (match m with MStaff => true | _ => false end) && negb (all_voiced (flat_map flatten ts)))
  | _, _ => false
  end.

(* load_score_as_part(file): [parts] are the parts of load_score(file); [impl] is the note array (with
   staff) of the part the loader returned *)
Definition loader_case_ok (parts : list part) (single : bool) (impl : list nrow) : bool :=
  match load_as_part parts with
  | RMerged L out =>
    negb single &&
    match merged_rows L out with
    | Some rows => same_nrows (map nrow_of rows) impl
    | None => false
    end
  | RSingle p =>
    single &&
    match part_rows p with
    | Some rows => same_nrows (map nrow_of rows) impl
    | None => false
    end
  | RRaise => false
  end.
