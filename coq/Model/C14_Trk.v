(* C14 -- executable model of Performance.sanitize_track_numbers / num_tracks as the code does it:
   every event (note, control, program change) of part i contributes the pair (i, its track; -1
   when the key is absent), the distinct pairs are numbered in sorted order (sorted(set(...))), and
   every event's track is replaced by the number of its pair.  Definitions only; proofs are in
   Proofs/C14_trk.v. *)
From PV Require Import Lib.Base Model.C14 Model.C14_Note.
From Coq Require Import ZArith List.
#[local] Open Scope Z_scope.

(* the track key of every note, control and program change of one part (None = key absent) *)
Definition ptracks := (list (option Z) * list (option Z) * list (option Z))%type.
Definition tr (o : option Z) : Z := dflt o (-1).
Definition events (p : ptracks) : list (option Z) := let '(n, c, g) := p in n ++ c ++ g.
Definition part_pairs (i : Z) (p : ptracks) : list (Z * Z) := map (fun o => (i, tr o)) (events p).
Fixpoint all_pairs (i : Z) (ps : list ptracks) : list (Z * Z) :=
  match ps with
  | [] => []
  | p :: r => part_pairs i p ++ all_pairs (i + 1) r
  end.

(* sorted(set(pairs)): insertion without duplicates, lexicographic order *)
Definition pair_ltb (a b : Z * Z) : bool := (fst a <? fst b) || ((fst a =? fst b) && (snd a <? snd b)).
Fixpoint insert_u (a : Z * Z) (l : list (Z * Z)) : list (Z * Z) :=
  match l with
  | [] => [a]
  | b :: r => if pair_eqb a b then l else if pair_ltb a b then a :: l else b :: insert_u a r
  end.
Definition usort (l : list (Z * Z)) : list (Z * Z) := fold_right insert_u [] l.

(* track_map[(i, track)]; the key is always present, -1 stands for the KeyError that cannot happen *)
Definition tmap (ids : list (Z * Z)) (a : Z * Z) : Z := dflt (index_of_pair a ids) (-1).
Definition renum_list (ids : list (Z * Z)) (i : Z) (l : list (option Z)) : list (option Z) :=
  map (fun o => Some (tmap ids (i, tr o))) l.
Definition renum_part (ids : list (Z * Z)) (i : Z) (p : ptracks) : ptracks :=
  let '(n, c, g) := p in (renum_list ids i n, renum_list ids i c, renum_list ids i g).
Fixpoint renum (ids : list (Z * Z)) (i : Z) (ps : list ptracks) : list ptracks :=
  match ps with
  | [] => []
  | p :: r => renum_part ids i p :: renum ids (i + 1) r
  end.
Definition sanitize (ps : list ptracks) : list ptracks := renum (usort (all_pairs 0 ps)) 0 ps.
Definition num_tracks (ps : list ptracks) : Z := Z.of_nat (List.length (usort (all_pairs 0 ps))).

(* the new track number of every event, in the order of all_pairs *)
Definition new_numbers (ps : list ptracks) : list Z := map snd (all_pairs 0 (sanitize ps)).
Definition shape (p : ptracks) : nat * nat * nat :=
  let '(n, c, g) := p in (List.length n, List.length c, List.length g).
Fixpoint sanitize_n (k : nat) (ps : list ptracks) : list ptracks :=
  match k with O => ps | S k' => sanitize_n k' (sanitize ps) end.

(* ---- checker: [passes] renumberings of the parts [ps]; observed: the track of every note,
   control and program change of every part afterwards.  Required: the observed numbers induce
   the same partition of the events as the model's (two events share a number exactly when they
   are of one part and shared a track before); which numbers are used is not prescribed. *)
Definition obs_numbers (obs : list (list Z * list Z * list Z)) : list Z :=
  flat_map (fun p => let '(n, c, g) := p in n ++ c ++ g) obs.
Definition obs_shape (p : list Z * list Z * list Z) : nat * nat * nat :=
  let '(n, c, g) := p in (List.length n, List.length c, List.length g).
Definition shape_eqb (a b : nat * nat * nat) : bool :=
  let '(a1, a2, a3) := a in let '(b1, b2, b3) := b in Nat.eqb a1 b1 && Nat.eqb a2 b2 && Nat.eqb a3 b3.
Definition same_partition (ms os : list Z) : bool :=
  Nat.eqb (List.length ms) (List.length os) &&
  forallb (fun x => forallb (fun y => Bool.eqb (fst x =? fst y) (snd x =? snd y)) (combine ms os)) (combine ms os).
Definition check_sanitize (c : nat * list ptracks * list (list Z * list Z * list Z)) : bool :=
  let '(passes, ps, obs) := c in
  let ps' := sanitize_n passes ps in
  list_eqb shape_eqb (map shape ps') (map obs_shape obs) &&
  same_partition (map snd (all_pairs 0 ps')) (obs_numbers obs).
(* the same against the model's numbers themselves (sorted order): counted, not required *)
Definition check_sanitize_exact (c : nat * list ptracks * list (list Z * list Z * list Z)) : bool :=
  let '(passes, ps, obs) := c in
  list_eqb Z.eqb (map snd (all_pairs 0 (sanitize_n passes ps))) (obs_numbers obs).
