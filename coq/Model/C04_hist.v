(* C04 -- state carried between calls: the quarter durations of the parts of a Score under a history of
   edits, and what save_score_midi observes of them (ticks per quarter).
   partitura/score.py: Part.set_quarter_duration (the parallel lists _quarter_times / _quarter_durations,
   here one list of pairs), Score.__setitem__ (the flat list Score.parts), partitura/io/exportmidi.py:
   get_ppq + the doubling loop (Model.C04.model_ppq), which reads the parts' lists at every call.
   Executable definitions and a boolean checker only; proofs are in Proofs/C04_hist.v. *)
From PV Require Import Lib.Base Model.C04.
#[local] Open Scope Z_scope.

(* set_quarter_duration(t, q): i = searchsorted(times, t); an entry at t is overwritten; otherwise (t, q)
   is inserted at i unless the entry before it already has q (redundant).  prev = the quarter duration
   of the entry before the current position (None at i = 0). *)
Fixpoint set_qd (prev : option Z) (l : list (Z * Z)) (t q : Z) : list (Z * Z) :=
  match l with
  | [] => match prev with
          | Some p => if p =? q then [] else [(t, q)]
          | None => [(t, q)]
          end
  | (t0, q0) :: r =>
      if t0 <? t then (t0, q0) :: set_qd (Some q0) r t q
      else if t0 =? t then (t0, q) :: r
      else match prev with
           | Some p => if p =? q then l else (t, q) :: l
           | None => (t, q) :: l
           end
  end.

(* the quarter duration in force at time x (interp1d kind="previous" over the lists; d before the first entry) *)
Fixpoint qd_at (d : Z) (l : list (Z * Z)) (x : Z) : Z :=
  match l with
  | [] => d
  | (t0, q0) :: r => if x <? t0 then d else qd_at q0 r x
  end.

(* specification side of set_quarter_duration: the next change point after t *)
Fixpoint next_after (l : list (Z * Z)) (t : Z) : option Z :=
  match l with
  | [] => None
  | (t0, _) :: r => if t <? t0 then Some t0 else next_after r t
  end.

Definition before_next (l : list (Z * Z)) (t x : Z) : bool :=
  match next_after l t with Some n => x <? n | None => true end.

Fixpoint increasing_from (a : Z) (l : list (Z * Z)) : bool :=
  match l with
  | [] => true
  | (t0, _) :: r => (a <? t0) && increasing_from t0 r
  end.

Inductive hop :=
| HSetQD (i t q : Z)                                      (* score.parts[i].set_quarter_duration(t, q) *)
| HSetItem (i : Z) (qd : list (Z * Z))                     (* score[i] = part with these quarter durations *)
| HExport (mn : Z).                                        (* save_score_midi(score, minimum_ppq = mn) *)

Definition hstate := list (list (Z * Z)).                  (* Score.parts: per part its quarter durations *)

Fixpoint upd {A} (l : list A) (i : nat) (f : A -> A) : list A :=
  match l, i with
  | [], _ => []
  | x :: r, O => f x :: r
  | x :: r, S j => x :: upd r j f
  end.

Definition edit (st : hstate) (o : hop) : hstate :=
  match o with
  | HSetQD i t q => upd st (Z.to_nat i) (fun l => set_qd None l t q)
  | HSetItem i qd => upd st (Z.to_nat i) (fun _ => qd)
  | HExport _ => st
  end.

Definition all_q (st : hstate) : list Z := flat_map (map snd) st.
Definition observe (st : hstate) (mn : Z) : option Z := model_ppq (all_q st) mn.

(* the code: nothing but the parts' lists is carried from call to call *)
Fixpoint run (st : hstate) (ops : list hop) : list (option Z) :=
  match ops with
  | [] => []
  | HExport mn :: r => observe st mn :: run st r
  | o :: r => run (edit st o) r
  end.

(* a memoising variant: the first result for a minimum_ppq is kept (no invalidation) *)
Fixpoint lookup (mn : Z) (m : list (Z * option Z)) : option (option Z) :=
  match m with
  | [] => None
  | (k, v) :: r => if k =? mn then Some v else lookup mn r
  end.
Fixpoint run_memo (memo : list (Z * option Z)) (st : hstate) (ops : list hop) : list (option Z) :=
  match ops with
  | [] => []
  | HExport mn :: r =>
      match lookup mn memo with
      | Some v => v :: run_memo memo st r
      | None => observe st mn :: run_memo ((mn, observe st mn) :: memo) st r
      end
  | o :: r => run_memo memo (edit st o) r
  end.

(* specification side: the state after a history is the fold of the edits; the k-th export sees it *)
Definition state_after (st : hstate) (ops : list hop) : hstate := fold_left edit ops st.
Fixpoint spec_obs (st : hstate) (done todo : list hop) : list (option Z) :=
  match todo with
  | [] => []
  | HExport mn :: r => observe (state_after st done) mn :: spec_obs st (done ++ [HExport mn]) r
  | o :: r => spec_obs st (done ++ [o]) r
  end.

(* ---- checker for the correspondence: a history as run on the implementation.
   obs: per export (ticks_per_beat of the written file, quarter_durations() of every part of Score.parts) *)
Definition qd_eqb (a b : list (Z * Z)) : bool := list_eqb zz_eqb a b.
Definition oz_eqb (a b : option Z) : bool :=
  match a, b with Some x, Some y => x =? y | None, None => true | _, _ => false end.
Fixpoint states (st : hstate) (ops : list hop) : list hstate :=
  match ops with
  | [] => []
  | HExport mn :: r => st :: states st r
  | o :: r => states (edit st o) r
  end.
Definition check_hist (st : hstate) (ops : list hop) (obs : list (Z * list (list (Z * Z)))) : bool :=
  list_eqb oz_eqb (run st ops) (map (fun x => Some (fst x)) obs)
  && list_eqb (list_eqb qd_eqb) (states st ops) (map snd obs)
  && forallb (forallb (increasing_from (-1))) (states st ops).
