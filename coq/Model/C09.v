(* C09 -- executable model of repeat unfolding in partitura/score.py.
   Definitions only (no proofs).  Three parts:
     1. make_segments  : add_segments/_make_segments (boundaries from navigation marks,
                         per-boundary-type destination rules, clean-up and ordering)
     2. unfold / get_paths : Path.list_of_destinations_from_last_segment,
                         Path.make_copy_with_jump_to (per-path segment table), unfold_paths on fuel
     3. variant        : ScoreVariant.create_variant_part over abstract objects
                         (skip list, "do not repeat an unchanged signature/clef", fermata at the
                         segment end, reference remapping through the per-visit map) and
                         update_note_ids_after_unfolding.
   Segment ids are integers: chr(65+i) is i, "END" is -1. *)
From PV Require Import Lib.Base.
From Coq Require Import ZArith List Bool.
Import ListNotations.
#[local] Open Scope Z_scope.

Definition END : Z := -1.

(* ------------------------------------------------------------------ *)
(* generic helpers *)

Fixpoint zmem (x : Z) (l : list Z) : bool :=
  match l with [] => false | y :: r => (x =? y) || zmem x r end.

Fixpoint zinsert (x : Z) (l : list Z) : list Z :=
  match l with [] => [x] | y :: r => if x <=? y then x :: l else y :: zinsert x r end.
Definition zsort (l : list Z) : list Z := fold_right zinsert [] l.

Fixpoint zdedup (l : list Z) : list Z :=
  match l with [] => [] | x :: r => if zmem x r then zdedup r else x :: zdedup r end.

Fixpoint index_of (x : Z) (l : list Z) (i : Z) : option Z :=
  match l with [] => None | y :: r => if x =? y then Some i else index_of x r (i + 1) end.

Fixpoint upd_nth {A} (n : nat) (f : A -> A) (l : list A) : list A :=
  match l, n with
  | [], _ => []
  | x :: r, O => f x :: r
  | x :: r, S k => x :: upd_nth k f r
  end.

Definition zlist_eqb := list_eqb Z.eqb.

(* ------------------------------------------------------------------ *)
(* 1. segments from navigation marks *)

Record marks := mkMarks {
  m_first : Z; m_last : Z;
  m_repeats : list (Z * Z);                 (* valid repeats (start, end) in iter_all order *)
  m_endings : list (Z * Z * list Z);        (* valid endings (start, end, numbers) *)
  m_coda : list Z; m_tocoda : list Z; m_dacapo : list Z; m_fine : list Z;
  m_segno : list Z; m_dalsegno : list Z }.

(* boundary kinds (dictionary keys of boundaries[t]) *)
Definition BRS := 0. Definition BRE := 1. Definition BVS := 2. Definition BVE := 3.
Definition BCODA := 4. Definition BTOCODA := 5. Definition BDACAPO := 6. Definition BFINE := 7.
Definition BSEGNO := 8. Definition BDALSEGNO := 9. Definition BEND := 10. Definition BSTART := 11.

Definition payload := (Z * Z * list Z)%type.         (* start, end, numbers of the object *)
Definition bdict := list (Z * payload).               (* insertion-ordered dict *)
Definition bmap := list (Z * bdict).

Fixpoint kset (k : Z) (v : payload) (l : bdict) : bdict :=
  match l with
  | [] => [(k, v)]
  | (k', v') :: r => if k =? k' then (k, v) :: r else (k', v') :: kset k v r
  end.

Fixpoint bset (t k : Z) (v : payload) (b : bmap) : bmap :=
  match b with
  | [] => [(t, [(k, v)])]
  | (t', d) :: r => if t =? t' then (t', kset k v d) :: r else (t', d) :: bset t k v r
  end.

Definition bget (t : Z) (b : bmap) : bdict := match zlookup t b with Some d => d | None => [] end.
Definition bhas (t k : Z) (b : bmap) : bool := match zlookup k (bget t b) with Some _ => true | None => false end.

Definition pnone : payload := (0, 0, []).

Definition boundaries (m : marks) : bmap :=
  let b := fold_left (fun b r => bset (snd r) BRE (fst r, snd r, []) (bset (fst r) BRS (fst r, snd r, []) b)) (m_repeats m) [] in
  let b := fold_left (fun b v => match v with (s, e, ns) => bset e BVE (s, e, ns) (bset s BVS (s, e, ns) b) end) (m_endings m) b in
  let pt k := fun b t => bset t k (t, t, []) b in
  let b := fold_left (pt BCODA) (m_coda m) b in
  let b := fold_left (pt BTOCODA) (m_tocoda m) b in
  let b := fold_left (pt BDACAPO) (m_dacapo m) b in
  let b := fold_left (pt BFINE) (m_fine m) b in
  let b := fold_left (pt BSEGNO) (m_segno m) b in
  let b := fold_left (pt BDALSEGNO) (m_dalsegno m) b in
  let b := bset (m_last m) BEND pnone b in
  bset (m_first m) BSTART pnone b.

(* raw destinations as written by the per-boundary rules *)
Inductive rdest :=
| RPlain (id : Z)
| RVolta (num : Z) (id : Z)      (* "<num>_Volta_<id>"; "Z_Volta_<id>" is num 99 *)
| RNav1 (id : Z)
| RNav2 (id : Z).

Record seginfo := mkSI { si_start : Z; si_end : Z; si_to : list rdest; si_type : Z; si_vnums : list Z }.

(* leap types *)
Definition TDEFAULT := 0. Definition TLEAP_START := 1. Definition TLEAP_END := 2.

(* id of the segment starting at time t: its index in the sorted boundary times, END for the
   last boundary, -2 when t is no boundary (KeyError in the implementation) *)
Definition id_at (times : list Z) (t : Z) : Z :=
  match index_of t times 0 with
  | Some i => if i =? Z.of_nat (length times) - 1 then END else i
  | None => -2
  end.

Definition si_add_to (d : list rdest) (s : seginfo) : seginfo :=
  mkSI (si_start s) (si_end s) (si_to s ++ d) (si_type s) (si_vnums s).
Definition si_set_type (ty : Z) (s : seginfo) : seginfo :=
  mkSI (si_start s) (si_end s) (si_to s) ty (si_vnums s).
Definition si_add_vnums (ns : list Z) (s : seginfo) : seginfo :=
  mkSI (si_start s) (si_end s) (si_to s) (si_type s) (si_vnums s ++ ns).

Definition upd_at (times : list Z) (t : Z) (f : seginfo -> seginfo) (infos : list seginfo) : list seginfo :=
  match index_of t times 0 with
  | Some i => upd_nth (Z.to_nat i) f infos     (* the END entry is beyond the list: no effect *)
  | None => infos
  end.

Record sstate := mkSS { ss_infos : list seginfo; ss_cvrs : Z; ss_cvend : Z; ss_cvtotal : Z }.

Definition hd0 (l : list Z) : Z := match l with x :: _ => x | [] => -3 end.

(* the `for volta_number in range(10)` scan over consecutive volta brackets *)
Fixpoint volta_scan (n : nat) (b : bmap) (times : list Z) (i : nat) (st : sstate) : sstate :=
  match n with
  | O => st
  | S n' =>
      match zlookup BVS (bget (ss_cvend st) b) with
      | Some (vs, ve, nums) =>
          let id := id_at times (ss_cvend st) in
          let infos := upd_nth i (si_add_to (map (fun no => RVolta no id) nums)) (ss_infos st) in
          let infos := upd_at times (ss_cvend st) (si_add_vnums nums) infos in
          volta_scan n' b times i (mkSS infos (ss_cvrs st) ve (ss_cvtotal st + Z.of_nat (length nums)))
      | None => st
      end
  end.

Definition step_boundary (m : marks) (b : bmap) (times : list Z) (i : nat) (ss se : Z)
           (st : sstate) (kv : Z * payload) : sstate :=
  let '(k, (ps, pe, pn)) := kv in
  let idse := id_at times se in
  let addto d st := mkSS (upd_nth i (si_add_to d) (ss_infos st)) (ss_cvrs st) (ss_cvend st) (ss_cvtotal st) in
  let settype_i ty st := mkSS (upd_nth i (si_set_type ty) (ss_infos st)) (ss_cvrs st) (ss_cvend st) (ss_cvtotal st) in
  let settype_se ty st := mkSS (upd_at times se (si_set_type ty) (ss_infos st)) (ss_cvrs st) (ss_cvend st) (ss_cvtotal st) in
  if k =? BRS then addto [RPlain idse] st
  else if k =? BRE then
    if bhas se BVE b then st else addto [RPlain idse; RPlain (id_at times ps)] st
  else if k =? BVS then
    if bhas se BVE b then st
    else volta_scan 10 b times i (mkSS (ss_infos st) (ss_cvrs st) se 0)
  else if k =? BVE then
    let cur := match nth_error (ss_infos st) i with Some s => si_vnums s | None => [] end in
    let st := fold_left (fun st vn =>
                if vn =? ss_cvtotal st then st
                else
                  let cvrs := match zlookup BRE (bget se b) with
                              | Some (rs, _, _) => Z.max rs (ss_cvrs st)
                              | None => ss_cvrs st end in
                  addto [RVolta 99 (id_at times cvrs)] (mkSS (ss_infos st) cvrs (ss_cvend st) (ss_cvtotal st)))
              cur st in
    if zmem (ss_cvtotal st) cur then addto [RPlain (id_at times (ss_cvend st))] st else st
  else if k =? BCODA then settype_se TLEAP_END (addto [RPlain idse] st)
  else if k =? BTOCODA then
    settype_i TLEAP_START (addto [RPlain idse; RNav2 (id_at times (hd0 (m_coda m)))] st)
  else if k =? BSEGNO then settype_se TLEAP_END (addto [RPlain idse] st)
  else if k =? BDALSEGNO then
    settype_i TLEAP_START (addto [RPlain idse; RNav1 (id_at times (hd0 (m_segno m))); RNav2 idse] st)
  else if k =? BDACAPO then
    settype_i TLEAP_START (addto [RPlain idse; RNav1 (id_at times (m_first m)); RNav2 idse] st)
  else if k =? BFINE then addto [RPlain idse; RNav2 (id_at times (m_last m))] st
  else if k =? BEND then addto [RPlain idse] st
  else st.

Fixpoint seg_loop (m : marks) (b : bmap) (times : list Z) (i : nat) (ts : list Z) (st : sstate) : sstate :=
  match ts with
  | ss :: ((se :: _) as rest) =>
      let st := fold_left (step_boundary m b times i ss se) (bget se b) st in
      (* "the first segment is always a leap destination (da capo)": ss == boundary_times[0] *)
      let st := if Nat.eqb i 0 then mkSS (upd_nth i (si_set_type TLEAP_END) (ss_infos st)) (ss_cvrs st) (ss_cvend st) (ss_cvtotal st) else st in
      seg_loop m b times (S i) rest st
  | _ => st
  end.

Fixpoint init_infos (ts : list Z) : list seginfo :=
  match ts with
  | s :: ((e :: _) as rest) => mkSI s e [] TDEFAULT [] :: init_infos rest
  | _ => []
  end.

(* clean-up and ordering of the destinations of one segment *)
Definition plain_ids (l : list rdest) : list Z :=
  flat_map (fun d => match d with RPlain i => [i] | _ => [] end) l.
Definition volta_pairs (l : list rdest) : list (Z * Z) :=
  flat_map (fun d => match d with RVolta n i => [(n, i)] | _ => [] end) l.
Definition nav1_ids (l : list rdest) : list Z :=
  flat_map (fun d => match d with RNav1 i => [i] | _ => [] end) l.
Definition nav2_ids (l : list rdest) : list Z :=
  flat_map (fun d => match d with RNav2 i => [i] | _ => [] end) l.

Definition pair_le (a b : Z * Z) : bool :=
  (fst a <? fst b) || ((fst a =? fst b) && (snd a <=? snd b)).
Fixpoint pinsert (x : Z * Z) (l : list (Z * Z)) : list (Z * Z) :=
  match l with [] => [x] | y :: r => if pair_le x y then x :: l else y :: pinsert x r end.
Definition psort (l : list (Z * Z)) : list (Z * Z) := fold_right pinsert [] l.

Definition clean_to (raw : list rdest) : list Z * list Z :=
  let nov := zdedup (plain_ids raw) in
  let vol := volta_pairs raw in
  let nav1 := nav1_ids raw in
  let nav2 := nav2_ids raw in
  let has_end := zmem END nov || zmem END nav1 in
  let nov := if has_end then filter (fun x => negb (x =? END)) nov else nov in
  let nav1 := if has_end then nav1 ++ [END] else nav1 in
  let nov := zsort nov in
  let vol := map snd (psort vol) in
  let nov := filter (fun d => negb (zmem d vol)) nov in
  (vol ++ nov ++ nav1, nav2).

Record seg := mkSeg { s_id : Z; s_start : Z; s_end : Z; s_to : list Z; s_await : list Z; s_type : Z }.

Fixpoint finish_segs (i : Z) (infos : list seginfo) : list seg :=
  match infos with
  | [] => []
  | s :: r => let '(to, aw) := clean_to (si_to s) in
              mkSeg i (si_start s) (si_end s) to aw (si_type s) :: finish_segs (i + 1) r
  end.

Definition make_segments (m : marks) : list seg :=
  let b := boundaries m in
  let times := zsort (map fst b) in
  (* current_volta_repeat_start = boundary_times[0]: an ending that repeats without a repeat sign
     repeats from the beginning *)
  let st := seg_loop m b times O times (mkSS (init_infos times) (hd0 times) 0 0) in
  finish_segs 0 (ss_infos st).

(* ------------------------------------------------------------------ *)
(* 2. paths *)

Record pstate := mkP {
  p_path : list Z;                    (* segment ids visited so far, in order *)
  p_used : list (Z * list Z);         (* used jumps per segment *)
  p_jumped : bool; p_norep : bool; p_allrep : bool;
  p_segs : list seg }.                (* the path's own segment table *)

Definition find_seg (id : Z) (segs : list seg) : option seg :=
  if id <? 0 then None else nth_error segs (Z.to_nat id).

Definition used_of (id : Z) (u : list (Z * list Z)) : list Z :=
  match zlookup id u with Some l => l | None => [] end.

Fixpoint used_append (id d : Z) (u : list (Z * list Z)) : list (Z * list Z) :=
  match u with
  | [] => [(id, [d])]
  | (k, l) :: r => if id =? k then (k, l ++ [d]) :: r else (k, l) :: used_append id d r
  end.

Fixpoint zcount (x : Z) (l : list Z) : Z :=
  match l with [] => 0 | y :: r => (if x =? y then 1 else 0) + zcount x r end.

Fixpoint positions (x : Z) (l : list Z) (i : Z) : list Z :=
  match l with [] => [] | y :: r => if x =? y then i :: positions x r (i + 1) else positions x r (i + 1) end.

Definition zlast (l : list Z) : Z := last l (-3).

(* index (mod len) of the cnt-th occurrence of the last used destination in destinations*100 *)
Definition last_dest_index (to used : list Z) : option Z :=
  let ld := zlast used in
  let cnt := zcount ld used in
  let pos := positions ld to 0 in
  match pos with
  | [] => None                                   (* IndexError *)
  | _ => if 100 * Z.of_nat (length pos) <? cnt then None
         else nth_error pos (Z.to_nat ((cnt - 1) mod Z.of_nat (length pos)))
  end.

Definition znth (l : list Z) (i : Z) : option Z := if i <? 0 then None else nth_error l (Z.to_nat i).

(* Path.list_of_destinations_from_last_segment; None = the implementation raises *)
Definition dests (st : pstate) : option (list Z) :=
  match find_seg (zlast (p_path st)) (p_segs st) with
  | None => None
  | Some sg =>
      let to := s_to sg in
      let used := used_of (zlast (p_path st)) (p_used st) in
      let len := Z.of_nat (length to) in
      match used with
      | [] =>
          if p_norep st then (match to with [] => None | _ => Some [zlast to] end)
          else if p_allrep st then (match to with [] => None | x :: _ => Some [x] end)
          else Some to
      | _ =>
          match last_dest_index to used with
          | None => None
          | Some ldi =>
              if p_norep st then Some [zlast to]
              else if p_allrep st then
                (if ldi <? len - 1 then option_map (fun x => [x]) (znth to (ldi + 1))
                 else option_map (fun x => [x]) (znth to 0))
              else
                (if ldi <? len - 1 then Some (skipn (Z.to_nat (ldi + 1)) to) else Some to)
          end
      end
  end.

(* Python string comparison  idx <= seg.id  on ids chr(65+i) and "END" *)
Definition dest_le (x id : Z) : bool := if x =? END then 5 <=? id else x <=? id.

Definition rewrite_seg (s : seg) : seg :=
  match s_await s with
  | [] => s
  | _ => mkSeg (s_id s) (s_start s) (s_end s)
               (filter (fun x => dest_le x (s_id s)) (s_to s) ++ s_await s) (s_await s) (s_type s)
  end.

Definition seg_type (id : Z) (segs : list seg) : Z :=
  match find_seg id segs with Some s => s_type s | None => -1 end.

(* Path.make_copy_with_jump_to *)
Definition jump (ignore_leaps : bool) (st : pstate) (d : Z) : pstate :=
  let lastid := zlast (p_path st) in
  let used1 := used_append lastid d (p_used st) in
  let path1 := p_path st ++ [d] in
  if (seg_type d (p_segs st) =? TLEAP_END) && (seg_type lastid (p_segs st) =? TLEAP_START) then
    let norep := if ignore_leaps then p_norep st else true in
    if p_jumped st then mkP path1 used1 true norep (p_allrep st) (p_segs st)
    else mkP path1 [(lastid, [d])] true norep (p_allrep st) (map rewrite_seg (p_segs st))
  else mkP path1 used1 (p_jumped st) (p_norep st) (p_allrep st) (p_segs st).

(* unfold_paths; None = out of fuel or the implementation raises *)
Fixpoint unfold (fuel : nat) (ign : bool) (st : pstate) : option (list (list Z)) :=
  match fuel with
  | O => None
  | S f =>
      match dests st with
      | None => None
      | Some ds =>
          (fix go (ds : list Z) : option (list (list Z)) :=
             match ds with
             | [] => Some []
             | d :: r =>
                 match (if d =? END then Some [p_path st] else
                          match find_seg d (p_segs st) with
                          | None => None
                          | Some _ => unfold f ign (jump ign st d) end) with
                 | None => None                       (* the exception aborts the whole search *)
                 | Some a => match go r with Some b => Some (a ++ b) | None => None end
                 end
             end) ds
      end
  end.

Definition init_path (norep allrep : bool) (segs : list seg) : pstate :=
  mkP [0] [] false norep allrep segs.

Definition get_paths (fuel : nat) (segs : list seg) (norep allrep ign : bool) : option (list (list Z)) :=
  unfold fuel ign (init_path norep allrep segs).

(* ------------------------------------------------------------------ *)
(* 3. variant construction over abstract objects *)

Definition cls_note := 0. Definition cls_rest := 1. Definition cls_grace := 2.
Definition cls_timesig := 4. Definition cls_keysig := 5. Definition cls_clef := 6.
Definition cls_fermata := 9.
(* Repeat Ending ToCoda DaCapo DalSegno Segment System Page *)
Definition skip_classes : list Z := [10; 11; 12; 13; 14; 15; 16; 17].
Definition is_skip (c : Z) : bool := zmem c skip_classes.
Definition is_sigcls (c : Z) : bool := (c =? cls_timesig) || (c =? cls_keysig) || (c =? cls_clef).

Record obj := mkObj {
  o_id : Z; o_cls : Z; o_start : Z; o_end : option Z;
  o_sig : Z;                          (* key of the compared attributes (sig classes); fermata: 1 if ref in (None, right) *)
  o_attrs : Z * Z * Z;                (* pitch, voice, staff -- copied verbatim *)
  o_refs : list (Z * list Z) }.       (* (attribute, target object ids) *)

Record nobj := mkN {
  n_id : Z; n_visit : Z; n_extra : bool; n_cls : Z; n_start : Z; n_end : option Z;
  n_sig : Z; n_attrs : Z * Z * Z;
  n_refs : list (Z * list (option (Z * Z))) }.   (* targets: (object id, visit) or None *)

Definition shift_opt (d : Z) (e : option Z) : option Z := option_map (fun x => x + d) e.

(* the object found by next(tp_new.iter_prev(cls)): among the copies made so far that start
   strictly before t, the one at the latest time, first inserted there *)
Definition prev_of (c t : Z) (acc : list nobj) : option nobj :=
  fold_left (fun best n =>
               if (n_cls n =? c) && (n_start n <? t) then
                 match best with
                 | Some b => if n_start b <? n_start n then Some n else best
                 | None => Some n
                 end
               else best) acc None.

Definition in_seg (s e : Z) (o : obj) : bool := (s <=? o_start o) && (o_start o <? e).

Definition raw_copy (k delta : Z) (extra : bool) (o : obj) : nobj :=
  mkN (o_id o) k extra (o_cls o) (o_start o + delta) (shift_opt delta (o_end o)) (o_sig o) (o_attrs o)
      (map (fun r => (fst r, map (fun t => Some (t, -1)) (snd r))) (o_refs o)).

(* first pass over one visit: returns the accumulated new objects (previous ++ this visit's) *)
Definition copy_step (k s e delta : Z) (acc : list nobj) (o : obj) : list nobj :=
  if negb (in_seg s e o) then acc
  else if is_skip (o_cls o) then acc
  else if is_sigcls (o_cls o) &&
          match prev_of (o_cls o) (o_start o + delta) acc with
          | Some p => n_sig p =? o_sig o
          | None => false end then acc
  else acc ++ [raw_copy k delta false o].

Definition fermata_extras (k e delta : Z) (objs : list obj) : list nobj :=
  map (raw_copy k delta true)
      (filter (fun o => (o_cls o =? cls_fermata) && (o_start o =? e) && (o_sig o =? 1)) objs).

(* attributes 0 tie_prev 1 tie_next 6 grace_next 7 grace_prev 8 start_note 9 end_note hold one
   reference (None when the target was not copied: no target left); 2..5 (slur/tuplet starts and
   stops) are lists whose slots are kept, holding None *)
Definition single_attrs : list Z := [0; 1; 6; 7; 8; 9].
Definition is_some {A} (o : option A) : bool := match o with Some _ => true | None => false end.

Definition replace_ref (k : Z) (copied : list Z) (r : Z * list (option (Z * Z))) : Z * list (option (Z * Z)) :=
  let mapped := map (fun t => match t with
                              | Some (i, _) => if zmem i copied then Some (i, k) else None
                              | None => None end) (snd r) in
  (fst r, if zmem (fst r) single_attrs then filter is_some mapped else mapped).

Definition replace_refs (k : Z) (copied : list Z) (n : nobj) : nobj :=
  if n_extra n || negb (n_visit n =? k) then n
  else mkN (n_id n) (n_visit n) (n_extra n) (n_cls n) (n_start n) (n_end n) (n_sig n) (n_attrs n)
           (map (replace_ref k copied) (n_refs n)).

Definition visit (objs : list obj) (k s e off : Z) (acc : list nobj) : list nobj :=
  let delta := off - s in
  let acc1 := fold_left (copy_step k s e delta) objs acc in
  let copied := map n_id (filter (fun n => (n_visit n =? k) && negb (n_extra n)) acc1) in
  let acc2 := acc1 ++ fermata_extras k e delta objs in
  map (replace_refs k copied) acc2.

Fixpoint variant_go (objs : list obj) (vs : list (Z * Z)) (k off : Z) (acc : list nobj) : list nobj :=
  match vs with
  | [] => acc
  | (s, e) :: r => variant_go objs r (k + 1) (off + (e - s)) (visit objs k s e off acc)
  end.

Definition total_len (vs : list (Z * Z)) : Z := fold_right (fun v a => (snd v - fst v) + a) 0 vs.

(* the copies before their ends are clamped *)
Definition variant_raw (objs : list obj) (vs : list (Z * Z)) : list nobj := variant_go objs vs 0 0 [].

(* tp_end = part.get_or_add_point(min(o.end.t + delta, self.t_unfold)): an object that continues after
   the end of its segment never ends after the end of the unfolded part *)
Definition clip_end (T : Z) (n : nobj) : nobj :=
  mkN (n_id n) (n_visit n) (n_extra n) (n_cls n) (n_start n) (option_map (Z.min T) (n_end n))
      (n_sig n) (n_attrs n) (n_refs n).

Definition variant (objs : list obj) (vs : list (Z * Z)) : list nobj :=
  map (clip_end (total_len vs)) (variant_raw objs vs).

(* visits of a path: (start, end) of each segment id; None for an unknown id *)
Fixpoint visits_of (segs : list seg) (p : list Z) : option (list (Z * Z)) :=
  match p with
  | [] => Some []
  | i :: r => match find_seg i segs, visits_of segs r with
              | Some s, Some l => Some ((s_start s, s_end s) :: l)
              | _, _ => None end
  end.

(* update_note_ids_after_unfolding: suffix of a note copy = 1 + number of copies of the same
   original note that start earlier (ids of the original are assumed distinct) *)
Definition is_pitched (c : Z) : bool := (c =? cls_note) || (c =? cls_grace).
Definition id_suffix (all : list nobj) (n : nobj) : Z :=
  if is_pitched (n_cls n) then
    1 + Z.of_nat (length (filter (fun m => (n_id m =? n_id n) && is_pitched (n_cls m) && (n_start m <? n_start n)) all))
  else 0.

(* ------------------------------------------------------------------ *)
(* 4. quarter durations of the unfolded part (create_variant_part: set_quarter_duration(offset,
      quarter_duration_map(start)) followed by the shifted entries of quarter_durations(start, end)) *)

Definition qtab := list (Z * Z).          (* (time, divisions per quarter), in list order *)

(* the value in force at t: the last entry, in list order, whose time is <= t (an entry set later
   at the same time replaces the earlier one); d when there is none *)
Definition qd_at (d : Z) (tbl : qtab) (t : Z) : Z :=
  last (map snd (filter (fun p => fst p <=? t) tbl)) d.

Fixpoint variant_qd_go (d : Z) (tbl : qtab) (vs : list (Z * Z)) (off : Z) : qtab :=
  match vs with
  | [] => []
  | (s, e) :: r =>
      ((off, qd_at d tbl s)
         :: map (fun p => (fst p - s + off, snd p)) (filter (fun p => (s <? fst p) && (fst p <? e)) tbl))
      ++ variant_qd_go d tbl r (off + (e - s))
  end.

Definition variant_qd (d : Z) (tbl : qtab) (vs : list (Z * Z)) : qtab := variant_qd_go d tbl vs 0.

(* normal form of a table with non-decreasing times: of several entries at one time the last one
   counts, and an entry repeating the value in force is dropped; two tables with the same normal
   form have the same value in force everywhere from the first time on *)
Fixpoint keep_last_per_time (tbl : qtab) : qtab :=
  match tbl with
  | [] => []
  | p :: r => match r with
              | q :: _ => if fst p =? fst q then keep_last_per_time r else p :: keep_last_per_time r
              | [] => [p]
              end
  end.

Fixpoint drop_repeats (cur : option Z) (tbl : qtab) : qtab :=
  match tbl with
  | [] => []
  | (t, q) :: r => match cur with
                   | Some c => if c =? q then drop_repeats cur r else (t, q) :: drop_repeats (Some q) r
                   | None => (t, q) :: drop_repeats (Some q) r
                   end
  end.

Definition qnorm (tbl : qtab) : qtab := drop_repeats None (keep_last_per_time tbl).

Definition zz_eqb (a b : Z * Z) : bool := (fst a =? fst b) && (snd a =? snd b).

(* ------------------------------------------------------------------ *)
(* canonical rows for the correspondence *)

(* oid, cls, start, end, (pitch | signature key, voice, staff), id suffix,
   refs with targets (oid, start of the target copy) *)
Definition row := (Z * Z * Z * option Z * (Z * Z * Z) * Z * list (Z * list (option (Z * Z))))%type.

Definition target_start (all : list nobj) (t : Z * Z) : Z :=
  match find (fun m => (n_id m =? fst t) && (n_visit m =? snd t) && negb (n_extra m)) all with
  | Some m => n_start m | None => -7 end.

Definition row_of (upd : bool) (all : list nobj) (n : nobj) : row :=
  (n_id n, n_cls n, n_start n, n_end n, n_attrs n, (if upd then id_suffix all n else 0),
   map (fun r => (fst r, map (option_map (fun t => (fst t, target_start all t))) (snd r))) (n_refs n)).

(* constructors for the case files (typed applications elaborate much faster than nested pairs) *)
Definition mkRow (i c s : Z) (e : option Z) (p v f x : Z) (r : list (Z * list (option (Z * Z)))) : row :=
  (i, c, s, e, (p, v, f), x, r).
Definition mkRef (a : Z) (l : list (option (Z * Z))) : Z * list (option (Z * Z)) := (a, l).
Definition mkT (i s : Z) : option (Z * Z) := Some (i, s).
Definition mkORef (a : Z) (l : list Z) : Z * list Z := (a, l).
Definition mkQ (t q : Z) : Z * Z := (t, q).

Definition row_key (r : row) : Z * Z := match r with (i, _, s, _, _, _, _) => (s, i) end.
Definition row_cls (r : row) : Z := match r with (_, c, _, _, _, _, _) => c end.
Definition row_start (r : row) : Z := match r with (_, _, s, _, _, _, _) => s end.
Definition row_sigkey (r : row) : Z := match r with (_, _, _, _, (p, _, _), _, _) => p end.
Fixpoint rinsert (x : row) (l : list row) : list row :=
  match l with [] => [x] | y :: r => if pair_le (row_key x) (row_key y) then x :: l else y :: rinsert x r end.
Definition rsort (l : list row) : list row := fold_right rinsert [] l.

Definition opt_eqb {A} (eqb : A -> A -> bool) (a b : option A) : bool :=
  match a, b with Some x, Some y => eqb x y | None, None => true | _, _ => false end.
(* references are compared without their empty (None) slots: the property asks that references
   stay inside the copy, not that a slot is kept for a partner that was not copied *)
Definition ref_eqb (a b : Z * list (option (Z * Z))) : bool :=
  (fst a =? fst b) && list_eqb (opt_eqb zz_eqb) (filter is_some (snd a)) (filter is_some (snd b)).
(* an attribute without a (non-None) reference is the same as no entry for that attribute *)
Definition live_refs (r : list (Z * list (option (Z * Z)))) : list (Z * list (option (Z * Z))) :=
  filter (fun x => existsb is_some (snd x)) r.
Definition row_eqb (a b : row) : bool :=
  match a, b with
  | (i1, c1, s1, e1, (p1, v1, f1), x1, r1), (i2, c2, s2, e2, (p2, v2, f2), x2, r2) =>
      (i1 =? i2) && (c1 =? c2) && (s1 =? s2) && zopt_eqb e1 e2 && (p1 =? p2) && (v1 =? v2) && (f1 =? f2)
      && (x1 =? x2) && list_eqb ref_eqb (live_refs r1) (live_refs r2)
  end.

(* multiset inclusion (small lists only) *)
Fixpoint remove_row (x : row) (l : list row) : option (list row) :=
  match l with
  | [] => None
  | y :: r => if row_eqb x y then Some r else option_map (cons y) (remove_row x r)
  end.
Fixpoint sub_rows (a b : list row) : bool :=
  match a with
  | [] => true
  | x :: r => match remove_row x b with Some b' => sub_rows r b' | None => false end
  end.

(* the classes compared row by row: everything except time/key signatures (compared through the
   signature in force), fermatas (the extra copy at a segment end is optional) and clefs *)
Definition is_exact_cls (c : Z) : bool :=
  negb ((c =? cls_timesig) || (c =? cls_keysig) || (c =? cls_clef) || (c =? cls_fermata)).

(* sequence of signature changes of class c: (start, key) with repeats of the key in force dropped *)
Definition sig_seq (c : Z) (rows : list row) : qtab :=
  qnorm (map (fun r => (row_start r, row_sigkey r)) (filter (fun r => row_cls r =? c) rows)).

(* every fermata sitting at the end of a visited segment, whatever its `ref` *)
Fixpoint fermata_allowed_go (objs : list obj) (vs : list (Z * Z)) (k off : Z) : list nobj :=
  match vs with
  | [] => []
  | (s, e) :: r =>
      map (raw_copy k (off - s) true) (filter (fun o => (o_cls o =? cls_fermata) && (o_start o =? e)) objs)
      ++ fermata_allowed_go objs r (k + 1) (off + (e - s))
  end.

Record variant_rows_t := mkVR {
  vr_exact : list row;            (* rows of the row-by-row classes, sorted *)
  vr_ferm_required : list row;    (* regular fermata copies *)
  vr_ferm_allowed : list row;     (* regular copies + one extra copy per fermata at a segment end *)
  vr_all : list row }.            (* all model rows (signatures as the implementation's rule keeps them) *)

Definition variant_rows (objs : list obj) (segs : list seg) (p : list Z) (upd : bool) : option variant_rows_t :=
  match visits_of segs p with
  | None => None
  | Some vs =>
      let all := variant objs vs in
      let rows := rsort (map (row_of upd all) (filter (fun n => negb (n_cls n =? cls_clef)) all)) in
      let freq := map (row_of upd all) (filter (fun n => (n_cls n =? cls_fermata) && negb (n_extra n)) all) in
      let fext := map (row_of false []) (map (clip_end (total_len vs)) (fermata_allowed_go objs vs 0 0)) in
      Some (mkVR (filter (fun r => is_exact_cls (row_cls r)) rows) freq (freq ++ fext) rows)
  end.

Definition rows_agree (m : variant_rows_t) (impl : list row) : bool :=
  let fi := filter (fun r => row_cls r =? cls_fermata) impl in
  list_eqb row_eqb (vr_exact m) (filter (fun r => is_exact_cls (row_cls r)) impl)
  && sub_rows (vr_ferm_required m) fi && sub_rows fi (vr_ferm_allowed m)
  && list_eqb zz_eqb (sig_seq cls_timesig (vr_all m)) (sig_seq cls_timesig impl)
  && list_eqb zz_eqb (sig_seq cls_keysig (vr_all m)) (sig_seq cls_keysig impl).

Definition seg_bounds_eqb (a b : seg) : bool :=
  (s_id a =? s_id b) && (s_start a =? s_start b) && (s_end a =? s_end b).
Definition seg_eqb (a b : seg) : bool :=
  seg_bounds_eqb a b
  && zlist_eqb (s_to a) (s_to b) && zlist_eqb (s_await a) (s_await b) && (s_type a =? s_type b).

(* path lists are compared as sets of paths: the order in which the variants are enumerated is
   not part of the property *)
Fixpoint zlist_leb (a b : list Z) : bool :=
  match a, b with
  | [], _ => true
  | _ :: _, [] => false
  | x :: r, y :: q => (x <? y) || ((x =? y) && zlist_leb r q)
  end.
Fixpoint linsert (x : list Z) (l : list (list Z)) : list (list Z) :=
  match l with [] => [x] | y :: r => if zlist_leb x y then x :: l else y :: linsert x r end.
Definition lsort (l : list (list Z)) : list (list Z) := fold_right linsert [] l.
Definition pathlists_eqb (a b : list (list Z)) : bool :=
  list_eqb zlist_eqb a b || ((length a =? length b)%nat && list_eqb zlist_eqb (lsort a) (lsort b)).
Definition paths_eqb (a b : option (list (list Z))) : bool := opt_eqb pathlists_eqb a b.

(* one correspondence case *)
Definition FUEL : nat := 64.

Record vcase := mkV { v_path : list Z; v_upd : bool; v_rows : list row; v_qd : qtab }.

Record ccase := mkC {
  c_marks : marks;
  c_objs : list obj;
  c_qd : qtab;                                         (* the original's quarter durations *)
  c_segs : list seg;                                   (* implementation: part.segments *)
  c_paths : list (bool * bool * bool * option (list (list Z)));   (* norep, allrep, ignore_leaps, Path.path lists *)
  c_variants : list vcase }.                           (* implementation: dumps of unfolded parts *)

(* segment boundaries (observable through every unfolded part) *)
Definition check_segs (c : ccase) : bool := list_eqb seg_bounds_eqb (make_segments (c_marks c)) (c_segs c).
(* destinations / leap types as partitura stores them: diagnostic only (the paths are what counts) *)
Definition check_seg_tables (c : ccase) : bool := list_eqb seg_eqb (make_segments (c_marks c)) (c_segs c).
Definition check_paths (c : ccase) : bool :=
  forallb (fun q => match q with (nr, ar, ig, ps) =>
                      paths_eqb (get_paths FUEL (make_segments (c_marks c)) nr ar ig) ps end) (c_paths c).
Definition check_variants (c : ccase) : bool :=
  forallb (fun v => match variant_rows (c_objs c) (make_segments (c_marks c)) (v_path v) (v_upd v) with
                    | Some m => rows_agree m (v_rows v)
                    | None => false end) (c_variants c).
Definition check_qd (c : ccase) : bool :=
  forallb (fun v => match visits_of (make_segments (c_marks c)) (v_path v) with
                    | Some vs => list_eqb zz_eqb (qnorm (variant_qd 1 (c_qd c) vs)) (qnorm (v_qd v))
                    | None => false end) (c_variants c).

(* 0 = agree; 1 segment boundaries differ; 2 paths differ; 3 a variant differs; 4 quarter durations differ *)
Definition check_case (c : ccase) : Z :=
  if negb (check_segs c) then 1 else if negb (check_paths c) then 2 else if negb (check_variants c) then 3
  else if negb (check_qd c) then 4 else 0.
