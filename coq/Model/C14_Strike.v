(* C14 (round j) -- the re-strike clipping of partitura/performance.py: adjust_offsets_w_sustain AS CODED,
   on arrays and indices:

     for pitch in np.unique(pitches):
         pitch_indices  = np.where(pitches == pitch)[0]
         sorted_indices = pitch_indices[np.argsort(note_ons[pitch_indices])]
         sorted_note_ons   = note_ons[sorted_indices]                    (gather)
         sorted_sound_offs = offs[sorted_indices]                        (gather)
         next_strike = np.maximum(np.searchsorted(sorted_note_ons, note_offs[sorted_indices]),
                                  np.arange(1, len(sorted_indices) + 1))
         has_next = next_strike < len(sorted_indices)
         sorted_sound_offs[has_next] = np.minimum(sorted_sound_offs[has_next], sorted_note_ons[next_strike[has_next]])
         offs[sorted_indices] = sorted_sound_offs                        (scatter)

   Model/C14.v describes the same step by a search ("the first strike of the pitch at or after the release,
   later in onset order": find over the rest of the group); here the index arithmetic, the gathers and the
   in-place scatter into ONE array that is carried from pitch to pitch are spelled out, so that the slips this
   algorithm can have (no np.maximum with arange, searchsorted side, a group that leaves notes out, a scatter
   to the wrong positions) are expressible.  Definitions only; proofs in Proofs/C14_strike.v. *)
From PV Require Import Lib.Base Model.C14.
From Coq Require Import QArith Qminmax.
#[local] Open Scope Q_scope.

(* np.unique(pitches): the distinct pitches in ascending order *)
Fixpoint zinsert (x : Z) (l : list Z) : list Z :=
  match l with
  | [] => [x]
  | y :: r => if (x <? y)%Z then x :: y :: r else if (x =? y)%Z then y :: r else y :: zinsert x r
  end.
Definition unique_pitches (ns : list note) : list Z := fold_right zinsert [] (map n_pitch ns).

(* sorted_indices: positions of the notes of the pitch, by onset (np.where + np.argsort) *)
Definition sorted_indices (ns : list note) (p : Z) : list nat := map fst (pitch_group ns p).

(* a[idx] *)
Definition gather (a : list Q) (idx : list nat) : list Q := map (fun i => nth i a 0) idx.

(* a[i] = v (in place; an index outside the array cannot occur, the array is left alone then) *)
Fixpoint set_nth (a : list Q) (i : nat) (v : Q) : list Q :=
  match a, i with
  | [], _ => []
  | _ :: r, O => v :: r
  | x :: r, S i' => x :: set_nth r i' v
  end.
(* a[idx] = vals, position by position *)
Definition scatter (a : list Q) (idx : list nat) (vals : list Q) : list Q :=
  fold_left (fun acc iv => set_nth acc (fst iv) (snd iv)) (combine idx vals) a.

(* np.searchsorted(xs, x, side="right"): number of leading entries <= x (only used by a refuted variant) *)
Fixpoint searchsorted_right (xs : list Q) (x : Q) : nat :=
  match xs with
  | [] => O
  | y :: r => if Qle_bool y x then S (searchsorted_right r x) else O
  end.

(* the index of the next strike of the k-th note of the sorted group *)
Definition idx_code (sons : list Q) (k : nat) (off : Q) : nat := Nat.max (searchsorted_left sons off) (S k).
(* slips: without np.maximum(.., arange(1, n+1)); with side="right" *)
Definition idx_nomax (sons : list Q) (k : nat) (off : Q) : nat := searchsorted_left sons off.
Definition idx_right (sons : list Q) (k : nat) (off : Q) : nat := Nat.max (searchsorted_right sons off) (S k).

Section Loop.
  Variable idxf : list Q -> nat -> Q -> nat.

  Definition next_strike_idx (sons soffs : list Q) : list nat :=
    map (fun kx => idxf sons (fst kx) (snd kx)) (combine (seq 0 (List.length soffs)) soffs).

  (* has_next / np.minimum *)
  Definition clip_sorted (sons : list Q) (nxt : list nat) (sso : list Q) : list Q :=
    map (fun jx => if Nat.ltb (fst jx) (List.length sons) then Qmin (snd jx) (nth (fst jx) sons 0) else snd jx)
        (combine nxt sso).

  (* one pass of the loop body: [offs] is the array carried from pitch to pitch *)
  Definition restrike_pitch_with (ns : list note) (offs : list Q) (p : Z) : list Q :=
    let idx := sorted_indices ns p in
    let sons := gather (map n_on ns) idx in
    let nxt := next_strike_idx sons (gather (map n_off ns) idx) in
    scatter offs idx (clip_sorted sons nxt (gather offs idx)).

  Definition restrike_loop_with (ns : list note) (offs : list Q) : list Q :=
    fold_left (restrike_pitch_with ns) (unique_pitches ns) offs.

  (* the whole function: offs after "offs[pedal_down_at_off] = next_pedal_time[pedal_down_at_off]", then the loop *)
  Definition sound_offs_with (thr : Z) (ns : list note) (cs : list ctrl) : list Q :=
    match sorted_pedal cs with
    | [] => map n_off ns
    | sp =>
        let offs := map n_off ns in
        let first_off := qmin_list (hd 0 offs) offs in
        let last_off := qmax_list (hd 0 offs) offs in
        let tab := change_table first_off last_off (map (pedal_row thr) sp) in
        restrike_loop_with ns (map (pedal_off tab) offs)
    end.
End Loop.

Definition restrike_pitch := restrike_pitch_with idx_code.
Definition restrike_loop := restrike_loop_with idx_code.
Definition sound_offs_code := sound_offs_with idx_code.

(* slip of seed i: the groups are made of the notes the pedal holds at their release only *)
Definition restrike_pitch_sustained (down : list bool) (ns : list note) (offs : list Q) (p : Z) : list Q :=
  let idx := filter (fun i => nth i down false) (sorted_indices ns p) in
  let sons := gather (map n_on ns) idx in
  let nxt := next_strike_idx idx_code sons (gather (map n_off ns) idx) in
  scatter offs idx (clip_sorted sons nxt (gather offs idx)).
Definition sound_offs_sustained (thr : Z) (ns : list note) (cs : list ctrl) : list Q :=
  match sorted_pedal cs with
  | [] => map n_off ns
  | sp =>
      let offs := map n_off ns in
      let tab := change_table (qmin_list (hd 0 offs) offs) (qmax_list (hd 0 offs) offs) (map (pedal_row thr) sp) in
      let po := map (pedal_off tab) offs in
      let down := map (fun x => negb (Qeq_bool (fst x) (snd x))) (combine offs po) in
      fold_left (restrike_pitch_sustained down ns) (unique_pitches ns) po
  end.

(* ---- checker of the correspondence: the array-level model against the observed column (same tolerance for the
   closing moment as check_history) *)
Definition check_strike (c : Z * list note * list ctrl * list Q) : bool :=
  let '(thr, ns, cs, obs) := c in
  col_ok ns cs (sound_offs_code thr ns cs) obs.
