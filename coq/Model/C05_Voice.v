(* C05 -- the voice column, written out (definitions and boolean checkers only; proofs in
   Proofs/C05_voice.v).
   partitura/utils/music.py: note_array_from_note_list / rest_array_from_rest_list put
       note.voice if note.voice is not None else -1
   into the row and afterwards give every row whose column is -1 the number  max(column) + 1
   ("Sanitize voice information").  A voice the score STATES -- 0 (0-based numbering, what
   note_array_to_score creates for a 0-based voice column), a number after a gap, a negative number
   -- is therefore reported as it is; only a MISSING voice is replaced.  The one exception is the
   value -1 itself, which the code cannot tell from "no voice" (known finding C05-K1).
   Model/C05.v already carries [n_voice : option Z] and exactly this rule ([raw_row],
   [sanitize_voices]); here the rule is stated as a function of the note and the selection. *)
From PV Require Import Lib.Base Model.C05 Model.C05_Spec Model.C05_Ext Model.C05_Inv.
From Coq Require Import QArith.
#[local] Open Scope Z_scope.

(* what the loop writes into the column *)
Definition raw_voice (n : note) : Z := oz (n_voice n) (-1).

(* numpy's column.max() (0 for an empty column: the code's ValueError branch) *)
Definition zmax_of (l : list Z) : Z := match l with [] => 0 | x :: r => fold_left Z.max r x end.

(* the voice column of the row of [h] in the array of the selection [sel] (the chain heads among
   the sounding notes, or the rests) *)
Definition voice_rule (sel : list note) (h : note) : Z :=
  if raw_voice h =? -1 then zmax_of (map raw_voice sel) + 1 else raw_voice h.

(* what a row says about the voice of the note [h] it stands for: a stated voice is the column --
   0, after a gap, negative --; a missing voice is replaced by the maximum of the raw column + 1; the
   stated voice -1 is treated like a missing one (C05-K1) *)
Definition voice_column (sel : list note) (h : note) (r : row) : Prop :=
  (forall v, n_voice h = Some v -> v <> -1 -> r_voice r = v) /\
  (n_voice h = None -> r_voice r = zmax_of (map raw_voice sel) + 1) /\
  (n_voice h = Some (-1) -> r_voice r = zmax_of (map raw_voice sel) + 1).

(* ------------------------------------------------------------------ examples *)

Definition vnote (oid : Z) (id : string) (s e : Z) (step : string) (v : option Z) (rest : bool) : note :=
  mkNote oid id s e None None step None 4 v (Some 0) None rest.

(* id, voice and staff column of a row *)
Definition vview (r : row) : string * Z * Z := (r_id r, r_voice r, r_staff r).

(* voices 0, 1, none, 0 (0-based numbering next to a note without voice); a rest in voice 0 next to a
   rest without voice *)
Definition ex_voices : list note :=
  [ vnote 1 "a" 0 4 "C" (Some 0) false; vnote 2 "b" 4 8 "D" (Some 1) false;
    vnote 3 "c" 8 12 "E" None false;    vnote 4 "d" 12 16 "F" (Some 0) false;
    vnote 5 "r" 0 4 "C" (Some 0) true;  vnote 6 "s" 4 8 "C" None true ].

(* a gap and a negative voice: 0, 5, -3, none *)
Definition ex_voices_gap : list note :=
  [ vnote 1 "a" 0 4 "C" (Some 0) false; vnote 2 "b" 4 8 "D" (Some 5) false;
    vnote 3 "c" 8 12 "E" (Some (-3)) false; vnote 4 "d" 12 16 "F" None false ].

(* C05-K1: the stated voice -1 is not kept (voices -1, 2) *)
Definition ex_voices_k1 : list note :=
  [ vnote 1 "a" 0 4 "C" (Some (-1)) false; vnote 2 "b" 4 8 "D" (Some 2) false ].

(* ------------------------------------------------------------------ checker (correspondence) *)

(* the part note_array_to_score built states a voice for each of its notes ([i_voice] is read off the
   rebuilt part); the voice column of its note array (observed: onset_div, duration_div, pitch, voice,
   the voice of a note without voice shown as -1) is the model's [note_array_n] of the rebuilt notes *)
Definition rebuild_voice_ok (l : list irow) (obs : list (list Z)) : bool :=
  match note_array_n (rebuild 0 (inv_sort l)) (maps_of [] [] []) 1 with
  | Some rows => zl_multiset_eqb (map (fun r => [r_onset r; r_dur r; r_pitch r; r_voice r]) rows) obs
  | None => false
  end.
