(* C04 -- hand model of score -> MIDI -> score
   (partitura/io/exportmidi.py: get_ppq, save_score_midi, map_to_track_channel;
    partitura/io/importmidi.py: note_hash, the message loop of load_score_midi /
    load_performance_midi, assign_group_part_voice).
   Executable definitions and boolean checkers only; proofs are in Proofs/C04*.v. *)
From PV Require Import Lib.Base Lib.Round.
From Coq Require Import QArith.
#[local] Open Scope Z_scope.

(* ------------------------------------------------------------------ ppq *)
(* get_ppq: np.lcm.reduce over the quarter durations of all parts *)
Definition lcm_list (l : list Z) : Z := fold_right Z.lcm 1 l.

(* while ppq < minimum_ppq: ppq = ppq * 2 *)
Fixpoint double_until (fuel : nat) (ppq mn : Z) : option Z :=
  if mn <=? ppq then Some ppq
  else match fuel with O => None | S f => double_until f (2 * ppq) mn end.

Definition model_ppq (qdurs : list Z) (mn : Z) : option Z :=
  double_until (Z.to_nat mn) (lcm_list qdurs) mn.

(* ------------------------------------------------------------------ quarter map *)
(* qd = [(t0, q0); (t1, q1); ...] quarter durations, t0 = first time point = 0.
   qraw qd t = quarter notes elapsed between t0 and t (Part._time_interpolator with
   quarter=True before the pickup correction), exact. *)
Definition seg (a q : Z) : Q := Qmake a (Z.to_pos q).

Fixpoint qraw (qd : list (Z * Z)) (t : Z) : Q :=
  match qd with
  | [] => 0%Q
  | (t0, q0) :: rest =>
      match rest with
      | [] => seg (t - t0) q0
      | (t1, _) :: _ =>
          if t <=? t1 then seg (t - t0) q0 else (seg (t1 - t0) q0 + qraw rest t)%Q
      end
  end.

Record part := mkPart {
  p_group : Z;                       (* id of the top-level group (the part's own id when ungrouped) *)
  p_id : Z;
  p_qd : list (Z * Z);               (* quarter durations *)
  p_m1 : option (Z * Z * Z);         (* end of the measure starting at the first point, beats and beat_type
                                        of the time signature starting there (None: no such measure/signature) *)
  p_ts0 : Z * Z;                     (* time_signature_map(0): beats, beat_type *)
  p_notes : list (Z * Z * Z * Z);    (* start, duration_tied, midi pitch, voice -- in notes_tied order *)
  p_tsigs : list (Z * Z * Z);        (* t, beats, beat_type *)
  p_ksigs : list (Z * Z);            (* t, key code *)
  p_tempi : list (Z * Z) }.          (* t, microseconds per quarter *)

Definition qlt (a b : Q) : bool := negb (Qle_bool b a).
Definition qmin (a b : Q) : Q := if Qle_bool a b then a else b.

(* length of the pickup in quarters: y -= actual_dur when actual_dur < normal_dur *)
Definition anac (p : part) : Q :=
  match p_m1 p with
  | Some (e, b, bt) =>
      let actual := qraw (p_qd p) e in
      let normal := Qmake (4 * b) (Z.to_pos bt) in
      if qlt actual normal then actual else 0%Q
  | None => 0%Q
  end.

(* quarter_map *)
Definition quarter (p : part) (t : Z) : Q := (qraw (p_qd p) t - anac p)%Q.

(* quarter_map(0) of each part; the first time point is 0 *)
Definition q_first (p : part) : Q := quarter p 0.

Fixpoint min_first (ps : list part) : Q :=
  match ps with
  | [] => 0%Q
  | [p] => q_first p
  | p :: r => qmin (q_first p) (min_first r)
  end.

(* first part (stable sort) whose quarter_map(0) is minimal *)
Fixpoint arg_first (m : Q) (ps : list part) : option part :=
  match ps with
  | [] => None
  | p :: r => if Qeq_bool (q_first p) m then Some p else arg_first m r
  end.

(* anacrusis behaviours: 0 shift, 1 time_sig_change, 2 pad_bar *)
Definition ftp (an : Z) (ps : list part) : Q :=
  let m := min_first ps in
  if qlt m 0 then
    if an =? 2 then
      match arg_first m ps with
      | Some p => let '(b, bt) := p_ts0 p in Qopp (Qmake (4 * b) (Z.to_pos bt))
      | None => 0%Q
      end
    else m
  else 0%Q.

(* the exact (rational) tick and the conversion used by the code: int(np.round(.)) *)
Definition tick_q (ppq : Z) (f : Q) (p : part) (t : Z) : Q := (inject_Z ppq * (quarter p t - f))%Q.
Definition tick (ppq : Z) (f : Q) (p : part) (t : Z) : Z := round_half_even (tick_q ppq f p t).

(* ------------------------------------------------------------------ track / channel numbering *)
Definition key := (Z * Z * Z)%type.   (* group, part, voice *)
Definition k_grp (k : key) : Z := fst (fst k).
Definition k_part (k : key) : Z := snd (fst k).
Definition k_voice (k : key) : Z := snd k.
Definition k_pv (k : key) : Z * Z := (k_part k, k_voice k).

Definition zz_eqb (a b : Z * Z) : bool := (fst a =? fst b) && (snd a =? snd b).
Definition key_eqb (a b : key) : bool := zz_eqb (fst a) (fst b) && (snd a =? snd b).

Section Numbering.
  Context {A : Type} (eqb : A -> A -> bool).
  (* first occurrences, in order: the keys of a dict filled with setdefault *)
  Fixpoint dedup (l : list A) : list A :=
    match l with
    | [] => []
    | x :: r => x :: filter (fun y => negb (eqb x y)) (dedup r)
    end.
  (* position of the first occurrence = the value setdefault(x, len(helper)) stored *)
  Fixpoint index_of (x : A) (l : list A) : Z :=
    match l with
    | [] => 0
    | y :: r => if eqb x y then 0 else 1 + index_of x r
    end.
  Definition number (x : A) (l : list A) : Z := index_of x (dedup l).
End Numbering.

(* map_to_track_channel *)
Definition track_channel (mode : Z) (keys : list key) (k : key) : Z * Z :=
  match mode with
  | 0 => (number Z.eqb (k_part k) (map k_part keys),
          1 + number Z.eqb (k_voice k) (map k_voice (filter (fun x => k_part x =? k_part k) keys)))
  | 1 => (number Z.eqb (k_grp k) (map k_grp keys),
          1 + number Z.eqb (k_part k) (map k_part (filter (fun x => k_grp x =? k_grp k) keys)))
  | 2 => (0, 1 + number Z.eqb (k_part k) (map k_part keys))
  | 3 => (number Z.eqb (k_part k) (map k_part keys), 1)
  | 4 => (0, 1)
  | 5 => (number zz_eqb (k_pv k) (map k_pv keys), 1)
  | _ => (0, 1)
  end.

(* assign_group_part_voice on the sorted (track, channel) keys: group (-1 = None), part, voice (0 = None) *)
Definition import_gpv (mode : Z) (tc : list (Z * Z)) (k : Z * Z) : Z * Z * Z :=
  match mode with
  | 0 => (-1, number Z.eqb (fst k) (map fst tc),
          1 + number Z.eqb (snd k) (map snd (filter (fun x => fst x =? fst k) tc)))
  | 1 => (number Z.eqb (fst k) (map fst tc), number zz_eqb k tc, 0)
  | 2 => (-1, 0, 1 + number Z.eqb (fst k) (map fst tc))
  | 3 => (-1, number Z.eqb (fst k) (map fst tc), 0)
  | 4 => (-1, 0, 0)
  | 5 => (-1, number zz_eqb k tc, 0)
  | _ => (-1, 0, 0)
  end.

(* ------------------------------------------------------------------ messages *)
(* (time, kind, a, b, c): kind 0 note_off (a channel, b pitch), 1 note_on (a channel, b pitch, c velocity),
   2 time_signature (a numerator, b denominator), 3 key_signature (a key code), 4 set_tempo (a mpq) *)
Definition msg := (Z * Z * Z * Z * Z)%type.
Definition m_time (m : msg) : Z := let '(t, _, _, _, _) := m in t.
Definition m_kind (m : msg) : Z := let '(_, k, _, _, _) := m in k.
Definition set_time (t : Z) (m : msg) : msg := let '(_, k, a, b, c) := m in (t, k, a, b, c).

Definition msg_eqb (x y : msg) : bool :=
  let '(t, k, a, b, c) := x in let '(t', k', a', b', c') := y in
  (t =? t') && (k =? k') && (a =? a') && (b =? b') && (c =? c').

(* absolute <-> delta times *)
Fixpoint delta_from (prev : Z) (ts : list Z) : list Z :=
  match ts with [] => [] | t :: r => (t - prev) :: delta_from t r end.
Definition delta (ts : list Z) : list Z := delta_from 0 ts.
Fixpoint undelta_from (acc : Z) (ds : list Z) : list Z :=
  match ds with [] => [] | d :: r => (acc + d) :: undelta_from (acc + d) r end.
Definition undelta (ds : list Z) : list Z := undelta_from 0 ds.

(* running time of the importer: t_raw = t_raw + msg.time *)
Fixpoint abs_from (acc : Z) (ms : list msg) : list msg :=
  match ms with [] => [] | m :: r => set_time (acc + m_time m) m :: abs_from (acc + m_time m) r end.
Definition absolute (ms : list msg) : list msg := abs_from 0 ms.

(* insertion sort of tick values *)
Fixpoint zinsert (x : Z) (l : list Z) : list Z :=
  match l with [] => [x] | y :: r => if x <=? y then x :: l else y :: zinsert x r end.
Definition zsort (l : list Z) : list Z := fold_right zinsert [] l.

(* tempo dict: tempos[tick] = message (a later part replaces the value at an existing tick) *)
Fixpoint tempo_set (t v : Z) (l : list (Z * Z)) : list (Z * Z) :=
  match l with
  | [] => [(t, v)]
  | (t', v') :: r => if t =? t' then (t, v) :: r else (t', v') :: tempo_set t v r
  end.

(* ------------------------------------------------------------------ exporter *)
Definition part_keys (p : part) : list key :=
  map (fun n => let '(_, _, _, v) := n in (p_group p, p_id p, v)) (p_notes p).

(* event_keys: first occurrences of (group, part, voice) in note order, parts in order *)
Definition all_keys (ps : list part) : list key := dedup key_eqb (flat_map part_keys ps).

Definition all_qdurs (ps : list part) : list Z := flat_map (fun p => map snd (p_qd p)) ps.

Definition note_events (mode vel ppq : Z) (f : Q) (keys : list key) (p : part) : list (Z * msg) :=
  flat_map (fun n => let '(s, d, pitch, v) := n in
                     let '(tr, ch) := track_channel mode keys (p_group p, p_id p, v) in
                     [(tr, (tick ppq f p s, 1, ch, pitch, vel));
                      (tr, (tick ppq f p (s + d), 0, ch, pitch, 0))]) (p_notes p).

(* tracks in which the time/key signatures of a part are replicated *)
Definition part_tracks (mode : Z) (keys : list key) (p : part) : list Z :=
  dedup Z.eqb (map (fun k => fst (track_channel mode keys k)) (filter (fun k => k_part k =? p_id p) keys)).

Fixpoint tsig_events (an ppq : Z) (f : Q) (p : part) (first : bool) (l : list (Z * Z * Z)) : list msg :=
  match l with
  | [] => []
  | (t, b, bt) :: r =>
      ((if first && (an =? 2) then 0 else tick ppq f p t), 2, b, bt, 0) :: tsig_events an ppq f p false r
  end.

(* time signatures are modelled for shift and pad_bar only; under time_sig_change the
   measure-fitting signatures are judged by the harness' direct oracle *)
Definition meta_events (mode an ppq : Z) (f : Q) (keys : list key) (p : part) : list (Z * msg) :=
  let ms := (if an =? 1 then [] else tsig_events an ppq f p true (p_tsigs p))
            ++ map (fun ks => let '(t, code) := ks in (tick ppq f p t, 3, code, 0, 0)) (p_ksigs p) in
  flat_map (fun tr => map (fun m => (tr, m)) ms) (part_tracks mode keys p).

(* tempos are collected over the parts in order; the default is set after the first
   part that leaves the dict empty *)
Fixpoint tempo_dict (ppq : Z) (f : Q) (ps : list part) (acc : list (Z * Z)) : list (Z * Z) :=
  match ps with
  | [] => acc
  | p :: r =>
      let acc1 := fold_left (fun a tp => let '(t, mpq) := tp in tempo_set (tick ppq f p t) mpq a) (p_tempi p) acc in
      let acc2 := match acc1 with [] => [(0, 500000)] | _ => acc1 end in
      tempo_dict ppq f r acc2
  end.

Definition model_events (mode vel an ppq : Z) (ps : list part) : list (Z * msg) :=
  let f := ftp an ps in
  let keys := all_keys ps in
  map (fun tv => (0, (fst tv, 4, snd tv, 0, 0))) (tempo_dict ppq f ps [])
  ++ flat_map (meta_events mode an ppq f keys) ps
  ++ flat_map (note_events mode vel ppq f keys) ps.

Definition track_of (i : Z) (evs : list (Z * msg)) : list msg :=
  map snd (filter (fun e => fst e =? i) evs).

Definition n_tracks (mode : Z) (ps : list part) : Z :=
  let keys := all_keys ps in
  1 + fold_right Z.max 0 (map (fun k => fst (track_channel mode keys k)) keys).

(* multiset equality by removal *)
Fixpoint remove1 (x : msg) (l : list msg) : option (list msg) :=
  match l with
  | [] => None
  | y :: r => if msg_eqb x y then Some r else match remove1 x r with Some r' => Some (y :: r') | None => None end
  end.
Fixpoint mset_eqb (a b : list msg) : bool :=
  match a with
  | [] => match b with [] => true | _ => false end
  | x :: r => match remove1 x b with Some b' => mset_eqb r b' | None => false end
  end.

Definition zlist_eqb := list_eqb Z.eqb.

(* observed note_off messages are printed with c = 0 by the harness *)
Definition is_tsig (m : msg) : bool := m_kind m =? 2.

(* export checker.  obs_tracks: the messages of every track of the written file, in file order,
   with their delta times. *)
Definition check_export (mode vel an mn : Z) (ps : list part) (obs_ppq : Z) (obs_tracks : list (list msg)) : bool :=
  match model_ppq (all_qdurs ps) mn with
  | None => false
  | Some ppq =>
      (ppq =? obs_ppq)
      && (Z.of_nat (List.length obs_tracks) =? n_tracks mode ps)
      && (let evs := model_events mode vel an ppq ps in
          (fix go (i : Z) (trs : list (list msg)) : bool :=
             match trs with
             | [] => true
             | tr :: r =>
                 let obs_abs := absolute tr in
                 let obs_cmp := if an =? 1 then filter (fun m => negb (is_tsig m)) obs_abs else obs_abs in
                 let mod_tr := track_of i evs in
                 let ticks := map m_time mod_tr
                              ++ (if an =? 1 then map m_time (filter is_tsig obs_abs) else []) in
                 mset_eqb mod_tr obs_cmp
                 && zlist_eqb (map m_time tr) (delta (zsort ticks))
                 && go (i + 1) r
             end) 0 obs_tracks)
  end.

(* ------------------------------------------------------------------ importer *)
(* as key for the dict use channel * 128 (max number of pitches) + pitch *)
Definition note_hash (channel pitch : Z) : Z := channel * 128 + pitch.

Definition note := (Z * Z * Z * Z)%type.   (* channel, onset, pitch, duration *)

(* the message loop: sounding_notes keyed by note_hash; a note_on with velocity 0 ends a note *)
Fixpoint pair_notes (open : Z -> option Z) (evs : list msg) : list note :=
  match evs with
  | [] => []
  | (t, kind, ch, pitch, vel) :: r =>
      let h := note_hash ch pitch in
      if (kind =? 1) && (0 <? vel) then
        pair_notes (fun k => if k =? h then Some t else open k) r
      else if (kind =? 0) || ((kind =? 1) && (vel =? 0)) then
        match open h with
        | Some s => (ch, s, pitch, t - s) :: pair_notes (fun k => if k =? h then None else open k) r
        | None => pair_notes open r
        end
      else pair_notes open r
  end.

Definition no_open : Z -> option Z := fun _ => None.

Definition zz_leb (a b : Z * Z) : bool := (fst a <? fst b) || ((fst a =? fst b) && (snd a <=? snd b)).
Fixpoint zzinsert (x : Z * Z) (l : list (Z * Z)) : list (Z * Z) :=
  match l with [] => [x] | y :: r => if zz_leb x y then x :: l else y :: zzinsert x r end.
Definition zzsort (l : list (Z * Z)) : list (Z * Z) := fold_right zzinsert [] l.

(* notes of every track with their (track, channel) key *)
Fixpoint import_tracks (i : Z) (trs : list (list msg)) : list (Z * note) :=
  match trs with
  | [] => []
  | tr :: r => map (fun n => (i, n)) (pair_notes no_open (absolute tr)) ++ import_tracks (i + 1) r
  end.

Definition tc_of (x : Z * note) : Z * Z := let '(i, (ch, _, _, _)) := x in (i, ch).

(* (part, voice, onset, duration, pitch) of every imported note, and (part, group) *)
Definition model_import (mode : Z) (trs : list (list msg)) : list msg * list (Z * Z) :=
  let ns := import_tracks 0 trs in
  let tcs := zzsort (dedup zz_eqb (map tc_of ns)) in
  (map (fun x => let '(i, (ch, s, p, d)) := x in
                 let '(g, prt, v) := import_gpv mode tcs (i, ch) in (prt, v, s, d, p)) ns,
   dedup zz_eqb (map (fun k => let '(g, prt, v) := import_gpv mode tcs k in (prt, g)) tcs)).

Fixpoint zz_subset (a b : list (Z * Z)) : bool :=
  match a with [] => true | x :: r => existsb (zz_eqb x) b && zz_subset r b end.

Definition check_import (mode : Z) (trs : list (list msg)) (obs_notes : list msg) (obs_groups : list (Z * Z)) : bool :=
  let '(ns, gs) := model_import mode trs in
  mset_eqb ns obs_notes && zz_subset gs obs_groups && zz_subset obs_groups gs.

(* every (channel, pitch) stream alternates on / off: what the exporter's order at equal ticks
   (note offs, zero-length notes, note ons) has to achieve for non-overlapping notes *)
Fixpoint alternating (open : Z -> bool) (evs : list msg) : bool :=
  match evs with
  | [] => true
  | (t, kind, ch, pitch, vel) :: r =>
      let h := note_hash ch pitch in
      if (kind =? 1) && (0 <? vel) then
        negb (open h) && alternating (fun k => if k =? h then true else open k) r
      else if (kind =? 0) || ((kind =? 1) && (vel =? 0)) then
        open h && alternating (fun k => if k =? h then false else open k) r
      else alternating open r
  end.

(* ------------------------------------------------------------------ per-key sub-streams *)
(* the messages of one (channel, pitch) key of a track, in file order: what the importer's
   sounding-note table sees for that key *)
Definition nhash (n : note) : Z := let '(ch, _, p, _) := n in note_hash ch p.
Definition is_note_msg (m : msg) : bool :=
  let '(_, k, _, _, v) := m in ((k =? 1) && (0 <? v)) || (k =? 0) || ((k =? 1) && (v =? 0)).
Definition mhash (m : msg) : Z := let '(_, _, ch, p, _) := m in note_hash ch p.
Definition proj (h : Z) (evs : list msg) : list msg :=
  filter (fun m => is_note_msg m && (mhash m =? h)) evs.
