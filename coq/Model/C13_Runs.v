(* C13 (round j extension) -- what pianoroll_to_notearray returns for ANY integer roll: the maximal runs
   of equal non-zero value of every row.  Definitions only (boolean form of the statement proved in
   Proofs/C13_runs.v, evaluated by the correspondence on the implementation's own output; and the natural
   broken variant of the run-length step used by the refutation example). *)
From PV Require Import Lib.Base Model.C13.
From Coq Require Import QArith Qround.
#[local] Open Scope Z_scope.

(* (v, a, b) is a maximal run of the row f of length n: inside the row, non-empty, non-zero, every frame of
   [a, b) holds v, and neither the frame before nor the frame after does *)
Definition maxrun_b (f : Z -> Z) (n : Z) (v a b : Z) : bool :=
  (0 <=? a) && (a <? b) && (b <=? n) && negb (v =? 0)
  && forallb (fun i => f i =? v) (zrange a (Z.to_nat (b - a)))
  && ((a =? 0) || negb (f (a - 1) =? v))
  && ((b =? n) || negb (f b =? v)).

(* the decoded notes that cover cell (p, j) *)
Definition covering (l : list dnote) (p j : Z) : list dnote :=
  filter (fun x : dnote => let '(p', a, b, _) := x in (p' =? p) && (a <=? j) && (j <? b)) l.

Definition dn_val (x : dnote) : Z := let '(_, _, _, v) := x in v.

(* a returned row (pitch, onset, duration, velocity) read back as (row, first frame, end frame, value);
   None when onset * time_div or duration * time_div is not a whole number *)
Definition to_frames (td init : Z) (x : Z * Q * Q * Z) : option dnote :=
  let '(p, on, du, v) := x in
  let a := Qfloor (on * inject_Z td) in
  let d := Qfloor (du * inject_Z td) in
  if Qeq_bool (inject_Z a) (on * inject_Z td) && Qeq_bool (inject_Z d) (du * inject_Z td)
  then Some (p - init, a, a + d, v) else None.

Fixpoint all_some {A} (l : list (option A)) : option (list A) :=
  match l with
  | [] => Some []
  | None :: _ => None
  | Some x :: r => match all_some r with Some r' => Some (x :: r') | None => None end
  end.

(* the statement of `decoder_returns_maximal_runs` / `decoder_covers_exactly` on an OBSERVED note array:
   every returned row is a maximal run of its roll row, every stored non-zero cell inside the roll is covered
   by exactly one returned row, which carries the cell's value; shapes other than 128 / 88 rows refused *)
Definition check_decode_runs (x : Z * Z * list cell * Z * option (list (Z * Q * Q * Z))) : bool :=
  let '(rows, cols, m, td, ob) := x in
  let init := if rows =? 128 then Some 0 else if rows =? 88 then Some 21 else None in
  match init, ob with
  | None, None => true
  | Some i0, Some l =>
      match all_some (map (to_frames td i0) l) with
      | None => false
      | Some fr =>
          forallb (fun y : dnote => let '(p, a, b, v) := y in
                     (0 <=? p) && (p <? rows) && maxrun_b (cell_at m p) cols v a b) fr
          && forallb (fun c : cell => let '(p, j, _) := c in
                        let v := cell_at m p j in
                        if (v =? 0) || negb ((0 <=? p) && (p <? rows) && (0 <=? j) && (j <? cols)) then true
                        else match covering fr p j with
                             | [y] => dn_val y =? v
                             | _ => false
                             end) m
      end
  | _, _ => false
  end.

(* the natural slip of the run-length step (cf. mutation m11): a touching run of another velocity starts a
   new note only when the velocity RISES; a fall is swallowed by the sounding note *)
Fixpoint rle_rise (f : Z -> Z) (n : nat) (j : Z) (cur : option (Z * Z)) : list run :=
  match n with
  | O => match cur with Some (v, a) => [(v, a, j)] | None => [] end
  | S n' =>
      let x := f j in
      match cur with
      | None => rle_rise f n' (j + 1) (if x =? 0 then None else Some (x, j))
      | Some (v, a) =>
          if (x =? v) || ((0 <? x) && (x <? v)) then rle_rise f n' (j + 1) cur
          else (v, a, j) :: rle_rise f n' (j + 1) (if x =? 0 then None else Some (x, j))
      end
  end.
