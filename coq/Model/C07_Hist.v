(* C07 -- histories of parses and in-place edits: "the parsed fields are a function of the text and of
   the version only".  Executable definitions only; proofs in Proofs/C07_phist.v.

   Client code keeps the line objects a parser returned and edits them (appends an attribute to the
   attribute list of a note, changes a component of a duration, a key or time signature object, assigns a
   field).  Two machines run the same history:

   * the PURE machine (what the property demands): a line object is the list of its field values; parsing
     the text of a line gives [parse_line] of that text -- whatever was parsed or edited before --, and an
     edit changes the edited object only.

   * the HEAP machine (how an implementation in a language with references behaves): every field value
     is a cell of a heap, a line object is the list of the addresses of its cells; an in-place edit
     ([HEdit]) writes into the cell, an assignment to a field of a line ([HSet]) makes a new cell.  The
     decoder of a field may keep a memo table from field texts to cells ([memo_on c = true] for the codecs
     that are memoised: the defect class "lru_cache on interpret_as_list").  With no codec memoised the
     heap machine shows exactly what the pure machine shows, for all histories (Proofs/C07_phist.v); with
     one memoised codec it does not ([hist_memo_refuted]). *)
From PV Require Import Lib.Base Model.C07.
From Coq Require Import QArith Ascii.
#[local] Open Scope string_scope.
#[local] Open Scope Z_scope.

Definition hlines : Type := list (schema * string).     (* the lines of the history: schema and text *)

Inductive hstep :=
| HParse (w : nat)                (* parse the text of line w: a new line object *)
| HEdit (i f : nat) (v : value)   (* in-place edit of the object held by field f of line object i: it becomes v *)
| HSet (i f : nat) (v : value)    (* line_i.field_f = v *)
| HNop.                           (* anything else (a conversion, a read-only use) *)

Fixpoint set_nth {A} (n : nat) (x : A) (l : list A) : list A :=
  match l, n with
  | [], _ => []
  | _ :: r, O => x :: r
  | y :: r, S k => y :: set_nth k x r
  end.

Definition upd_obj (i f : nat) (v : value) (st : list (list value)) : list (list value) :=
  match nth_error st i with Some o => set_nth i (set_nth f v o) st | None => st end.

Section Hist.
Variable tab : keytab.

(* ------------------------------------------------------------------ the pure machine *)

Definition pure_step (ls : hlines) (st : list (list value)) (s : hstep) : option (list (list value)) :=
  match s with
  | HParse w =>
      match nth_error ls w with
      | Some (sch, t) => match parse_line tab sch t with Some vs => Some (st ++ [vs])%list | None => None end
      | None => None
      end
  | HEdit i f v | HSet i f v => Some (upd_obj i f v st)
  | HNop => Some st
  end.

Fixpoint pure_run (ls : hlines) (st : list (list value)) (h : list hstep) : option (list (list value)) :=
  match h with
  | [] => Some st
  | s :: r => match pure_step ls st s with Some st' => pure_run ls st' r | None => None end
  end.

(* ------------------------------------------------------------------ the heap machine *)

Record hstate := mkh { heap : list value; objs : list (list nat); memo : list (string * nat) }.

Definition hinit : hstate := mkh [] [] [].

(* decode the field texts of one line into cells: a memoised codec looks its text up first *)
Fixpoint alloc_fields (memo_on : codec -> bool) (cs : list codec) (ts : list string)
         (hp : list value) (mm : list (string * nat)) : option (list value * list (string * nat) * list nat) :=
  match cs, ts with
  | [], [] => Some (hp, mm, [])
  | c :: cs', t :: ts' =>
      match (if memo_on c then slookup t mm else None) with
      | Some a =>
          match alloc_fields memo_on cs' ts' hp mm with
          | Some (hp', mm', l) => Some (hp', mm', a :: l)
          | None => None
          end
      | None =>
          match dec tab c t with
          | Some v =>
              let a := List.length hp in
              match alloc_fields memo_on cs' ts' (hp ++ [v])%list (if memo_on c then (t, a) :: mm else mm) with
              | Some (hp', mm', l) => Some (hp', mm', a :: l)
              | None => None
              end
          | None => None
          end
      end
  | _, _ => None
  end.

Definition heap_step (memo_on : codec -> bool) (ls : hlines) (hs : hstate) (s : hstep) : option hstate :=
  match s with
  | HParse w =>
      match nth_error ls w with
      | Some (sch, t) =>
          match scan sch t with
          | Some ts =>
              match alloc_fields memo_on (codecs sch) ts (heap hs) (memo hs) with
              | Some (hp', mm', l) => Some (mkh hp' (objs hs ++ [l])%list mm')
              | None => None
              end
          | None => None
          end
      | None => None
      end
  | HEdit i f v =>
      match nth_error (objs hs) i with
      | Some o => match nth_error o f with
                  | Some a => Some (mkh (set_nth a v (heap hs)) (objs hs) (memo hs))
                  | None => Some hs
                  end
      | None => Some hs
      end
  | HSet i f v =>
      match nth_error (objs hs) i with
      | Some o => match nth_error o f with
                  | Some _ => Some (mkh (heap hs ++ [v])%list (set_nth i (set_nth f (List.length (heap hs)) o) (objs hs)) (memo hs))
                  | None => Some hs
                  end
      | None => Some hs
      end
  | HNop => Some hs
  end.

Fixpoint heap_run (memo_on : codec -> bool) (ls : hlines) (hs : hstate) (h : list hstep) : option hstate :=
  match h with
  | [] => Some hs
  | s :: r => match heap_step memo_on ls hs s with Some hs' => heap_run memo_on ls hs' r | None => None end
  end.

(* what client code sees: the current field values of every line object *)
Definition rd (hp : list value) (a : nat) : value := nth a hp VNone.
Definition observe (hs : hstate) : list (list value) := map (map (rd (heap hs))) (objs hs).

Definition no_memo (c : codec) : bool := false.
Definition memo_lists (c : codec) : bool := match c with CList | CListIn => true | _ => false end.

(* ------------------------------------------------------------------ the correspondence checker *)

Definition ovals_ok (st : list value) (o : option (list value)) : bool :=
  match o with Some vs => list_eqb value_eqb st vs | None => true end.

(* one observed history: the lines, the steps with the field values of the object a parse step returned, and at the
   end the field values of every line object parsed in the history (None: not compared -- the object shares field
   objects with a line made from it by to_v1 that was edited) *)
Fixpoint hist_steps (ls : hlines) (st : list (list value)) (h : list (hstep * option (list value))) : option (list (list value)) :=
  match h with
  | [] => Some st
  | (s, created) :: r =>
      match pure_step ls st s with
      | Some st' =>
          if match s, created with
             | HParse _, Some vs => match last st' [] with vs' => list_eqb value_eqb vs' vs end
             | HParse _, None => false
             | _, _ => true
             end
          then hist_steps ls st' r else None
      | None => None
      end
  end.

Definition hist_check (c : hlines * list (hstep * option (list value)) * list (option (list value))) : bool :=
  let '(ls, h, final) := c in
  match hist_steps ls [] h with
  | Some st => all2 ovals_ok st final
  | None => false
  end.

End Hist.
