(* C17 -- (a) ps13 on rows that are ALREADY sorted, (b) the entry points as a caller sees them over time.
   Definitions only; proofs are in Proofs/C17_History.v.

   (a) ps13s1 sorts the rows by (onset, pitch, duration) before anything else.  [spell_as_given] is the
   rest of the algorithm on the rows in the order they come; [spell_tab_presorted] is the variant with a
   fast path "an array that is sorted by (onset, pitch) -- what the note array of a Part looks like -- is
   taken as it comes".  The variant is NOT what the code does: it is here to show (Proofs) that the third
   sort key carries the order independence, and which fast path would be harmless.

   (b) A caller holds an array, changes it (in place, or takes another one) and calls an entry point with
   some options, again and again.  [hcalls] lists, for a history, the (options, content of the array at
   that moment) of every call; a stateless implementation [f] answers [hrun] = f on exactly those.  [hrun_m]
   is an implementation that carries a memory [Mem] of its own from call to call.  The correspondence evaluates
   [history_check]: the answers estimate_spelling gave along a history of the harness (two arrays in both
   orders, repeated calls, edits in place) are the answers of the stateless machine over spell_tab_v. *)
From PV Require Import Lib.Base Model.C17_Spelling Model.C17_Chroma.
#[local] Open Scope Z_scope.

(* ---- (a) *)

(* (onset, pitch) non-decreasing: the first two sort keys only *)
Definition op_leb (a b : row) : bool :=
  if r_onset a <? r_onset b then true else
  if r_onset b <? r_onset a then false else r_pitch a <=? r_pitch b.

Fixpoint op_sorted (l : list row) : bool :=
  match l with
  | a :: t => (match t with b :: _ => op_leb a b | [] => true end) && op_sorted t
  | [] => true
  end.

(* all three keys *)
Fixpoint row_sorted (l : list row) : bool :=
  match l with
  | a :: t => (match t with b :: _ => row_leb a b | [] => true end) && row_sorted t
  | [] => true
  end.

(* ps13 without the sort: chroma array, running context vectors, morphs, names, in the order given *)
Definition spell_as_given (kpre kpost : nat) (rows : list row) : list (row * spelling) :=
  let cs := map (fun r => chroma_of_pitch (r_pitch r)) rows in
  spell_from_v (hd 0 cs) (chroma_vectors kpre kpost cs) rows.

(* fast path on the first two keys (breaks order independence) / on all three (harmless) *)
Definition spell_tab_presorted (kpre kpost : nat) (rows : list row) : list (row * spelling) :=
  if op_sorted rows then spell_as_given kpre kpost rows else spell_tab_v kpre kpost rows.
Definition spell_tab_presorted3 (kpre kpost : nat) (rows : list row) : list (row * spelling) :=
  if row_sorted rows then spell_as_given kpre kpost rows else spell_tab_v kpre kpost rows.

(* example for the refutation of the two-key fast path *)
(* a melody, then B4 twice at once -- an eighth and a half note -- as the 16th and 17th note *)
Definition fp_melody : list row :=
  [(0, 82, 2); (2, 53, 2); (4, 58, 2); (6, 77, 2); (8, 76, 2); (10, 81, 2); (12, 70, 2); (14, 50, 2); (16, 79, 2);
   (18, 55, 2); (20, 50, 2); (22, 82, 2); (24, 81, 2); (26, 83, 2); (28, 79, 2)].
Definition fp_tail : list row := [(32, 56, 2); (34, 59, 2)].
Definition fp_rows_a : list row := fp_melody ++ [(30, 71, 1); (30, 71, 4)] ++ fp_tail.
Definition fp_rows_b : list row := fp_melody ++ [(30, 71, 4); (30, 71, 1)] ++ fp_tail.


(* ---- (b) *)

Section History.
  Variables (Arr Opt Ans Mem : Type).
  (* the caller's array now holds s (edited in place, or another array) / a call with options q *)
  Inductive hstep : Type := HSet (s : Arr) | HCall (q : Opt).

  Fixpoint hcalls (st : Arr) (h : list hstep) : list (Opt * Arr) :=
    match h with
    | [] => []
    | HSet s :: t => hcalls s t
    | HCall q :: t => (q, st) :: hcalls st t
    end.

  (* content of the array after a history *)
  Fixpoint hstate (st : Arr) (h : list hstep) : Arr :=
    match h with
    | [] => st
    | HSet s :: t => hstate s t
    | HCall _ :: t => hstate st t
    end.

  Fixpoint ncalls (h : list hstep) : nat :=
    match h with
    | [] => 0%nat
    | HSet _ :: t => ncalls t
    | HCall _ :: t => S (ncalls t)
    end.

  (* a stateless implementation *)
  Variable f : Opt -> Arr -> Ans.
  Definition hrun (st : Arr) (h : list hstep) : list Ans := map (fun c => f (fst c) (snd c)) (hcalls st h).

  (* an implementation with a memory of its own *)
  Variable g : Opt -> Arr -> Mem -> Ans * Mem.
  Fixpoint hrun_m (m : Mem) (st : Arr) (h : list hstep) : list Ans :=
    match h with
    | [] => []
    | HSet s :: t => hrun_m m s t
    | HCall q :: t => let (o, m') := g q st m in o :: hrun_m m' st t
    end.
End History.
Arguments HSet {Arr Opt}.
Arguments HCall {Arr Opt}.
Arguments hcalls {Arr Opt}.
Arguments hstate {Arr Opt}.
Arguments ncalls {Arr Opt}.
Arguments hrun {Arr Opt Ans}.
Arguments hrun_m {Arr Opt Ans Mem}.

(* estimate_spelling as the stateless machine: options (K_pre, K_post), answer = the table *)
Definition spell_q (q : nat * nat) (rows : list row) : list (row * spelling) := spell_tab_v (fst q) (snd q) rows.

(* a memoising variant: the answer is remembered under the LENGTH of the array *)
Definition spell_memo_len (q : nat * nat) (rows : list row) (m : list (nat * list (row * spelling)))
  : list (row * spelling) * list (nat * list (row * spelling)) :=
  match find (fun e => Nat.eqb (fst e) (List.length rows)) m with
  | Some e => (snd e, m)
  | None => let o := spell_q q rows in (o, (List.length rows, o) :: m)
  end.

(* the memo keyed by the length of the array: asked about C4, then -- the caller having changed the note in place
   to C#4 -- asked again, it still answers C4 *)
Definition memo_history : list (@hstep (list row) (nat * nat)) := [HCall (10%nat, 40%nat); HSet [(0, 61, 1)]; HCall (10%nat, 40%nat)].

(* ---- checker used by the correspondence: (initial rows, history, the outputs observed at its calls) *)
Definition history_check (c : list row * list (@hstep (list row) (nat * nat)) * list (list (string * Z * Z))) : bool :=
  let '(st, h, outs) := c in
  let calls := hcalls st h in
  Nat.eqb (List.length calls) (List.length outs) &&
  forallb (fun x => let '((q, rows), out) := x in spell_check_v (fst q, snd q, rows, out)) (combine calls outs).
