(* C02 -- executable model of the time maps of partitura/score.py:
   Part._time_interpolator (quarter_map, inv_quarter_map, beat_map, inv_beat_map),
   Part.quarter_duration_map, TimeSignature's musical-beat default,
   Part.set_musical_beat_per_ts / use_musical_beat / use_notated_beat,
   and the pieces of scipy's interp1d they use (linear, "previous").
   Definitions only; proofs are in Proofs/C02_lib.v and Proofs/C02.v.
   The interpolation part (prev_lookup, interp) is shared with Model/C10.v. *)
From PV Require Import Lib.Base.
From Coq Require Import QArith.
#[local] Open Scope Z_scope.

(* ---------------------------------------------------------------- tables *)

(* "previous" lookup over a table sorted by key: the value of the last entry whose key
   is <= t; d when there is none (scan = the carry-forward loop of the code) *)
Fixpoint prev_lookup {A} (tbl : list (Z * A)) (t : Z) (d : A) : A :=
  match tbl with
  | [] => d
  | (k, v) :: r => if k <=? t then prev_lookup r t v else d
  end.

(* sorted(keypoints.keys()): insertion into a strictly increasing list, duplicates merged *)
Fixpoint zinsert (x : Z) (l : list Z) : list Z :=
  match l with
  | [] => [x]
  | y :: r => if x <? y then x :: l else if x =? y then l else y :: zinsert x r
  end.

Definition zsort_dedup (l : list Z) : list Z := fold_right zinsert [] l.

(* ------------------------------------------------------------ the part *)

Record tsig := mk_tsig { ts_t : Z; ts_beats : Z; ts_type : Z; ts_mus : Z }.

Record part := mk_part {
  p_first : Z;                 (* first_point.t *)
  p_last : Z;                  (* last_point.t *)
  p_qs : list (Z * Z);         (* _quarter_times/_quarter_durations: (time, divisions per quarter), sorted *)
  p_tss : list tsig;           (* time signatures sorted by start *)
  p_m1 : option (Z * Z)        (* (start, end) of the first Measure starting at the first point *)
}.

Inductive tmode := Quarter | Beat | Musical.

(* keypoints[ts.start.t][1] *)
Definition ts_factor (m : tmode) (ts : tsig) : Q :=
  match m with
  | Quarter => 1
  | Beat => inject_Z (ts_type ts) / 4
  | Musical => (inject_Z (ts_type ts) / 4) * (inject_Z (ts_mus ts) / inject_Z (ts_beats ts))
  end.

(* with quarter=True the time signatures are not keypoints *)
Definition bt_table (m : tmode) (p : part) : list (Z * Q) :=
  match m with
  | Quarter => []
  | _ => map (fun ts => (ts_t ts, ts_factor m ts)) (p_tss p)
  end.

(* cur_div / cur_bt after the sorted sweep up to and including key x (initially 1, 1) *)
Definition div_at (p : part) (x : Z) : Z := prev_lookup (p_qs p) x 1.
Definition bt_at (m : tmode) (p : part) (x : Z) : Q := prev_lookup (bt_table m p) x 1%Q.
Definition rate (m : tmode) (p : part) (x : Z) : Q := (bt_at m p x / inject_Z (div_at p x))%Q.

Definition kp_xs (m : tmode) (p : part) : list Z :=
  zsort_dedup (p_first p :: p_last p :: map fst (p_qs p) ++ map fst (bt_table m p)).

(* y = r_[0, cumsum(bt * diff(x) / div)] *)
Fixpoint cum (r : Z -> Q) (x0 : Z) (y0 : Q) (xs : list Z) : list (Z * Q) :=
  match xs with
  | [] => []
  | x1 :: rest => let y1 := (y0 + r x0 * inject_Z (x1 - x0))%Q in (x1, y1) :: cum r x1 y1 rest
  end.

Definition knots (r : Z -> Q) (xs : list Z) : list (Z * Q) :=
  match xs with
  | [] => []
  | x0 :: rest => (x0, 0%Q) :: cum r x0 0%Q rest
  end.

Definition injx (l : list (Z * Q)) : list (Q * Q) := map (fun xy => (inject_Z (fst xy), snd xy)) l.

(* ------------------------------------------- piecewise linear interpolation *)
(* scipy interp1d(kind="linear", bounds_error=False, fill_value=nan): None = nan *)
Fixpoint interp_from (x0 y0 : Q) (rest : list (Q * Q)) (t : Q) : option Q :=
  match rest with
  | [] => None
  | (x1, y1) :: r =>
      if Qle_bool t x1 then Some (y0 + (t - x0) * ((y1 - y0) / (x1 - x0)))%Q
      else interp_from x1 y1 r t
  end.

Definition interp (pts : list (Q * Q)) (t : Q) : option Q :=
  match pts with
  | [] => None
  | (x0, y0) :: r => if Qle_bool x0 t then interp_from x0 y0 r t else None
  end.

Definition swap_pts (pts : list (Q * Q)) : list (Q * Q) := map (fun xy => (snd xy, fst xy)) pts.
Definition shift_pts (s : Q) (pts : list (Q * Q)) : list (Q * Q) := map (fun xy => (fst xy, (snd xy - s)%Q)) pts.

(* ------------------------------------------------------- _time_interpolator *)
Definition base_pts (m : tmode) (p : part) : list (Q * Q) := injx (knots (rate m p) (kp_xs m p)).

Definition ts_at_first (p : part) : option tsig := find (fun ts => ts_t ts =? p_first p) (p_tss p).

Definition normal_dur (m : tmode) (ts : tsig) : Q :=
  match m with
  | Quarter => inject_Z (ts_beats ts) * (4 / inject_Z (ts_type ts))
  | Beat => inject_Z (ts_beats ts)
  | Musical => inject_Z (ts_mus ts)
  end.

(* actual_dur when the first measure is shorter than its time signature, else 0 *)
Definition pickup_shift (m : tmode) (p : part) : Q :=
  match p_m1 p, ts_at_first p with
  | Some (s, e), Some ts =>
      match interp (base_pts m p) (inject_Z s), interp (base_pts m p) (inject_Z e) with
      | Some a, Some b => if Qle_bool (normal_dur m ts) (b - a) then 0 else b - a
      | _, _ => 0
      end
  | _, _ => 0
  end%Q.

Definition time_pts (m : tmode) (p : part) : list (Q * Q) := shift_pts (pickup_shift m p) (base_pts m p).

(* quarter_map / beat_map (notated or musical) and their inverses, for parts with >= 2 points *)
Definition tmap (m : tmode) (p : part) (t : Q) : option Q := interp (time_pts m p) t.
Definition tinv (m : tmode) (p : part) (v : Q) : option Q := interp (swap_pts (time_pts m p)) v.
Definition tmapz (m : tmode) (p : part) (t : Z) : option Q := tmap m p (inject_Z t).

(* quarter_duration_map: interp1d(kind="previous", fill_value=(y[0], y[-1])) *)
Definition qd_map (p : part) (t : Z) : Z :=
  prev_lookup (p_qs p) t (match p_qs p with (_, v) :: _ => v | [] => 1 end).

(* -------------------------------------------------------------- the SPEC *)
(* sum of f over the unit steps a, a+1, ..., a+n-1 *)
Fixpoint sum_steps (f : Z -> Q) (a : Z) (n : nat) : Q :=
  match n with
  | O => 0
  | S k => f a + sum_steps f (a + 1) k
  end%Q.

(* quarters between two timeline positions: every division under quarter duration q lasts 1/q *)
Definition quarters_between (p : part) (a b : Z) : Q :=
  sum_steps (fun k => 1 / inject_Z (div_at p k))%Q a (Z.to_nat (b - a)).
(* beats: ... times beat_type/4 (times musical_beats/beats) of the signature in force *)
Definition beats_between (m : tmode) (p : part) (a b : Z) : Q :=
  sum_steps (rate m p) a (Z.to_nat (b - a)).

(* "the entry in force at t": an entry with the greatest key <= t *)
Definition in_force {A} (tbl : list (Z * A)) (t : Z) (v : A) : Prop :=
  exists k, In (k, v) tbl /\ k <= t /\ forall k' v', In (k', v') tbl -> k' <= t -> k' <= k.

(* well-formed part *)
Fixpoint keys_incr {A} (tbl : list (Z * A)) : Prop :=
  match tbl with
  | [] => True
  | (k, _) :: r => match r with [] => True | (k', _) :: _ => k < k' end /\ keys_incr r
  end.

Definition ts_ok (ts : tsig) : Prop := 0 < ts_beats ts /\ 0 < ts_type ts /\ 0 < ts_mus ts.

Definition wf (p : part) : Prop :=
  keys_incr (p_qs p) /\ (forall k q, In (k, q) (p_qs p) -> 0 < q) /\
  keys_incr (map (fun ts => (ts_t ts, ts)) (p_tss p)) /\ (forall ts, In ts (p_tss p) -> ts_ok ts) /\
  p_first p < p_last p.

(* ---------------------------------------------------------- musical beats *)
(* TimeSignature.__init__ / the "else" of set_musical_beat_per_ts, MUSICAL_BEATS = {6:2, 9:3, 12:4} *)
Definition musical_default (beats : Z) : Z :=
  match beats with 6 => 2 | 9 => 3 | 12 => 4 | _ => beats end.

Fixpoint tab_lookup (b bt : Z) (tab : list (Z * Z * Z)) : option Z :=
  match tab with
  | [] => None
  | (b', bt', v) :: r => if (b =? b') && (bt =? bt') then Some v else tab_lookup b bt r
  end.

Definition set_mus (tab : list (Z * Z * Z)) (ts : tsig) : tsig :=
  mk_tsig (ts_t ts) (ts_beats ts) (ts_type ts)
    (match tab_lookup (ts_beats ts) (ts_type ts) tab with
     | Some v => v
     | None => musical_default (ts_beats ts)
     end).

Inductive beat_op :=
| SetPerTs (tab : list (Z * Z * Z))
| UseMusical (tab : list (Z * Z * Z))
| UseNotated.

(* state: (_use_musical_beat, time signatures) *)
Definition beat_step (st : bool * list tsig) (op : beat_op) : bool * list tsig :=
  let '(flag, tss) := st in
  match op with
  | SetPerTs tab => (flag, map (set_mus tab) tss)
  | UseMusical tab =>
      if flag then st
      else (true, match tab with [] => tss | _ => map (set_mus tab) tss end)
  | UseNotated => if flag then (false, map (set_mus []) tss) else st
  end.

Definition beat_run (tss : list (Z * Z * Z)) (ops : list beat_op) : bool * list tsig :=
  fold_left beat_step ops
    (false, map (fun x => let '(t, b, bt) := x in mk_tsig t b bt (musical_default b)) tss).

(* ----------------------------------------------- correspondence checkers *)
Definition Qabs' (q : Q) : Q := if Qle_bool 0 q then q else (- q)%Q.
(* |impl - model| <= 1e-9 * (1 + |model|) *)
Definition close (impl model : Q) : bool :=
  Qle_bool (Qabs' (impl - model)) ((1 # 1000000000) * (1 + Qabs' model)).
Definition oclose (impl : option Q) (model : option Q) : bool :=
  match impl, model with
  | Some a, Some b => close a b
  | None, None => true
  | _, _ => false
  end.

(* one case: the part as built through the public API (time signatures without musical beats +
   the beat operations applied); per integer position the observed values
   (t, quarter_map t, beat_map t, inv_quarter_map (quarter_map t), inv_beat_map (beat_map t), quarter_duration_map t)
   -- the forward values are fed to the model's inverse as the exact rationals they are --
   and per probe value v: (v, inv_quarter_map v, inv_beat_map v) *)
Definition c02_case : Type :=
  (Z * Z * list (Z * Z) * list (Z * Z * Z) * option (Z * Z) * list beat_op *
   list (Z * option Q * option Q * option Q * option Q * Z) *
   list (Q * option Q * option Q))%type.

Definition build (c : c02_case) : tmode * part :=
  let '(first, last, qs, tss, m1, ops, _, _) := c in
  let '(flag, tss') := beat_run tss ops in
  ((if flag then Musical else Beat), mk_part first last qs tss' m1).

(* inverse applied to the implementation's forward value v; when v is a rounding error outside
   the model's range (possible at the two ends only) the result must be close to t itself *)
Definition inv_ok (ipts : list (Q * Q)) (t : Z) (fwd inv : option Q) : bool :=
  match fwd, inv with
  | Some v, Some w =>
      match interp ipts v with
      | Some w' => close w w'
      | None => close w (inject_Z t)
      end
  | None, None => true
  | _, _ => false
  end.

Definition check_case (c : c02_case) : bool :=
  let '(bm, p) := build c in
  let '(_, _, _, _, _, _, obs, probes) := c in
  let qp := time_pts Quarter p in
  let bp := time_pts bm p in
  let qpi := swap_pts qp in
  let bpi := swap_pts bp in
  forallb (fun o =>
    let '(t, qv, bv, iq, ib, qd) := o in
    oclose qv (interp qp (inject_Z t)) && oclose bv (interp bp (inject_Z t)) &&
    inv_ok qpi t qv iq && inv_ok bpi t bv ib && (qd =? qd_map p t)) obs &&
  forallb (fun o =>
    let '(v, iq, ib) := o in oclose iq (interp qpi v) && oclose ib (interp bpi v)) probes.

(* check_case evaluates the maps of the theorems: tmapz m p t = interp (time_pts m p) (inject_Z t),
   tinv m p v = interp (swap_pts (time_pts m p)) v, by definition *)
