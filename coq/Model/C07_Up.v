(* C07 -- to_v1 of info and meta lines (partitura/io/matchlines_v1.py: to_v1, MatchInfo.from_instance,
   MatchScoreProp.from_instance).  Executable definitions only; proofs are in Proofs/C07_up.v.

   A pre-1.0 info line becomes a 1.0.0 info line when its attribute (after renaming by
   INFO_ATTRIBUTE_EQUIVALENCES) is an attribute of 1.0.0 info lines, else a 1.0.0 scoreprop line when
   the attribute (after SCOREPROP_ATTRIBUTE_EQUIVALENCES) is a score property, else there is no
   equivalent (MatchError).  A meta line becomes a scoreprop line.  The attribute tables are
   reflected from the live module into Gen/C07_Parsers.v (up_tabs). *)
From PV Require Import Lib.Base Model.C07.
From Coq Require Import Ascii.
#[local] Open Scope string_scope.
#[local] Open Scope Z_scope.

Record uptabs := mk_uptabs {
  ut_info1 : list string;                 (* INFO_LINE[1.0.0] *)
  ut_sp1 : list string;                   (* SCOREPROP_LINE[1.0.0] *)
  ut_ieq : list (string * string);        (* INFO_ATTRIBUTE_EQUIVALENCES *)
  ut_speq : list (string * string) }.     (* SCOREPROP_ATTRIBUTE_EQUIVALENCES *)

Inductive v1line :=
| L1Info (attr : string) (v : option value)
| L1ScoreProp (attr : string) (v : option value) (measure beat : Z) (offset : frac) (time : value).

Definition mem_s (a : string) (l : list string) : bool := existsb (String.eqb a) l.
Definition has_key (a : string) (l : list (string * string)) : bool :=
  match slookup a l with Some _ => true | None => false end.
Definition rename (eq : list (string * string)) (a : string) : string :=
  match slookup a eq with Some b => b | None => a end.

Definition sp : ascii := " "%char.

(* the value of the converted line; None: not a value the property speaks about (the subtitle, a
   word list before 1.0.0, becomes the text Python prints for the list) *)
Definition info_value (a' : string) (v : value) : option value :=
  if String.eqb a' "subtitle" then (match v with VList _ => None | _ => Some v end) else Some v.
(* the words of a tempo indication are joined by blanks *)
Definition prop_value (a' : string) (v : value) : option value :=
  if String.eqb a' "tempoIndication" then
    (match v with VList ws => Some (VStr (join sp ws)) | _ => Some v end)
  else Some v.

Definition float_zero : value := VStr "0.0".   (* the float 0.0, as the unconstrained formatter writes it *)

(* to_v1 on an info line (Attribute, Value) of a version < 1.0.0 *)
Definition info_to_v1 (t : uptabs) (a : string) (v : value) : option v1line :=
  if mem_s a (ut_info1 t) || has_key a (ut_ieq t) then
    let a' := rename (ut_ieq t) a in
    if mem_s a' (ut_info1 t) then Some (L1Info a' (info_value a' v)) else None
  else if mem_s a (ut_sp1 t) || has_key a (ut_speq t) then
    let a' := rename (ut_speq t) a in
    if mem_s a' (ut_sp1 t) then Some (L1ScoreProp a' (prop_value a' v) 1 1 frac_zero float_zero) else None
  else None.

(* to_v1 on a meta line (Attribute, Value, Measure, TimeInBeats) *)
Definition meta_to_v1 (t : uptabs) (a : string) (v : value) (measure : Z) (time : value) : option v1line :=
  if mem_s a (ut_sp1 t) || has_key a (ut_speq t) then
    let a' := rename (ut_speq t) a in
    if mem_s a' (ut_sp1 t) then Some (L1ScoreProp a' (prop_value a' v) measure 1 frac_zero time) else None
  else None.

(* ------------------------------------------------------------------ checker *)

Definition ovalue_sub (m : option value) (obs : value) : bool :=
  match m with Some v => value_eqb v obs | None => true end.

Definition v1line_obs_eqb (m : option v1line) (o : option v1line) : bool :=
  match m, o with
  | None, None => true
  | Some (L1Info a v), Some (L1Info b (Some w)) => String.eqb a b && ovalue_sub v w
  | Some (L1ScoreProp a v me be off t), Some (L1ScoreProp b (Some w) me' be' off' t') =>
      String.eqb a b && ovalue_sub v w && (me =? me') && (be =? be') && frac_eqb off off' && value_eqb t t'
  | _, _ => false
  end.

(* one converted line: is it a meta line, attribute, value, (measure, time) of a meta line, and what
   to_v1 returned (None: MatchError / ValueError) *)
Definition check_up (t : uptabs) (c : bool * string * value * (Z * value) * option v1line) : bool :=
  let '(is_meta, a, v, (me, ti), obs) := c in
  v1line_obs_eqb (if is_meta then meta_to_v1 t a v me ti else info_to_v1 t a v) obs.
