(* C13 -- HISTORIES of the piano-roll functions (state carried between calls).
   compute_pianoroll / compute_pitch_class_pianoroll keep nothing between calls: every call reads the note array it is
   given AS IT IS NOW and returns new objects.  A caller may hold two arrays, edit them in place, call again with the
   options of an earlier call, overwrite the objects it got back (they are the caller's), call the sibling
   (the pitch-class roll calls compute_pianoroll and folds the index rows it got back IN PLACE), ...  The machine
   below runs such a history:
     HSet a        the current array is edited in place / replaced: its rows are a from now on
     HSwitch       go on with the other array
     HRoll c       observation: compute_pianoroll with options c on the current array  (a new result object)
     HPc p         observation: the roll compute_pitch_class_pianoroll folds, index rows folded  (a new result object)
     HWrite k R    the caller overwrites the k-th result object in place: it holds R from now on
   with a switch for the way such code goes wrong (`false` for the code as it is):
     memo   compute_pianoroll remembers, per argument object (which of the two arrays) and options (compared by keq),
            the object it returned, and returns THAT object again -- never invalidated when the array is edited, and
            shared with the caller (who may write into it) and with the pitch-class function (which folds the
            index rows of what it got back in place).
   Definitions only; proofs in Proofs/C13_hist.v. *)
From Coq Require Import ZArith QArith List Bool.
From PV Require Import Lib.Base Model.C13.
Import ListNotations.
#[local] Open Scope Z_scope.

Inductive hop :=
| HSet (a : narr)
| HSwitch
| HRoll (c : copts)
| HPc (p : pcopts)
| HWrite (k : nat) (R : option roll).

Record hstate := mkH {
  h_cur : narr;                            (* the array the caller works with, as it is now *)
  h_other : narr;                          (* the other array *)
  h_slot : bool;                           (* which of the two array objects is current *)
  h_memo : list (bool * copts * nat);      (* memo variant: (array object, options) -> number of the result object *)
  h_objs : list (option roll)              (* the result objects returned so far, as they are now *)
}.

Definition hinit (a b : narr) : hstate := mkH a b false [] [].

(* the options compute_pitch_class_pianoroll hands to compute_pianoroll, and what it does to the index rows *)
Definition pc_copts (p : pcopts) : copts :=
  mkCopts (p_time_unit p) (p_time_div p) true
    (mkOpts 1 (p_onset_only p) (p_note_sep p) (-1) (p_time_margin p) false (p_remove_silence p) (p_end_time p) false).
Definition fold_idx (r : roll) : roll :=
  mkRoll (r_rows r) (r_cols r) (r_cells r)
    (map (fun x : idxrow => let '(r0, a0, b0, p0) := x in (r0 mod 12, a0, b0, p0)) (r_idx r)).

Fixpoint memo_find (keq : copts -> copts -> bool) (slot : bool) (c : copts) (m : list (bool * copts * nat)) : option nat :=
  match m with
  | [] => None
  | (s, c', k) :: r => if Bool.eqb s slot && keq c' c then Some k else memo_find keq slot c r
  end.

Fixpoint upd_nth {X} (n : nat) (x : X) (l : list X) : list X :=
  match l, n with
  | [], _ => []
  | _ :: r, O => x :: r
  | y :: r, S n' => y :: upd_nth n' x r
  end.

(* compute_pianoroll inside the machine: (new state, number of the result object, the object) *)
Definition call_roll (keq : copts -> copts -> bool) (memo : bool) (s : hstate) (c : copts) : hstate * nat * option roll :=
  let hit := if memo then memo_find keq (h_slot s) c (h_memo s) else None in
  match hit with
  | Some k => (s, k, nth k (h_objs s) None)
  | None =>
      let R := compute_pianoroll c (h_cur s) in
      let k := List.length (h_objs s) in
      (mkH (h_cur s) (h_other s) (h_slot s)
           (if memo then (h_slot s, c, k) :: h_memo s else h_memo s) ((h_objs s ++ [R])%list), k, R)
  end.

Definition hstep (keq : copts -> copts -> bool) (memo : bool) (s : hstate) (o : hop) : hstate * option (option roll) :=
  match o with
  | HSet a => (mkH a (h_other s) (h_slot s) (h_memo s) (h_objs s), None)
  | HSwitch => (mkH (h_other s) (h_cur s) (negb (h_slot s)) (h_memo s) (h_objs s), None)
  | HRoll c => let '(s', _, R) := call_roll keq memo s c in (s', Some R)
  | HPc p =>
      let '(s', k, R) := call_roll keq memo s (pc_copts p) in
      let F := option_map fold_idx R in
      (* pr_idxs[:, 0] = np.mod(pr_idxs[:, 0], 12): written into the object compute_pianoroll returned *)
      (mkH (h_cur s') (h_other s') (h_slot s') (h_memo s') (upd_nth k F (h_objs s')), Some F)
  | HWrite k R => (mkH (h_cur s) (h_other s) (h_slot s) (h_memo s) (upd_nth k R (h_objs s)), None)
  end.

(* the observations of a history, in order *)
Fixpoint hrun (keq : copts -> copts -> bool) (memo : bool) (s : hstate) (ops : list hop) : list (option roll) :=
  match ops with
  | [] => []
  | o :: r => let '(s', ob) := hstep keq memo s o in
              match ob with Some x => x :: hrun keq memo s' r | None => hrun keq memo s' r end
  end.

(* what a history MUST show: every observation is the function's value on the array as it is at that moment;
   nothing else of the history matters *)
Fixpoint hspec (cur other : narr) (ops : list hop) : list (option roll) :=
  match ops with
  | [] => []
  | HSet a :: r => hspec a other r
  | HSwitch :: r => hspec other cur r
  | HRoll c :: r => compute_pianoroll c cur :: hspec cur other r
  | HPc p :: r => pc_source p cur :: hspec cur other r
  | HWrite _ _ :: r => hspec cur other r
  end.

(* the current array after a history *)
Fixpoint hcur (cur other : narr) (ops : list hop) : narr :=
  match ops with
  | [] => cur
  | HSet a :: r => hcur a other r
  | HSwitch :: r => hcur other cur r
  | _ :: r => hcur cur other r
  end.

(* a key equality that tells all options apart (for the memo variant that is keyed correctly but never invalidated) *)
Definition optq_eqb (x y : option Q) : bool :=
  match x, y with None, None => true | Some p, Some q => Qeq_bool p q | _, _ => false end.
Definition optz_eqb (x y : option Z) : bool :=
  match x, y with None, None => true | Some p, Some q => p =? q | _, _ => false end.
Definition optu_eqb (x y : option tunit) : bool :=
  match x, y with None, None => true | Some p, Some q => tunit_eqb p q | _, _ => false end.
Definition opts_eqb (x y : opts) : bool :=
  Bool.eqb (o_onset_only x) (o_onset_only y) && Bool.eqb (o_note_sep x) (o_note_sep y)
  && (o_pitch_margin x =? o_pitch_margin y) && (o_time_margin x =? o_time_margin y)
  && Bool.eqb (o_piano_range x) (o_piano_range y) && Bool.eqb (o_remove_silence x) (o_remove_silence y)
  && optq_eqb (o_end_time x) (o_end_time y) && Bool.eqb (o_binary x) (o_binary y).
Definition copts_eqb (x y : copts) : bool :=
  optu_eqb (c_time_unit x) (c_time_unit y) && optz_eqb (c_time_div x) (c_time_div y)
  && Bool.eqb (c_remove_drums x) (c_remove_drums y) && opts_eqb (c_opts x) (c_opts y).

(* ---------------------------------------------------------------- correspondence: the history the harness ran *)
(* one event as observed on the implementation *)
Inductive hev :=
| ESet (a : narr)
| ESwitch
| ERoll (c : copts) (observed : obs_roll)
| EPc (p : pcopts) (observed : obs_pc)
| EWrite (k : nat).

Definition hev_op (e : hev) : hop :=
  match e with
  | ESet a => HSet a
  | ESwitch => HSwitch
  | ERoll c _ => HRoll c
  | EPc p _ => HPc p
  | EWrite k => HWrite k None
  end.

(* the machine (as the code is: no memo) is run along the events; every observed result must be what the machine
   shows at that point *)
Fixpoint check_events (s : hstate) (evs : list hev) : bool :=
  match evs with
  | [] => true
  | e :: r =>
      let '(s', ob) := hstep copts_eqb false s (hev_op e) in
      match e with
      | ERoll _ observed => match ob with Some R => roll_matches R observed | None => false end
      | EPc p observed => check_pc (p, h_cur s, observed)
      | _ => true
      end && check_events s' r
  end.

Definition check_history (x : narr * narr * list hev) : bool :=
  let '(a, b, evs) := x in check_events (hinit a b) evs.
