(* C05 -- dispatch on the input type (definitions and boolean checkers only):
     partitura/utils/music.py: ensure_notearray (structured array | Part | PartGroup | Score | list)
     partitura/score.py      : Part.note_array, PartGroup.note_array, Score.note_array, Score.__init__
   A Score keeps the parts of the groups it is given as ONE flat list (iter_parts); a PartGroup and a
   list handed to note_array_from_part_list keep their nesting (the function calls itself on the children
   of a group and treats the result as the array of one member). *)
From PV Require Import Lib.Base Model.C05 Model.C05_Ext.
#[local] Open Scope Z_scope.

Inductive container := CScore | CList | CGroup.

Fixpoint flat_leaves (t : itree) : list itree :=
  match t with
  | ILeaf _ _ _ => [t]
  | IGroup cs => flat_map flat_leaves cs
  end.

(* the member list note_array_from_part_list finally sees *)
Definition dispatch_members (c : container) (ms : list itree) : list itree :=
  match c with
  | CScore => flat_map flat_leaves ms
  | CList | CGroup => ms
  end.

Inductive input :=
| InArray (rows : list row)                       (* a structured array is returned as it is *)
| InPart (ns : list note) (mp : maps) (d : Z)     (* Part.note_array *)
| InMany (c : container) (ms : list itree).       (* Score / list / PartGroup *)

Definition ensure_notearray_m (uniq : bool) (x : input) : option (list row) :=
  match x with
  | InArray rows => Some rows
  | InPart ns mp d => note_array_n ns mp d
  | InMany c ms => option_map (tree_array uniq) (build_tree (IGroup (dispatch_members c ms)))
  end.

(* score-level correspondence case with the container kind and the members as they were handed over *)
Definition dispatch_case_ok (c : container) (ms : list itree) (uniq : bool) (o : opts) (impl : list obs) : bool :=
  match ensure_notearray_m uniq (InMany c ms) with
  | Some rows => same_table (map (view o) rows) impl
  | None => false
  end.
