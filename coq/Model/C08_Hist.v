(* C08 -- state carried between calls, as two small state machines (definitions only; proofs in
   Proofs/C08_hist.v).

   (1) a PerformedPart that is saved several times with edits in between.  The state holds, besides the
       data (pitch, velocity, seconds), everything an exporter COULD have carried over from earlier calls or
       from the loader: the ticks stored on each note (note_on_tick / note_off_tick of the clock the part
       was loaded with), the clock attributes of the part (ppart.ppq / ppart.mpq) and the result of the last
       save_match.  The exporter of the tree (exportmatch.py: matchfile_from_alignment, perf_info) is
       [exp_note] of Model/C08.v applied to what the notes hold NOW.
   (2) a MatchFile whose lines are edited between the calls that derive something from them
       (mf.lines = np.delete(mf.lines, k); validate_match_ids(mf); alignment_from_matchfile(mf); mf.notes).
       The state holds the lines and the last alignment handed out (what a memo on the object would keep). *)
From PV Require Import Lib.Base Lib.Round Model.C12 Model.C08.
From Coq Require Import QArith ZArith List.
Import ListNotations.
#[local] Open Scope Z_scope.

Fixpoint upd_nth {A} (i : nat) (f : A -> A) (l : list A) : list A :=
  match l, i with
  | [], _ => []
  | x :: r, O => f x :: r
  | x :: r, S i' => x :: upd_nth i' f r
  end.
Fixpoint drop_nth {A} (i : nat) (l : list A) : list A :=
  match l, i with
  | [], _ => []
  | _ :: r, O => r
  | x :: r, S i' => x :: drop_nth i' r
  end.

(* ---------------- (1) performed part ---------------- *)

Record hstate := mkH { h_notes : list pnote; h_clock : Z * Z; h_last : option (Z * Z * list fnote) }.

Inductive hop :=
| HSetTimes (i : nat) (on off : Q)   (* ppart.notes[i]["note_on"] = on; ["note_off"] = off  (stored ticks stay) *)
| HSetVel (i : nat) (v : Z)          (* ppart.notes[i]["velocity"] = v *)
| HReplace (i : nat) (p : pnote)     (* ppart.notes[i] = PerformedNote({...}) *)
| HAppend (p : pnote)                (* ppart.notes.append(PerformedNote({...})) *)
| HDelete (i : nat)                  (* del ppart.notes[i] *)
| HSetClock (ppq mpq : Z)            (* ppart.ppq = ppq; ppart.mpq = mpq *)
| HSave (ppq mpq : Z).               (* save_match(alignment, ppart, part, ppq=ppq, mpq=mpq): observed = played-note fields *)

Definition set_times (on off : Q) (p : pnote) : pnote := mkP (p_pitch p) (p_vel p) on off (p_stored p).
Definition set_vel (v : Z) (p : pnote) : pnote := mkP (p_pitch p) v (p_on p) (p_off p) (p_stored p).

Definition hstep (s : hstate) (o : hop) : hstate * option (list fnote) :=
  match o with
  | HSetTimes i on off => (mkH (upd_nth i (set_times on off) (h_notes s)) (h_clock s) (h_last s), None)
  | HSetVel i v => (mkH (upd_nth i (set_vel v) (h_notes s)) (h_clock s) (h_last s), None)
  | HReplace i p => (mkH (upd_nth i (fun _ => p) (h_notes s)) (h_clock s) (h_last s), None)
  | HAppend p => (mkH (h_notes s ++ [p]) (h_clock s) (h_last s), None)
  | HDelete i => (mkH (drop_nth i (h_notes s)) (h_clock s) (h_last s), None)
  | HSetClock a b => (mkH (h_notes s) (a, b) (h_last s), None)
  | HSave ppq mpq =>
      let out := map (exp_note ppq mpq) (h_notes s) in
      (mkH (h_notes s) (h_clock s) (Some (ppq, mpq, out)), Some out)
  end.

Fixpoint hobs (s : hstate) (ops : list hop) : list (list fnote) :=
  match ops with
  | [] => []
  | o :: r => let '(s', ob) := hstep s o in
              match ob with Some x => x :: hobs s' r | None => hobs s' r end
  end.

(* the CURRENT data of the part: pitch, velocity, onset and offset in seconds -- nothing else *)
Definition pdata := (Z * Z * Q * Q)%type.
Definition data_of (p : pnote) : pdata := (p_pitch p, p_vel p, p_on p, p_off p).
Definition exp_data (ppq mpq : Z) (d : pdata) : fnote :=
  let '(pi, ve, on, off) := d in mkF pi ve (sec_to_tick ppq mpq on) (sec_to_tick ppq mpq off).

Definition sstep (d : list pdata) (o : hop) : list pdata * option (list fnote) :=
  match o with
  | HSetTimes i on off => (upd_nth i (fun x => let '(pi, ve, _, _) := x in (pi, ve, on, off)) d, None)
  | HSetVel i v => (upd_nth i (fun x => let '(pi, _, on, off) := x in (pi, v, on, off)) d, None)
  | HReplace i p => (upd_nth i (fun _ => data_of p) d, None)
  | HAppend p => (d ++ [data_of p], None)
  | HDelete i => (drop_nth i d, None)
  | HSetClock _ _ => (d, None)
  | HSave ppq mpq => (d, Some (map (exp_data ppq mpq) d))
  end.
Fixpoint sobs (d : list pdata) (ops : list hop) : list (list fnote) :=
  match ops with
  | [] => []
  | o :: r => let '(d', ob) := sstep d o in
              match ob with Some x => x :: sobs d' r | None => sobs d' r end
  end.

(* two exporters that carry state (for the refutations; NOT what the tree does):
   - memo: the result of the last save is handed out again when the same clock is asked and the number of
     notes did not change;
   - stored ticks: a note that carries ticks is written with them when the part's clock attributes equal the
     clock asked *)
Definition hstep_memo (s : hstate) (o : hop) : hstate * option (list fnote) :=
  match o with
  | HSave ppq mpq =>
      match h_last s with
      | Some (a, b, out) =>
          if (a =? ppq) && (b =? mpq) && Nat.eqb (length out) (length (h_notes s))
          then (s, Some out) else hstep s o
      | None => hstep s o
      end
  | _ => hstep s o
  end.
Definition exp_note_stored (clock : Z * Z) (ppq mpq : Z) (p : pnote) : fnote :=
  match p_stored p with
  | Some (a, b) => if (fst clock =? ppq) && (snd clock =? mpq) then mkF (p_pitch p) (p_vel p) a b else exp_note ppq mpq p
  | None => exp_note ppq mpq p
  end.
Definition hstep_stored (s : hstate) (o : hop) : hstate * option (list fnote) :=
  match o with
  | HSave ppq mpq => let out := map (exp_note_stored (h_clock s) ppq mpq) (h_notes s) in
                     (mkH (h_notes s) (h_clock s) (Some (ppq, mpq, out)), Some out)
  | _ => hstep s o
  end.
Fixpoint hobs_with (step : hstate -> hop -> hstate * option (list fnote)) (s : hstate) (ops : list hop) : list (list fnote) :=
  match ops with
  | [] => []
  | o :: r => let '(s', ob) := step s o in
              match ob with Some x => x :: hobs_with step s' r | None => hobs_with step s' r end
  end.

(* checker: (notes as built: pitch, velocity, on, off, stored ticks), clock attributes, the operations, and for
   every HSave the played-note fields (pitch, velocity, onset tick, offset tick) read from the written file in the
   order of ppart.notes *)
Definition fnote_eqb (a : fnote) (b : Z * Z * Z * Z) : bool :=
  let '(pi, ve, on, off) := b in
  (f_pitch a =? pi) && (f_vel a =? ve) && (f_on a =? on) && (f_off a =? off).
Fixpoint list_eqb2 {A B} (eqb : A -> B -> bool) (a : list A) (b : list B) : bool :=
  match a, b with
  | [], [] => true
  | x :: a', y :: b' => eqb x y && list_eqb2 eqb a' b'
  | _, _ => false
  end.
Definition chk_phist (c : list pnote * (Z * Z) * list hop * list (list (Z * Z * Z * Z))) : bool :=
  let '(ns, clock, ops, obs) := c in
  list_eqb2 (list_eqb2 fnote_eqb) (hobs (mkH ns clock None) ops) obs.

(* ---------------- (2) MatchFile ---------------- *)

Record mstate := mkMS { m_lines : list line; m_memo : option (list entry) }.
Inductive mop :=
| MDrop (k : nat)      (* mf.lines = np.delete(mf.lines, k)  (k counts note lines) *)
| MValidate            (* validate_match_ids(mf) *)
| MAlign               (* alignment_from_matchfile(mf): observed *)
| MNotes.              (* [n.Id for n in mf.notes]: observed (what performed_part_from_match is built from) *)

Inductive mobs_t := OAlign (a : list entry) | ONotes (p : list Z).

Definition mstep (s : mstate) (o : mop) : mstate * option mobs_t :=
  match o with
  | MDrop k => (mkMS (drop_nth k (m_lines s)) (m_memo s), None)
  | MValidate => (mkMS (validate (m_lines s)) (m_memo s), None)
  | MAlign => let a := alignment_of (m_lines s) in (mkMS (m_lines s) (Some a), Some (OAlign a))
  | MNotes => (s, Some (ONotes (pids (m_lines s))))
  end.
Fixpoint mobs (step : mstate -> mop -> mstate * option mobs_t) (s : mstate) (ops : list mop) : list mobs_t :=
  match ops with
  | [] => []
  | o :: r => let '(s', ob) := step s o in
              match ob with Some x => x :: mobs step s' r | None => mobs step s' r end
  end.
(* the same from the current lines only *)
Fixpoint mspec (l : list line) (ops : list mop) : list mobs_t :=
  match ops with
  | [] => []
  | MDrop k :: r => mspec (drop_nth k l) r
  | MValidate :: r => mspec (validate l) r
  | MAlign :: r => OAlign (alignment_of l) :: mspec l r
  | MNotes :: r => ONotes (pids l) :: mspec l r
  end.
(* a MatchFile that keeps the first alignment it handed out *)
Definition mstep_memo (s : mstate) (o : mop) : mstate * option mobs_t :=
  match o, m_memo s with
  | MAlign, Some a => (s, Some (OAlign a))
  | _, _ => mstep s o
  end.

Definition mobs_eqb (a : mobs_t) (b : Z * list (Z * option Z * option Z)) : bool :=
  let '(tag, rows) := b in
  match a with
  | OAlign al => (tag =? 0) && list_eqb line_eqb (lines_of al) (map mk_line rows)
  | ONotes ps => (tag =? 1) && list_eqb Z.eqb ps (flat_map (fun r => match snd r with Some p => [p] | None => [] end) rows)
  end.
(* checker: note lines of the MatchFile as loaded, the operations, the observations (tag 0: alignment entries as
   lines; tag 1: performed-note ids as rows (_, _, Some id)) *)
Definition chk_mhist (c : list (Z * option Z * option Z) * list mop * list (Z * list (Z * option Z * option Z))) : bool :=
  let '(ls, ops, obs) := c in
  list_eqb2 mobs_eqb (mobs mstep (mkMS (map mk_line ls) None) ops) obs.
