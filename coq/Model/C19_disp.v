(* C19 -- dispatch by extension: partitura/io/__init__.py load_score.

   Executable definitions only (proofs: Proofs/C19_disp.v).
     extension = os.path.splitext(filename)[-1].lower()      (posixpath.splitext / genericpath._splitext)
     reader    = the branch of load_score whose list holds the extension, NotSupportedFormatError otherwise
   splitext: the extension starts at the LAST dot of the LAST path component, unless only dots precede that dot in
   the component (".mei", "...krn" have no extension). *)
From PV Require Import Lib.Base.
From Coq Require Import Ascii String NArith.
#[local] Open Scope string_scope.

(* one pass from the left: `seen` = a character other than '.' occurred in the current path component;
   `cand` = the suffix of the path that starts at the last dot met while `seen` (the extension so far) *)
Fixpoint ext_scan (seen : bool) (cand : string) (s : string) : string :=
  match s with
  | EmptyString => cand
  | String c r =>
      if Ascii.eqb c "/" then ext_scan false "" r
      else if Ascii.eqb c "." then ext_scan seen (if seen then s else cand) r
      else ext_scan true cand r
  end.

Definition splitext_ext (path : string) : string := ext_scan false "" path.

(* str.lower on ASCII *)
Definition lower_ascii (c : ascii) : ascii :=
  let n := N_of_ascii c in
  if ((65 <=? n) && (n <=? 90))%N then ascii_of_N (n + 32) else c.
Fixpoint lower (s : string) : string :=
  match s with EmptyString => EmptyString | String c r => String (lower_ascii c) (lower r) end.

Inductive reader := RMusicXML | RMidi | RMei | RKern | RMuseScore | RMatch.

Definition str_mem (x : string) (l : list string) : bool := existsb (String.eqb x) l.

(* the if / elif chain of load_score *)
Definition reader_of_ext (e : string) : option reader :=
  if str_mem e [".mxl"; ".xml"; ".musicxml"] then Some RMusicXML
  else if str_mem e [".midi"; ".mid"] then Some RMidi
  else if str_mem e [".mei"] then Some RMei
  else if str_mem e [".kern"; ".krn"] then Some RKern
  else if str_mem e [".mscz"; ".mscx"; ".musescore"; ".mscore"; ".ms"; ".kar"; ".md"; ".cap"; ".capx"; ".bww"; ".mgu";
                     ".sgu"; ".ove"; ".scw"; ".ptb"; ".gtp"; ".gp3"; ".gp4"; ".gp5"; ".gpx"; ".gp"] then Some RMuseScore
  else if str_mem e [".match"] then Some RMatch
  else None.

Definition load_score_reader (path : string) : option reader := reader_of_ext (lower (splitext_ext path)).

(* state of the scan after a prefix: does the current component hold a character other than '.'? *)
Fixpoint scan_seen (seen : bool) (s : string) : bool :=
  match s with
  | EmptyString => seen
  | String c r => if Ascii.eqb c "/" then scan_seen false r else if Ascii.eqb c "." then scan_seen seen r else scan_seen true r
  end.

(* no '.' and no '/' *)
Fixpoint plain_name (s : string) : bool :=
  match s with
  | EmptyString => true
  | String c r => negb (Ascii.eqb c "/") && negb (Ascii.eqb c ".") && plain_name r
  end.

(* observed class of a load_score call: 0 NotSupportedFormatError, 1 the MEI reader ran, 2 the kern reader ran,
   3 another reader ran *)
Definition reader_class (r : option reader) : Z :=
  match r with None => 0 | Some RMei => 1 | Some RKern => 2 | Some _ => 3 end.

(* which of the other readers runs, or none, is not this property's subject: classes 0 and 3 are not told apart *)
Definition coarse (z : Z) : Z := if Z.eqb z 3 then 0%Z else z.
Definition check_dispatch (c : string * Z) : bool := Z.eqb (coarse (reader_class (load_score_reader (fst c)))) (coarse (snd c)).
