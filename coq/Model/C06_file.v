(* C06 -- "loading ANY MIDI file converts ticks to seconds by integrating every tempo change of the file in
   order": the tempo changes of a file as a function of the file alone (every track, nothing else), the
   seconds of a tick of the file, and the checker that compares the seconds partitura/io/importmidi.py:
   load_performance_midi gives to the SAME file read with merge_tracks=False and with merge_tracks=True.
   Model.C06.load collects the set_tempo events from the tracks it reads (the tracks as they are, or the
   single track mido.merge_tracks makes of them); file_tempi / file_seconds do not look at the merge option at
   all -- Proofs/C06_file.v proves that load's tempo list is the same either way and is the integral.
   Also here: the variants of the collection that earlier seeded changes of the code made (only the first
   track is searched; repeats are dropped while reading, before the changes are ordered by tick), for the
   refutations.  Definitions only. *)
From PV Require Import Lib.Base Model.C06.
From Coq Require Import QArith.
#[local] Open Scope Z_scope.

(* every set_tempo of every track, with its absolute tick, in reading order (track by track) *)
Definition file_tempi (tracks : list (list (Z * msg))) : list (Z * Z) :=
  flat_map (fun t => tempo_events (undelta 0 t)) tracks.
(* the tempo changes of the file in the order of the property: by tick; at one tick the default first, then
   track by track, then by position in the track (the last one is in force from that tick on) *)
Definition file_tempo_map (default_mpq : Z) (tracks : list (list (Z * msg))) : list (Z * Z) :=
  sort_by_tick ((0, default_mpq) :: file_tempi tracks).
(* seconds of a tick of the file, by the loop of importmidi.adjust_time *)
Definition file_seconds (ppq default_mpq : Z) (tracks : list (list (Z * msg))) (tick : Z) : Q :=
  adjust_time ppq (tempo_list ((0, default_mpq) :: file_tempi tracks)) tick.
(* a well-formed file: no negative delta time *)
Definition nonneg_deltas (tracks : list (list (Z * msg))) : bool :=
  forallb (forallb (fun e : Z * msg => 0 <=? fst e)) tracks.

(* ---- variants (not what the code does) *)
(* set_tempo events are taken from the first track only *)
Definition tempo_first_track (default_mpq : Z) (tracks : list (list (Z * msg))) : list (Z * Z) :=
  tempo_list ((0, default_mpq) :: tempo_events (undelta 0 (hd [] tracks))).
(* a set_tempo that repeats the value read last is dropped while reading; ordering by tick comes after *)
Definition tempo_dedup_reading (default_mpq : Z) (tracks : list (list (Z * msg))) : list (Z * Z) :=
  sort_by_tick ((0, default_mpq) :: drop_repeats default_mpq (file_tempi tracks)).
(* the changes are integrated in reading order (no ordering by tick; D12 before its repair) *)
Definition tempo_reading_order (default_mpq : Z) (tracks : list (list (Z * msg))) : list (Z * Z) :=
  (0, default_mpq) :: drop_repeats default_mpq (file_tempi tracks).

(* ---- correspondence: one file, loaded twice.  obs_u / obs_m: (tick, seconds) of every note onset, note
   offset, control and program change of the parts load_performance_midi returned with merge_tracks=False /
   True.  Both must be the file's seconds; and the model's load must say the same in both modes. *)
Definition check_anyfile (c : Z * Z * list (list (Z * msg)) * list (Z * Q) * list (Z * Q)) : bool :=
  let '(ppq, dmpq, tracks, obs_u, obs_m) := c in
  let ok := forallb (fun x : Z * Q => q_close9 (file_seconds ppq dmpq tracks (fst x)) (snd x)) in
  let tc_u := snd (load dmpq false tracks) in
  let tc_m := snd (load dmpq true tracks) in
  nonneg_deltas tracks && ok obs_u && ok obs_m &&
  forallb (fun x : Z * Q => Qeq_bool (adjust_time ppq tc_u (fst x)) (adjust_time ppq tc_m (fst x))) (obs_u ++ obs_m).

(* =====================================================================================
   the notes of a file, read track by track and read from the single track mido.merge_tracks makes of it *)
Definition msg_key (m : msg) : option Z :=
  match m with NoteOn ch p _ | NoteOff ch p _ => Some (note_hash ch p) | _ => None end.
Fixpoint note_keys (l : list (Z * msg)) : list Z :=
  match l with
  | [] => []
  | (_, m) :: r => match msg_key m with Some k => k :: note_keys r | None => note_keys r end
  end.
(* no (channel, pitch) has note messages in two tracks (then the proviso of C06 -- no two overlapping notes of one
   pitch and channel within a track -- holds in the merged track as soon as it holds in every track) *)
Fixpoint keys_exclusive (ts : list (list (Z * msg))) : bool :=
  match ts with
  | [] => true
  | t :: r => forallb (fun u => forallb (fun k => negb (zmem k (note_keys u))) (note_keys t)) r && keys_exclusive r
  end.
Definition file_notes_merged (tracks : list (list (Z * msg))) : list lnote :=
  pair_notes [] (undelta 0 (merge_tracks tracks)).
Definition file_notes_separate (tracks : list (list (Z * msg))) : list lnote :=
  flat_map (fun t => pair_notes [] (undelta 0 t)) tracks.

(* variant: a merge whose sort is not stable (messages of one tick come out in reverse order) *)
Definition merge_tracks_unstable (tracks : list (list (Z * msg))) : list (Z * msg) :=
  let strip := filter (fun e : Z * msg => negb (msg_eqb (snd e) EndOfTrack)) in
  deltas 0 (sort_le (fun a b : Z * msg => fst a <? fst b) (flat_map (fun t => strip (undelta 0 t)) tracks)) ++ [(0, EndOfTrack)].

(* correspondence: the notes (pitch, velocity, channel, on tick, off tick) of all parts load_performance_midi returned
   without / with merge_tracks are, as multisets, file_notes_separate / file_notes_merged -- and each other *)
Definition check_anyfile_notes (c : list (list (Z * msg)) * list lnote * list lnote) : bool :=
  let '(tracks, obs_u, obs_m) := c in
  keys_exclusive tracks && nonneg_deltas tracks &&
  mset_eqb lnote_eqb (file_notes_separate tracks) obs_u &&
  mset_eqb lnote_eqb (file_notes_merged tracks) obs_m &&
  mset_eqb lnote_eqb obs_u obs_m.
