(* C11 -- state carried between calls: the divisions table of a part (Part.set_quarter_duration:
   _quarter_times / _quarter_durations), the `quarter` attribute every TimePoint carries (written when
   the point is made, rewritten by set_quarter_duration over [t, t_next)), and the symbolic duration a
   note reports (GenericNote.symbolic_duration: the value it holds, else an estimate from its
   duration and start.quarter, made anew on every call).
   A small state machine: events change the table / the time points, reads observe.
   Definitions only; proofs are in Proofs/C11_hist.v. *)
From PV Require Import Lib.Base Lib.Round Gen.C11_Tables Model.C11 Model.C11_Norm.
From Coq Require Import QArith.
#[local] Open Scope Z_scope.

Definition qtable := list (Z * Z).            (* (time, divisions), times strictly increasing, first at 0 *)
Definition tpoint := (Z * Z)%type.            (* (time, quarter attribute) *)
Definition pstate := (qtable * list tpoint)%type.

(* set_quarter_duration on the table: i = searchsorted(times, t); an entry at t is replaced (unless it
   holds the value already); otherwise (t, q) is inserted unless the entry before holds q ("redundant").
   prev = quarters[i - 1].  Result: the table and `changed` *)
Fixpoint setq_table (prev : option Z) (tb : qtable) (t q : Z) : qtable * bool :=
  match tb with
  | [] => match prev with
          | Some p => if p =? q then ([], false) else ([(t, q)], true)
          | None => ([(t, q)], true)
          end
  | (a, v) :: r =>
    if a <? t then let '(r', c) := setq_table (Some v) r t q in ((a, v) :: r', c)
    else if a =? t then (if v =? q then (tb, false) else ((t, q) :: r, true))
    else match prev with
         | Some p => if p =? q then (tb, false) else ((t, q) :: tb, true)
         | None => ((t, q) :: tb, true)
         end
  end.

(* t_next = times[i + 1] in the new table (None = np.inf) *)
Definition next_time (tb : qtable) (t : Z) : option Z :=
  match filter (fun e => t <? fst e) tb with [] => None | e :: _ => Some (fst e) end.

Definition in_range (t : Z) (tn : option Z) (x : Z) : bool :=
  (t <=? x) && match tn with None => true | Some n => x <? n end.

(* `for tp in self._points[start_idx:end_idx]: tp.quarter = quarter` *)
Definition upd_points (pts : list tpoint) (t : Z) (tn : option Z) (q : Z) : list tpoint :=
  map (fun p => if in_range t tn (fst p) then (fst p, q) else p) pts.

Definition set_quarter (s : pstate) (t q : Z) : pstate :=
  let '(tb', ch) := setq_table None (fst s) t q in
  if ch then (tb', upd_points (snd s) t (next_time tb' t) q) else s.

(* get_or_add_point: a new point gets int(self._quarter_map(t)) -- the table's value at t *)
Fixpoint insert_point (pts : list tpoint) (t q : Z) : list tpoint :=
  match pts with
  | [] => [(t, q)]
  | p :: r => if fst p <? t then p :: insert_point r t q
              else if fst p =? t then pts else (t, q) :: pts
  end.
Definition add_point (s : pstate) (t : Z) : pstate := (fst s, insert_point (snd s) t (div_at (fst s) t)).
Definition remove_point (s : pstate) (t : Z) : pstate := (fst s, filter (fun p => negb (fst p =? t)) (snd s)).

(* histories *)
Inductive event :=
| ESetQ (t q : Z)            (* part.set_quarter_duration(t, q) *)
| EAddPoint (t : Z)          (* something is added at t (part.add -> get_or_add_point) *)
| ERemovePoint (t : Z)       (* the last object at t is removed (_cleanup_point) *)
| ERead (a b : Z).           (* the symbolic duration of a note from a to b that holds none is read *)

Definition is_read (ev : event) : bool := match ev with ERead _ _ => true | _ => false end.

Definition step (s : pstate) (ev : event) : pstate :=
  match ev with
  | ESetQ t q => set_quarter s t q
  | EAddPoint t => add_point s t
  | ERemovePoint t => remove_point s t
  | ERead _ _ => s
  end.
Definition run (s : pstate) (h : list event) : pstate := fold_left step h s.

Definition quarter_of (pts : list tpoint) (t : Z) : option Z :=
  match find (fun p => fst p =? t) pts with Some p => Some (snd p) | None => None end.

(* the getter: estimate_symbolic_duration(self.duration, self.start.quarter); None = the note is not in the part *)
Definition observe (s : pstate) (a b : Z) : option est :=
  match quarter_of (snd s) a with Some q => Some (estimate (b - a) q) | None => None end.

(* everything the reads of a history return, in order *)
Fixpoint run_obs (s : pstate) (h : list event) : list (option est) :=
  match h with
  | [] => []
  | ERead a b :: r => observe s a b :: run_obs s r
  | ev :: r => run_obs (step s ev) r
  end.

(* what the reads should return: the estimate under the divisions the TABLE holds at the note's start at the
   moment of the read *)
Fixpoint spec_obs (s : pstate) (h : list event) : list (option est) :=
  match h with
  | [] => []
  | ERead a b :: r =>
    (match quarter_of (snd s) a with Some _ => Some (estimate (b - a) (div_at (fst s) a)) | None => None end)
    :: spec_obs s r
  | ev :: r => spec_obs (step s ev) r
  end.

(* well-formed state *)
Fixpoint incr (lo : Z) (tb : qtable) : Prop :=
  match tb with [] => True | (a, _) :: r => lo < a /\ incr a r end.
Definition table_ok (tb : qtable) : Prop := exists v r, tb = (0, v) :: r /\ incr 0 r.
Definition consistent (s : pstate) : Prop :=
  forall p, In p (snd s) -> 0 <= fst p /\ snd p = div_at (fst s) (fst p).
Definition event_ok (ev : event) : Prop :=
  match ev with ESetQ t _ => 0 <= t | EAddPoint t => 0 <= t | _ => True end.

(* ---------------------------------------------------------------------- *)
(* a memoising variant (NOT the code): the estimate is kept per (start, end) and never thrown away *)
Definition memo := list (Z * Z * option est).
Fixpoint memo_find (m : memo) (a b : Z) : option (option est) :=
  match m with
  | [] => None
  | (a', b', v) :: r => if (a' =? a) && (b' =? b) then Some v else memo_find r a b
  end.
Fixpoint run_obs_memo (s : pstate) (m : memo) (h : list event) : list (option est) :=
  match h with
  | [] => []
  | ERead a b :: r =>
    match memo_find m a b with
    | Some v => v :: run_obs_memo s m r
    | None => let v := observe s a b in v :: run_obs_memo s ((a, b, v) :: m) r
    end
  | ev :: r => run_obs_memo (step s ev) m r
  end.

(* ---------------------------------------------------------------------- *)
(* boolean checkers for the correspondence *)
Definition tpoint_eqb (a b : tpoint) : bool := (fst a =? fst b) && (snd a =? snd b).

(* one set_quarter_duration call: table and points before, t, q, table and points after *)
Definition chk_setq (c : qtable * list tpoint * Z * Z * qtable * list tpoint) : bool :=
  let '(tb, pts, t, q, tb', pts') := c in
  let s' := set_quarter (tb, pts) t q in
  list_eqb tpoint_eqb (fst s') tb' && list_eqb tpoint_eqb (snd s') pts'.

(* the time points an operation made: table, (time, quarter attribute) *)
Definition chk_new_points (c : qtable * list tpoint) : bool :=
  let '(tb, pts) := c in forallb (fun p => snd p =? div_at tb (fst p)) pts.

(* one pass of the getter over the notes: table, rows (start, end, held, observed); held = None when the note
   holds no symbolic duration, Some x when it holds x (x = None: the empty dictionary) *)
Definition opt_symdur_eqb (a b : option symdur) : bool :=
  match a, b with None, None => true | Some x, Some y => symdur_eqb x y | _, _ => false end.
Definition chk_getter (c : qtable * list (Z * Z * option (option symdur) * option symdur)) : bool :=
  let '(tb, rows) := c in
  forallb (fun r => let '(a, b, held, obs) := r in
                    match held with
                    | Some x => opt_symdur_eqb x obs
                    | None => est_matches (estimate (b - a) (div_at tb a)) obs
                    end) rows.
