(* T1 -- the right-hand sides of the equivalence theorems of Proofs/C12_t1.v and Proofs/C16_t1.v:
   for every function f that harness/t1.py translates from the source text (Gen/T1_music.v),
   [spec_f] is what the hand models of Model/C12.v and Model/C16.v say f computes, with the
   argument and result types of the translation (strings for step letters / qualities /
   directions, [option Z] for an optional alteration, records for Note / Interval / ...).
   Executable definitions only.  When a function falls outside the translator's subset its T1
   name is defined as [spec_f] (a stub; the T1 tie is then absent for that function). *)
From PV Require Import Lib.Base Lib.Py.
From PV Require Model.C12 Model.C16.
From Coq Require Import QArith.
#[local] Open Scope Z_scope.

Definition alter_or_0 (a : option Z) : Z := match a with Some x => x | None => 0 end.

(* step letters <-> the step indices of Model/C16.v (C=0 .. B=6) *)
Definition step_index (s : string) : option Z := C12.index_of s C12.steps7 0.
Definition step_name (i : Z) : string :=
  match i with 0 => "C" | 1 => "D" | 2 => "E" | 3 => "F" | 4 => "G" | 5 => "A" | _ => "B" end%string.
Definition is_up (d : string) : bool := String.eqb d "up".


(* names used by the theorems that restate the models' facts about the translated definitions *)
Definition dir_name (up : bool) : string := if up then "up"%string else "down"%string.
Definition qual_name (q : Z) : string :=
  match q with 0 => "dd" | 1 => "d" | 2 => "m" | 3 => "M" | 4 => "P" | 5 => "A" | _ => "AA" end%string.
Definition pyval_of_mode (m : C12.mode) : pyval := match m with C12.Major => PyStr "major" | C12.Minor => PyStr "minor" end.

(* ---------- utils/music.py ---------- *)
Definition spec_pitch_spelling_to_midi_pitch (step : string) (alter : option Z) (octave : Z) : option Z :=
  C12.ps_to_midi step (alter_or_0 alter) octave.

(* BASE_PC has the upper-case letters only; the hand model accepts both cases *)
Definition spec_step2pc (step : string) (alter : Z) : option Z :=
  if py_in_strs step C12.steps7 then C12.step2pc step alter else None.

Definition spec_transpose_step (step : string) (n : Z) (direction : string) : option string :=
  match step_index (py_capitalize step) with
  | Some i => Some (step_name (C16.tr_step i n (is_up direction)))
  | None => None
  end.

Definition note_of_pitch (x : C16.pitch) : PyNote := let '(i, a, o) := x in mk_note (step_name i) (Some a) o.

Definition spec_transpose_note_inplace (x : PyNote) (iv : PyInterval) : option PyNote :=
  if String.eqb (i_quality iv ++ py_str_Z (i_number iv)) "P1" then Some x
  else match step_index (py_capitalize (n_step x)), C12.interval_semitones (i_number iv) (i_quality iv) with
       | Some i, Some sem =>
           Some (note_of_pitch (C16.tr_note false (i_number iv) sem (is_up (i_direction iv)) (i, alter_or_0 (n_alter x), n_octave x)))
       | _, _ => None
       end.

Definition spec_transpose_note (step : string) (alter : Z) (iv : PyInterval) : option (string * Z) :=
  match step_index (py_capitalize step), C12.interval_semitones (i_number iv) (i_quality iv) with
  | Some i, Some sem =>
      match C16.tn_note (i_number iv) sem (is_up (i_direction iv)) i alter with
      | Some (i', a') => Some (step_name i', a')
      | None => None
      end
  | _, _ => None
  end.

(* the odd part of divs (divs = 0 never terminates: out of fuel) *)
Fixpoint spec_find_smallest_unit (fuel : nat) (divs : Z) : option Z :=
  match fuel with
  | O => None
  | S f => if divs mod 2 =? 0 then spec_find_smallest_unit f (divs / 2) else Some divs
  end.

(* alterations -3..3 (beyond, the hand model of the printed name has no sign string) *)
Definition spec_pitch_spelling_to_note_name (step : string) (alter octave : Z) : option string :=
  Some (C12.note_name (py_upper step) alter octave).

Definition mode_of_pyval (m : pyval) : option C12.mode :=
  if py_in_vals m [PyStr "minor"; PyInt (-1)] then Some C12.Minor
  else if py_in_vals m [PyStr "major"; PyNone; PyStr "none"; PyInt 1] then Some C12.Major
  else None.
(* the nine mode spellings of harness/props/c12.py (Gen/C12_Tab.mode_spellings) as Python values *)
Definition pyval_of_spelling (mi : Z) : pyval :=
  match mi with
  | 0 => PyStr "major" | 1 => PyStr "minor" | 2 => PyNone | 3 => PyStr "none" | 4 => PyInt 1
  | 5 => PyInt (-1) | 6 => PyStr "dorian" | 7 => PyInt 0 | _ => PyStr "Major"
  end.

Definition spec_key_mode_to_int (m : pyval) : option Z := option_map C12.mode_int (mode_of_pyval m).
Definition spec_key_int_to_mode (m : pyval) : option string := option_map C12.mode_string (mode_of_pyval m).

Definition clef_codes : list (string * Z) :=
  [("G", 0); ("F", 1); ("C", 2); ("percussion", 3); ("TAB", 4); ("jianpu", 5); ("none", 6)]%string.
Definition spec_clef_sign_to_int (s : string) : option Z := slookup s clef_codes.
Definition spec_clef_int_to_sign (c : Z) : option string := zlookup c (map (fun kv => (snd kv, fst kv)) clef_codes).

Definition spec_fifths_mode_to_key_name (fifths : Z) (m : pyval) : option string :=
  match mode_of_pyval m with Some md => C12.key_name fifths md | None => None end.

(* on the 15 + 15 key names *)
Definition spec_key_name_to_fifths_mode (name : string) : option (Z * string) :=
  match C12.key_parse name with Some (f, m) => Some (f, C12.mode_string m) | None => None end.

Definition spec_ensure_pitch_spelling_format (step : string) (alter octave : Z) : option (string * Z * Z) :=
  match C12.base_pc (py_lower step) with
  | Some _ => Some (py_upper step, alter, octave)
  | None => if String.eqb (py_lower step) "r" then Some (py_upper step, alter, octave) else None
  end.

Definition spec_midi_pitch_to_pitch_spelling (tab : list (Z * (string * Z))) (m : Z) : option (string * Z * Z) :=
  match zlookup (m mod 12) tab with
  | Some (s, a) => spec_ensure_pitch_spelling_format s a (m / 12 - 1)
  | None => None
  end.

(* symbolic_to_numeric_duration, read over exact rationals: DOT_MULTIPLIERS has the entries 0..3 (Python's negative
   indices -4..-1 wrap around); an absent / zero tuplet count reads as 1 *)
Definition spec_symbolic_to_numeric_duration (sd : PySymDur) (divs : Z) : option Q :=
  match sd_type sd with
  | None => None
  | Some u =>
      let dots := match sd_dots sd with Some d => d | None => 0 end in
      let k := if dots <? 0 then dots + 4 else dots in
      if (0 <=? k) && (k <=? 3) then
        C12.sym_dur u k (py_or_optint (sd_actual_notes sd) 1) (py_or_optint (sd_normal_notes sd) 1) divs
      else None
  end.

(* midi_ticks_to_seconds read over exact rationals; ppq = 0 raises ZeroDivisionError *)
Definition spec_midi_ticks_to_seconds (ticks mpq ppq : Z) : option Q :=
  if ppq =? 0 then None else Some (C12.tick_to_sec ppq mpq ticks).

(* ---------- score.py ---------- *)
Definition spec_Interval_semitones (iv : PyInterval) : option Z := C12.interval_semitones (i_number iv) (i_quality iv).

Definition spec_Interval_validate (iv : PyInterval) : option unit :=
  let m := i_number iv mod 7 in
  let n := if m =? 0 then 7 else m in
  match C12.interval_semitones n (i_quality iv) with
  | Some _ => if py_in_strs (i_direction iv) ["up"; "down"]%string then Some tt else None
  | None => None
  end.

Definition spec_Tuplet_duration_multiplier (t : PyTuplet) : option Q :=
  if t_actual_notes t =? 0 then None
  else if sopt_eqb' (t_actual_type t) (t_normal_type t)
       then Some (inject_Z (t_normal_notes t) / inject_Z (t_actual_notes t))%Q
       else match t_actual_type t, t_normal_type t with
            | Some a, Some b => C12.tuplet_mult (t_actual_notes t) (t_normal_notes t) a b
            | _, _ => None
            end.

Definition spec_Note_midi_pitch (x : PyNote) : option Z :=
  spec_pitch_spelling_to_midi_pitch (n_step x) (n_alter x) (n_octave x).

(* ALTER_SIGNS has None and -2..2 *)
Definition spec_Note_alter_sign (x : PyNote) : option string :=
  match n_alter x with
  | None => Some ""%string
  | Some a => if (-2 <=? a) && (a <=? 2) then Some (C12.alter_sign a) else None
  end.

Definition spec_KeySignature_name (k : PyKeySig) : option string :=
  spec_fifths_mode_to_key_name (k_fifths k) (k_mode k).

(* ---------- boolean comparison of T1 definition and spec on one input (harness: search for a
   differing input when an equivalence proof no longer compiles) ---------- *)
Definition zopt_agree (a b : option Z) : bool := zopt_eqb a b.
Definition sopt_agree (a b : option string) : bool := sopt_eqb' a b.
Definition note_eqb (a b : PyNote) : bool :=
  String.eqb (n_step a) (n_step b) && zopt_eqb (n_alter a) (n_alter b) && Z.eqb (n_octave a) (n_octave b).
Definition nopt_agree (a b : option PyNote) : bool :=
  match a, b with Some x, Some y => note_eqb x y | None, None => true | _, _ => false end.
Definition szopt_agree (a b : option (string * Z)) : bool :=
  match a, b with Some (s, x), Some (t, y) => String.eqb s t && Z.eqb x y | None, None => true | _, _ => false end.
Definition zsopt_agree (a b : option (Z * string)) : bool :=
  match a, b with Some (x, s), Some (y, t) => String.eqb s t && Z.eqb x y | None, None => true | _, _ => false end.
Definition szzopt_agree (a b : option (string * Z * Z)) : bool :=
  match a, b with Some (s, x, u), Some (t, y, v) => String.eqb s t && Z.eqb x y && Z.eqb u v | None, None => true | _, _ => false end.
Definition uopt_agree (a b : option unit) : bool :=
  match a, b with Some _, Some _ => true | None, None => true | _, _ => false end.
Definition qopt_close (a b : option Q) : bool :=
  match a, b with Some x, Some y => Qeq_bool x y || C12.q_close y x | None, None => true | _, _ => false end.
Definition qopt_agree (a b : option Q) : bool :=
  match a, b with Some x, Some y => Qeq_bool x y | None, None => true | _, _ => false end.
