(* C10 -- the optional note-array / rest-array columns AS THE CODE DERIVES THEM (partitura/utils/music.py:
   note_array_from_note_list, rest_array_from_rest_list): for every note, in list order, the three map OBJECTS handed in
   are CALLED WITH THE SCALAR note.start.t and their results are UNPACKED:
       fifths, mode = key_signature_map(note.start.t)
       beats, beat_type, mus_beats = time_signature_map(note.start.t)
       rel_onset_div, tot_measure_div = metrical_position_map(note.start.t)
       is_downbeat = 1 if rel_onset_div == 0 else 0
   The objects are whatever the caller passes: Part.note_array requests them from the part, a caller may pass map objects it
   kept (of other states of the part).  A result that cannot be unpacked (one row per position instead of one value) or a nan
   has no integer row: None -- and the whole array is lost (the exception leaves the loop).
   `at_end` is the slip "columns looked up at the end of the note/rest instead of its onset".
   Definitions only; proofs in Proofs/C10_NA.v. *)
From PV Require Import Lib.Base Lib.Round Model.C02 Model.C10 Model.C10_Impl Model.C10_Hist Model.C10_Obj.
#[local] Open Scope Z_scope.

Definition z3 : Type := (Z * Z * Z)%type.
Definition z2 : Type := (Z * Z)%type.
Definition na_cols : Type := (z3 * z2 * z3)%type.        (* ts columns, ks columns, (is_downbeat, rel_onset_div, tot_measure_div) *)

Definition unpack {A} (r : res (option A)) : option A := match r with RScalar a => a | RVec _ => None end.

Definition na_row_q (ts_obj : query -> res (option z3)) (ks_obj : query -> res (option z2)) (mp_obj : query -> res (option z2))
    (q : query) : option na_cols :=
  match unpack (ks_obj q), unpack (ts_obj q), unpack (mp_obj q) with
  | Some ks, Some ts, Some (pos, len) => Some (ts, ks, ((if pos =? 0 then 1 else 0), pos, len))
  | _, _, _ => None
  end.

(* a note = (onset, duration) *)
Definition na_row (at_end : bool) ts_obj ks_obj mp_obj (n : Z * Z) : option na_cols :=
  na_row_q ts_obj ks_obj mp_obj (QScalar (if at_end then fst n + snd n else fst n)).

Fixpoint na_loop (at_end : bool) ts_obj ks_obj mp_obj (notes : list (Z * Z)) : option (list na_cols) :=
  match notes with
  | [] => Some []
  | n :: r =>
      match na_row at_end ts_obj ks_obj mp_obj n with
      | None => None
      | Some row => match na_loop at_end ts_obj ks_obj mp_obj r with Some rows => Some (row :: rows) | None => None end
      end
  end.

(* ---------------------------------------------------------------- checker: the rows the harness observed (onset, ts, ks,
   metrical columns when the onset lies inside a measure) against the loop over the code-level map objects of the part *)
Definition na_ok (c : c10_case) : bool :=
  let cp := build10 c in
  let '(_, _, _, _, _, _, _, _, _, _, rows) := c in
  let ts_obj := wrap_prev (ts_rows cp) in
  let ks_obj := wrap_prev (ks_rows cp) in
  let mp_obj := impl_metpos_of (meas_tbl cp) (map fst (c_meas cp)) in
  forallb (fun o =>
    let '(t, ts, ks, mp) := o in
    match mp with
    | Some m =>
        match na_row false ts_obj ks_obj mp_obj (t, 0) with
        | Some (ts', ks', m') => z3_eqb ts ts' && z2_eqb ks ks' && z3_eqb m m'
        | None => false
        end
    | None =>
        match unpack (ts_obj (QScalar t)), unpack (ks_obj (QScalar t)) with
        | Some ts', Some ks' => z3_eqb ts ts' && z2_eqb ks ks'
        | _, _ => false
        end
    end) rows.

Definition check10n (oc : c10_ocase) : bool :=
  let '(hc, _, _) := oc in
  let '(ic, _) := hc in
  let '(c, _, _) := ic in
  check10o oc && na_ok c.
