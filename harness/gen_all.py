"""Regenerate every coq/Gen/*.v from the working tree of the repository (setup + each check)."""
import importlib
import os
import sys

sys.path.insert(0, os.path.dirname(os.path.abspath(__file__)))
import core

core.setup_import_path()
core._sync_build_dir()
for f in sorted(os.listdir(os.path.join(os.path.dirname(os.path.abspath(__file__)), "props"))):
    if f.startswith("c") and f.endswith(".py"):
        mod = importlib.import_module("props." + f[:-3])
        if hasattr(mod, "gen"):
            try:
                mod.gen()
                print("gen", f)
            except Exception as e:  # a generator that cannot run leaves no Gen file: the build then fails closed
                print("gen FAILED", f, repr(e))
core.refresh_makefile()
