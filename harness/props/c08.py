"""C08 -- saving an alignment as a match file and loading it returns the same data.

Structure (CONVENTIONS section 2):
  gen_case(rng, size)      structured generator of (score, performance, alignment, ppq, mpq) cases
  build_objects(case)      -> partitura Part, PerformedPart, alignment list
  run_impl(case, workdir)  save_match -> file -> load_match(create_score=True); collects observables
  oracle(case, obs)        direct oracle: the statement of C08 on the observables (pure Python)
  model terms              the same numbers printed as Coq terms, checked by Model/C08.v (correspondence)
  fixtures                 every match file under tests/data/match: no note line lost / duplicated,
                           documented duplicate-id resolution, model's reading of the id table
  run_history(hist, wd)    state carried between calls: operation lists on LIVE objects (save, edit, save again, readers on
                           one MatchFile with edits in between), every observation judged against the current state only
                           (gen_history, edit_desc / edit_live, shrink_history; Model/C08_Hist.v; replay kind "history")
"""
import json
import math
import os
import warnings
from fractions import Fraction

import core
from core import cz, cq, cstr, clist, ctuple, copt, cbool

# ----------------------------------------------------------------------------
# generator

DIVS_GRIDS = [  # (divisions per quarter, admissible grid steps) -- reduced offsets keep denominators <= 1024
    (1, [1]), (2, [1]), (3, [1]), (4, [1, 2]), (6, [1, 2, 3]), (8, [1, 2]), (12, [1, 2, 3, 4]),
    (16, [1, 2, 4]), (24, [1, 2, 3, 4, 6]), (48, [2, 3, 4, 6, 12]), (96, [3, 4, 6, 12, 24]),
    (480, [10, 20, 30, 40, 60, 120]),
]
METERS = [(2, 4), (3, 4), (4, 4), (5, 4), (3, 8), (6, 8), (9, 8), (12, 8), (2, 2), (7, 8), (6, 4), (3, 2), (5, 8)]
PAIRS = [(480, 500000), (96, 600000), (1000, 333333), (384, 250000), (960, 1000000), (220, 428571), (480, 461538)]
# the clocks the property's histories are explored with (save -> load -> save with another clock -> load);
# (1, 1000000) is the coarsest possible clock (one tick per second): many events share a tick
CLOCKS = [(480, 500000), (1000, 600000), (96, 600000), (4000, 500000), (1, 1000000)]
STEPS = ["C", "D", "E", "F", "G", "A", "B"]
BASE = {"C": 0, "D": 2, "E": 4, "F": 5, "G": 7, "A": 9, "B": 11}
# the articulation and ornament names partitura's own readers produce (io/importmusicxml.py: get_articulations,
# get_ornaments; io/exportmusicxml.py: ARTICULATIONS) -- gen() checks this list against the tree under test and
# proves in Coq that, of the whole vocabulary, only "staccato" and "accent" read back as a supported articulation
ART_VOCAB = ["accent", "strong-accent", "staccato", "tenuto", "detached-legato", "staccatissimo", "spiccato", "scoop",
             "plop", "doit", "falloff", "breath-mark", "caesura", "stress", "unstress", "soft-accent"]
ORN_VOCAB = ["trill-mark", "turn", "delayed-turn", "inverted-turn", "delayed-inverted-turn", "vertical-turn",
             "inverted-vertical-turn", "shake", "wavy-line", "mordent", "inverted-mordent", "schleifer", "tremolo",
             "haydn", "other-ornament"]
# weights: the two supported names, the names that contain / start like a supported one, the rest
ART_WEIGHTS = [4 if a in ("staccato", "accent") else 3 if ("accent" in a or a.startswith("s") or "stac" in a or a == "detached-legato") else 1
               for a in ART_VOCAB]
SUPPORTED_ARTS = ("staccato", "accent")


def draw_attrs(rng):
    """articulations, ornaments, fermata, fingering of one generated note"""
    r = rng.random()
    k = 0 if r < 0.5 else 1 if r < 0.8 else 2 if r < 0.93 else 3
    arts = []
    for a in rng.choices(ART_VOCAB, weights=ART_WEIGHTS, k=k):
        if a not in arts:
            arts.append(a)
    orns = []
    if rng.random() < 0.12:
        for a in rng.choices(ORN_VOCAB, k=rng.randint(1, 2)):
            if a not in orns:
                orns.append(a)
    ferm = rng.random() < 0.06
    fing = rng.randint(1, 5) if rng.random() < 0.08 else None
    return arts, orns, ferm, fing


def reflect_vocab():
    """articulation and ornament names of the tree under test: io/exportmusicxml.py ARTICULATIONS and the tuples
    `articulations` / `ornaments` in io/importmusicxml.py get_articulations / get_ornaments (read from the
    source with ast), united with the generator's lists -> (articulations, ornaments, names found in the tree)"""
    import ast
    import inspect
    arts, orns, found = set(ART_VOCAB), set(ORN_VOCAB), 0
    try:
        from partitura.io import exportmusicxml
        live = [str(a) for a in exportmusicxml.ARTICULATIONS]
        arts.update(live)
        found += len(live)
    except Exception:
        pass
    try:
        from partitura.io import importmusicxml
        for fn, name, dest in (("get_articulations", "articulations", arts), ("get_ornaments", "ornaments", orns)):
            tree = ast.parse(inspect.getsource(getattr(importmusicxml, fn)))
            for node in ast.walk(tree):
                if isinstance(node, ast.Assign) and any(isinstance(t, ast.Name) and t.id == name for t in node.targets):
                    vals = ast.literal_eval(node.value)
                    dest.update(str(v) for v in vals)
                    found += len(vals)
    except Exception:
        pass
    ok = lambda w: all(32 <= ord(c) < 127 for c in w) and '"' not in w
    return sorted(a for a in arts if ok(a)), sorted(o for o in orns if ok(o)), found


def gen():
    """Gen/C08_Vocab.v: the articulation / ornament vocabulary of the tree under test (Proofs/C08_attrs.v proves by
    computation over these complete lists that no name but "staccato" / "accent" reads back as a supported
    articulation and that none disturbs the voice, staff, grace or tie marks)"""
    core.setup_import_path()
    arts, orns, found = reflect_vocab()
    text = "\n".join([
        "(* GENERATED by harness/props/c08.py from the working tree -- do not edit *)",
        "From Coq Require Import List String.", "Import ListNotations.", "",
        "Definition art_vocab : list string := %s." % clist([cstr(a) for a in arts]),
        "Definition orn_vocab : list string := %s." % clist([cstr(a) for a in orns]), ""])
    core.write_gen("C08_Vocab", text)
    return found


def measure_len(divs, num, den):
    x = Fraction(num * 4 * divs, den)
    return int(x) if x.denominator == 1 else None


def pick_clock(rng):
    r = rng.random()
    if r < 0.60:
        return rng.choice(CLOCKS[:4])
    if r < 0.68:
        return CLOCKS[4]
    if r < 0.92:
        return rng.choice(PAIRS)
    return (rng.randint(24, 2000), rng.randint(200000, 1500000))


def gen_case(rng, size=1.0):
    """One case as a JSON-serialisable dict (times in divisions / seconds as exact fractions 'a/b')."""
    divs, grids = rng.choice(DIVS_GRIDS)
    g = rng.choice(grids)
    meters = [m for m in METERS if measure_len(divs, *m) is not None and measure_len(divs, *m) % g == 0]
    if not meters:
        g = 1
        meters = [m for m in METERS if measure_len(divs, *m) is not None]
    nmeas = rng.randint(1, max(1, int(6 * size)))
    # time signatures: (measure index, num, den)
    tsigs = [[0] + list(rng.choice(meters))]
    r = rng.random()
    nchg = 0 if r < 0.45 else 1 if r < 0.8 else 2
    for mi in sorted(rng.sample(range(1, nmeas), min(nchg, nmeas - 1))) if nmeas > 1 else []:
        cand = [m for m in meters if list(m) != tsigs[-1][1:]]
        if cand:
            back = tuple(tsigs[0][1:])  # the first signature again after another one (A, B, A)
            tsigs.append([mi] + list(back if len(tsigs) > 1 and back in cand and rng.random() < 0.4 else rng.choice(cand)))
    # a signature written again with the value in force (the reader keeps the first row of a run of equal values)
    if nmeas > 1 and rng.random() < 0.12:
        mi = rng.randint(1, nmeas - 1)
        if all(ts[0] != mi for ts in tsigs):
            prev = [ts for ts in tsigs if ts[0] < mi][-1]
            tsigs = sorted(tsigs + [[mi] + prev[1:]])
    # measure table
    starts, tsm = [], []
    t = 0
    cur = None
    pickup = 0
    for mi in range(nmeas):
        for ts in tsigs:
            if ts[0] == mi:
                cur = ts
        full = measure_len(divs, cur[1], cur[2])
        ln = full
        if mi == 0 and nmeas > 1 and rng.random() < 0.35 and full // g >= 2:
            ln = g * rng.randint(1, full // g - 1)
            pickup = ln
        starts.append(t)
        tsm.append((cur[1], cur[2]))
        t += ln
    end = t
    bounds = starts + [end]
    # key signatures (measure index, fifths, mode)
    ksigs = []
    if rng.random() < 0.85:
        ksigs.append([0, rng.randint(-7, 7), rng.choice(["major", "minor"])])
    for mi in range(1, nmeas):
        if rng.random() < 0.2:
            k = [mi, rng.randint(-7, 7), rng.choice(["major", "minor"])]
            if ksigs and rng.random() < 0.15:
                k[1:] = ksigs[-1][1:3]  # the key in force written again
            if not ksigs or ksigs[-1][1:3] != k[1:] or rng.random() < 0.5:
                # written inside the bar (4th element: divisions after the barline): loaded at the start of that bar
                slots = (bounds[mi + 1] - bounds[mi]) // g
                if slots >= 2 and rng.random() < 0.2:
                    k.append(g * rng.randint(1, slots - 1))
                ksigs.append(k)
    # notes
    id_style = rng.choice(["n", "s", "m", "n"])
    r = rng.random()
    vs_mode = "none" if r < 0.07 else "voices_only" if r < 0.14 else "some_voices_missing" if r < 0.25 else "some_staves_missing" if r < 0.36 else "all"
    notes = []
    nid = 0
    used = set()  # (onset, midi pitch) -> avoid accidental unisons except on purpose
    for mi in range(nmeas):
        ms, me = bounds[mi], bounds[mi + 1]
        slots = (me - ms) // g
        nev = rng.randint(1, max(1, min(slots, int(1 + 4 * size))))
        first_on_bar = (mi == 0 and pickup) or rng.random() < 0.65
        offs = sorted(rng.sample(range(slots), min(nev, slots)))
        if first_on_bar:
            offs[0] = 0
            offs = sorted(set(offs))
        for k in offs:
            on = ms + k * g
            chord = 1 if rng.random() < 0.7 else rng.randint(2, 3)
            voice = rng.randint(1, 4)
            if rng.random() < 0.12:  # a grace note in front of the event
                st = rng.choice(STEPS)
                ga = draw_attrs(rng) if rng.random() < 0.3 else ([], [], False, None)
                notes.append(dict(id=nid, step=st, alter=rng.choice([0, 0, 1, -1]), octave=rng.randint(2, 6), on=on, dur=0,
                                  voice=voice, staff=1 if voice <= 2 else 2, grace=True, arts=ga[0], orns=ga[1], fermata=ga[2],
                                  fingering=ga[3], tie=[]))
                nid += 1
            for c in range(chord):
                unison = c > 0 and rng.random() < 0.15  # the pitch of the previous chord note again, in another voice
                for _try in range(6):
                    if unison:
                        break
                    st, al, oc = rng.choice(STEPS), rng.choice([0, 0, 0, 1, -1, 2, -2, None]), rng.randint(1, 7)
                    mp = 12 * (oc + 1) + BASE[st] + (al or 0)
                    if (on, mp) not in used or rng.random() < 0.05:
                        break
                used.add((on, mp))
                maxd = (end - on) // g
                r = rng.random()
                if r < 0.75:
                    d = g * rng.randint(1, max(1, min(maxd, max(1, (me - on) // g))))
                else:
                    d = g * rng.randint(1, max(1, min(maxd, 2 * max(1, (bounds[min(mi + 1, nmeas - 1) + 1] - ms) // g))))
                d = min(d, end - on)
                # the line codec (C07) holds fractions with numerator and denominator <= 1024 exactly; longer
                # durations are approximated by it (known finding C08-K2, exercised by K2_CASE), not generated
                while d > g and Fraction(d, 4 * divs).numerator > 1024:
                    d -= g
                # split at barlines (tied chain), sometimes an extra tie inside the bar
                cuts = [b for b in bounds if on < b < on + d]
                if not cuts and d >= 2 * g and rng.random() < 0.1:
                    cuts = [on + g * rng.randint(1, d // g - 1)]
                arts, orns, ferm, fing = draw_attrs(rng)
                v = voice if c == 0 or rng.random() < 0.8 else rng.randint(1, 4)
                if unison:
                    v = 1 + (voice % 4)
                notes.append(dict(id=nid, step=st, alter=al, octave=oc, on=on, dur=d, voice=v, staff=1 if v <= 2 else 2,
                                  grace=False, arts=arts, orns=orns, fermata=ferm, fingering=fing, tie=cuts))
                nid += 1
    # voices and staves: all given (with the generator's numbering, other staff numbers, or many voices / staves so
    # that the tokens have two digits), none given, only voices given, or missing on some of the notes only
    if vs_mode == "none":
        for n in notes:
            n["voice"] = None
            n["staff"] = None
    else:
        r = rng.random()
        if r < 0.2:
            for n in notes:
                n["staff"] = rng.randint(1, 3)
        elif r < 0.34:
            top = rng.choice([4, 10, 12, 16, 23])
            for n in notes:
                n["staff"] = rng.randint(1, top)
        if rng.random() < 0.12:
            shift = rng.choice([5, 8, 9, 10, 17])
            for n in notes:
                n["voice"] += rng.randint(0, shift)
        if vs_mode == "voices_only":
            for n in notes:
                n["staff"] = None
        elif vs_mode == "some_voices_missing":
            for n in notes:
                if rng.random() < 0.3:
                    n["voice"] = None
        elif vs_mode == "some_staves_missing":
            for n in notes:
                if rng.random() < 0.3:
                    n["staff"] = None

    def sid(k):
        return {"n": "n%d" % k, "s": "s%d" % k, "m": "P1-m%d" % k}[id_style]
    for n in notes:
        n["id"] = sid(n["id"])
    # performance
    ppq, mpq = pick_clock(rng)  # the clock asked of save_match (first leg)
    # the clock the performed part was "loaded" with: None = a freshly built PerformedPart (seconds only, no
    # tick fields); otherwise the notes carry note_on_tick/note_off_tick of THAT clock (as anything loaded from a
    # match or MIDI file does) and the PerformedPart has that ppq/mpq -- equal to the save clock or another one
    r = rng.random()
    pclock = None if r < 0.4 else [ppq, mpq] if r < 0.55 else list(pick_clock(rng))
    gppq, gmpq = pclock or (ppq, mpq)
    tick = Fraction(gmpq, 10 ** 6 * gppq)  # seconds per tick of the grid the generated times lie on
    spq = Fraction(rng.randint(250, 1200), 1000)  # seconds per score quarter
    on_grid = rng.random() < 0.7
    pid_style = "n" if rng.random() < 0.85 else rng.choice(["p", "int"])
    pnotes, alignment = [], []
    pk = [0]
    busy = {}  # pitch -> list of (on, off) to avoid overlapping notes of one pitch (that is C14's subject)

    def q_time(x):
        """seconds (Fraction): on the tick grid, on an exact half tick, or a dyadic float off the grid"""
        x = max(Fraction(0), x)
        k = int(x / tick)
        if on_grid:
            return Fraction(float(k * tick))  # the float a MIDI loader would produce
        r = rng.random()
        if r < 0.15:
            return Fraction(float((k + Fraction(1, 2)) * tick))
        return Fraction(float(x))

    def new_pnote(pitch, t_on, length):
        on = q_time(t_on)
        off = q_time(on + max(length, 2 * tick))
        if off <= on:
            off = on + Fraction(float(2 * tick))
        for _ in range(40):
            if all(off <= a or on >= b for a, b in busy.get(pitch, [])):
                break
            pitch = 21 + (pitch - 21 + 1) % 88
        busy.setdefault(pitch, []).append((on, off))
        k = pk[0]
        pk[0] += 1
        pid = {"n": "n%d" % k, "p": "p%d" % k, "int": k}[pid_style]
        pn = dict(id=pid, pitch=pitch, on=str(on), off=str(off), vel=rng.randint(1, 127))
        if pclock:
            pn["on_tick"], pn["off_tick"] = int(rhe(on / tick)), int(rhe(off / tick))
        pnotes.append(pn)
        return pid

    r_non = rng.choice([0.0, 0.1, 0.2, 0.4])
    # the exporter orders insertions with a performance-time -> score-time map through the matched notes that have
    # a duration: alignments with exactly one such match, and with none (only grace notes matched: known finding K1)
    r = rng.random()
    al_mode = "only_grace_matched" if r < 0.025 else "single_match" if r < 0.075 else "any"
    plain = [n["id"] for n in notes if not n["grace"]]
    the_one = rng.choice(plain) if plain else None
    if al_mode != "any":
        r_non = max(r_non, 0.2)
    lead = Fraction(rng.randint(0, 2000), 1000)
    for n in notes:
        tq = Fraction(n["on"], divs) * spq + lead
        mp = 12 * (n["octave"] + 1) + BASE[n["step"]] + (n["alter"] or 0)
        mp = min(108, max(21, mp))
        if (al_mode == "any" and rng.random() < r_non * 0.6) or (
                al_mode != "any" and not n["grace"] and not (al_mode == "single_match" and n["id"] == the_one)) or (
                al_mode != "any" and n["grace"] and rng.random() < 0.3):
            alignment.append(dict(label="deletion", score_id=n["id"]))
        else:
            jit = Fraction(rng.randint(-30, 30), 1000)
            pid = new_pnote(mp, tq + jit, Fraction(max(n["dur"], 1), divs) * spq * Fraction(rng.randint(50, 110), 100))
            alignment.append(dict(label="match", score_id=n["id"], performance_id=pid))
        if rng.random() < r_non * 0.25:  # ornament notes anchored here
            for j in range(rng.randint(1, 3)):
                pid = new_pnote(min(108, mp + 1 + j % 2), tq + Fraction(20 * (j + 1), 1000), Fraction(15, 1000))
                alignment.append(dict(label="ornament", score_id=n["id"], performance_id=pid, type="trill"))
        if rng.random() < r_non * 0.4:
            pid = new_pnote(rng.randint(21, 108), tq + Fraction(rng.randint(0, 400), 1000), Fraction(rng.randint(20, 600), 1000))
            alignment.append(dict(label="insertion", performance_id=pid))
    rng.shuffle(alignment) if rng.random() < 0.5 else None
    # pedals
    total = Fraction(end, divs) * spq + lead + 1
    nped = rng.choice([0, 0, 1, 2, 5, 10, 25, 50])
    controls = []
    for i in range(nped):
        t = q_time(Fraction(rng.randint(0, int(total * 1000)), 1000))
        controls.append(dict(number=rng.choice([64, 64, 64, 67, 67, 1, 7]), time=str(t), value=rng.choice([0, 127, 64, 63, rng.randint(0, 127)])))
    # history: further legs  load -> save_match with (ppq, mpq) -> load ; "loaded" = the score part that was
    # loaded is saved again, "orig" = the generated part is saved with the loaded performance and alignment
    r = rng.random()
    legs, prev = [], (ppq, mpq)
    for _ in range(0 if r < 0.4 else 1 if r < 0.85 else 2):
        c = prev if rng.random() < 0.12 else pick_clock(rng)
        legs.append([c[0], c[1], "loaded" if rng.random() < 0.6 else "orig"])
        prev = c
    return dict(divs=divs, grid=g, tsigs=tsigs, ksigs=ksigs, bounds=bounds, pickup=pickup, notes=notes,
                pnotes=pnotes, alignment=alignment, controls=controls, ppq=ppq, mpq=mpq, pclock=pclock, legs=legs)


# ----------------------------------------------------------------------------
# building partitura objects, running the implementation


def fmt_pid(pid):
    s = str(pid)
    return s if s.startswith("n") else "n" + s


def build_objects(case):
    from partitura import score
    from partitura.performance import PerformedPart

    divs = case["divs"]
    part = score.Part("P0", "generated", quarter_duration=divs)
    b = case["bounds"]
    for mi, num, den in case["tsigs"]:
        part.add(score.TimeSignature(num, den), b[mi])
    for k in case["ksigs"]:
        part.add(score.KeySignature(k[1], k[2]), b[k[0]] + (k[3] if len(k) > 3 else 0))
    for mi in range(len(b) - 1):
        part.add(score.Measure(number=mi + 1), b[mi], b[mi + 1])
    for n in case["notes"]:
        kw = dict(step=n["step"], alter=n["alter"], octave=n["octave"], voice=n["voice"], staff=n["staff"])
        if n["grace"]:
            o = score.GraceNote(grace_type="acciaccatura", id=n["id"], articulations=list(n["arts"]) if n["arts"] else None,
                                ornaments=list(n["orns"]) if n.get("orns") else None,
                                technical=[score.Fingering(n["fingering"])] if n.get("fingering") else None, **kw)
            part.add(o, n["on"], n["on"])
            if n.get("fermata"):
                o.fermata = score.Fermata(o)
                part.add(o.fermata, n["on"])
            continue
        pts = [n["on"]] + list(n["tie"]) + [n["on"] + n["dur"]]
        prev = None
        for i in range(len(pts) - 1):
            nid = n["id"] if i == 0 else "%s_t%d" % (n["id"], i)
            o = score.Note(id=nid, articulations=list(n["arts"]) if n["arts"] else None,
                           ornaments=list(n["orns"]) if n.get("orns") else None,
                           technical=[score.Fingering(n["fingering"])] if n.get("fingering") else None, **kw)
            part.add(o, pts[i], pts[i + 1])
            if n.get("fermata"):
                o.fermata = score.Fermata(o)
                part.add(o.fermata, pts[i])
            if prev is not None:
                prev.tie_next = o
                o.tie_prev = prev
            prev = o
    pn = []
    for p in case["pnotes"]:
        d = dict(id=p["id"], midi_pitch=p["pitch"], note_on=float(Fraction(p["on"])), note_off=float(Fraction(p["off"])),
                 velocity=p["vel"])
        if "on_tick" in p:  # tick fields of the clock the performance was loaded with (case["pclock"])
            d["note_on_tick"], d["note_off_tick"] = p["on_tick"], p["off_tick"]
        pn.append(d)
    ctrl = [dict(number=c["number"], time=float(Fraction(c["time"])), value=c["value"]) for c in case["controls"]]
    pq, mq = case.get("pclock") or (case["ppq"], case["mpq"])
    ppart = PerformedPart(notes=pn, id="PP", controls=ctrl, ppq=pq, mpq=mq)
    alignment = [dict(a) for a in case["alignment"]]
    return part, ppart, alignment


def fr(x):
    """float/np number -> exact Fraction string"""
    return str(Fraction(float(x)))


def observe_part(part):
    """Observables of a score part named by C08 (positions in beats as exact fractions of the float)."""
    from partitura import score

    bm = part.beat_map
    na = part.note_array(include_pitch_spelling=True, include_staff=True, include_grace_notes=True)
    notes = {}
    objs = {n.id: n for n in part.notes_tied}
    for r in na:
        o = objs[str(r["id"])]
        notes[str(r["id"])] = dict(
            onset_beat=fr(r["onset_beat"]), duration_beat=fr(r["duration_beat"]),
            onset_div=int(r["onset_div"]), duration_div=int(r["duration_div"]),
            step=str(r["step"]), alter=int(r["alter"]), octave=int(r["octave"]), pitch=int(r["pitch"]),
            voice=int(r["voice"]), staff=int(r["staff"]), grace=bool(r["is_grace"]),
            arts=sorted(a for a in (o.articulations or []) if a in SUPPORTED_ARTS))
    def by_pos(rows):
        rows = sorted(rows, key=lambda r: (float(r[0]),) + tuple(r[1:]))
        return [(fr(r[0]),) + tuple(r[1:]) for r in rows]
    meas = by_pos((bm(m.start.t), float(bm(m.end.t))) for m in part.iter_all(score.Measure))
    ts = by_pos((bm(t.start.t), int(t.beats), int(t.beat_type)) for t in part.iter_all(score.TimeSignature))
    ks = by_pos((bm(k.start.t), int(k.fifths), str(k.mode)) for k in part.iter_all(score.KeySignature))
    ts_div = sorted((int(t.start.t), int(t.beats), int(t.beat_type)) for t in part.iter_all(score.TimeSignature))
    ks_div = sorted(((int(k.start.t), int(k.fifths), str(k.mode)) for k in part.iter_all(score.KeySignature)), key=lambda r: r[0])
    meas_div = sorted((int(m.start.t), int(m.end.t)) for m in part.iter_all(score.Measure))
    q = sorted(set(int(x) for x in part._quarter_durations))
    # measure table as the exporter reads it: start in divisions, denominator in force there
    mt = sorted((int(m.start.t), int(part.time_signature_map(m.start.t)[1])) for m in part.iter_all(score.Measure))
    return dict(notes=notes, measures=meas, tsigs=ts, ksigs=ks, quarter_durations=q, meas_tab=mt,
                ts_div=ts_div, ks_div=ks_div, meas_div=meas_div)


def part_attrs(part):
    """what save_match is given for the attribute list of every note of the part (read from the objects):
    id -> (voice, staff, articulations, ornaments, fermata, fingerings, grace note), and the ids of the notes that
    share onset and pitch with another note (their deletion lines get the mark voice_overlap)"""
    from partitura import score
    from collections import Counter

    out = {}
    for n in part.iter_all(score.Note, include_subclasses=True):
        tech = [t.fingering for t in (n.technical or []) if isinstance(t, score.Fingering)]
        out[str(n.id)] = (n.voice, n.staff, [str(a) for a in (n.articulations or [])], [str(a) for a in (n.ornaments or [])],
                          n.fermata is not None, [int(t) for t in tech], isinstance(n, score.GraceNote))
    na = part.note_array()
    cnt = Counter((int(r["onset_div"]), int(r["pitch"])) for r in na)
    overlap = sorted(str(r["id"]) for r in na if cnt[(int(r["onset_div"]), int(r["pitch"]))] > 1)
    return dict(notes=out, overlap=overlap)


def observe_file(path):
    """The written file read back through the library's line parser (file-level view; line text is C07)."""
    from partitura.io.importmatch import load_matchfile
    from partitura.io.matchfile_base import BaseSnoteNoteLine, BaseDeletionLine, BaseInsertionLine, BaseOrnamentLine

    with warnings.catch_warnings():
        warnings.simplefilter("ignore")
        mf = load_matchfile(path)
    lines = []
    for ln in mf.lines:
        if isinstance(ln, BaseSnoteNoteLine):
            lines.append(("match", ln.snote, ln.note))
        elif isinstance(ln, BaseDeletionLine):
            lines.append(("deletion", ln.snote, None))
        elif isinstance(ln, BaseInsertionLine):
            lines.append(("insertion", None, ln.note))
        elif isinstance(ln, BaseOrnamentLine):
            lines.append(("ornament", ln.Anchor, ln.note))
    out = []
    for kind, s, n in lines:
        d = dict(kind=kind)
        if kind == "ornament":
            d["sid"] = str(s)
        elif s is not None:
            d.update(sid=str(s.Anchor), measure=int(s.Measure), beat=int(s.Beat),
                     off=[int(s.Offset.numerator), int(s.Offset.denominator), s.Offset.tuple_div],
                     dur=[int(s.Duration.numerator), int(s.Duration.denominator), s.Duration.tuple_div],
                     dur_add=s.Duration.add_components, oib=fr(s.OnsetInBeats), offib=fr(s.OffsetInBeats),
                     attrs=[str(a) for a in s.ScoreAttributesList])
        if n is not None:
            d.update(pid=str(n.Id), pitch=int(n.MidiPitch), on=int(n.Onset), off_t=int(n.Offset), vel=int(n.Velocity))
        out.append(d)
    sp = []
    for ln in mf.lines:
        if getattr(ln, "Attribute", None) in ("timeSignature", "keySignature") and hasattr(ln, "Measure"):
            val = ([int(ln.Value.numerator), int(ln.Value.denominator)] if ln.Attribute == "timeSignature"
                   else [int(ln.Value.fifths), str(ln.Value.mode)])
            sp.append(dict(attr=ln.Attribute, value=val, measure=int(ln.Measure), beat=int(ln.Beat),
                           off=[int(ln.Offset.numerator), int(ln.Offset.denominator)], tib=fr(ln.TimeInBeats)))
    ped = [dict(number=64 if "ustain" in type(ln).__name__ else 67, time=int(ln.Time), value=int(ln.Value))
           for ln in mf.lines if hasattr(ln, "Time") and hasattr(ln, "Value") and not hasattr(ln, "Attribute")]
    return dict(lines=out, scoreprops=sp, pedals=ped, ppq=mf.info("midiClockUnits"), mpq=mf.info("midiClockRate"))


def run_leg(obs, alignment, perf_arg, score_arg, ppq, mpq, path):
    """save_match(alignment, performance, score, ppq, mpq) -> file -> load_match(create_score=True) on live
    objects; fills obs (needs obs["orig"]) and keeps the loaded objects in obs["_live"] for a further leg."""
    from partitura.io.exportmatch import save_match
    from partitura.io.importmatch import load_match

    with warnings.catch_warnings():
        warnings.simplefilter("ignore")
        try:
            if (ppq, mpq) == (480, 500000) and obs.get("use_defaults"):
                save_match(alignment, perf_arg, score_arg, out=path, assume_unfolded=True)  # the default clock
            else:
                save_match(alignment, perf_arg, score_arg, out=path, mpq=mpq, ppq=ppq, assume_unfolded=True)
        except Exception as e:
            return dict(status="save_error", error="%s: %s" % (type(e).__name__, str(e)[:300]), orig=obs["orig"], src=obs.get("src"))
        with open(path) as f:
            obs["text_lines"] = f.read().splitlines()
        try:
            obs["file"] = observe_file(path)
        except Exception as e:
            return dict(status="load_error", error="load_matchfile %s: %s" % (type(e).__name__, str(e)[:300]), orig=obs["orig"])
        try:
            perf, al2, scr = load_match(path, create_score=True)
        except Exception as e:
            import traceback
            return dict(status="load_error", error="%s: %s | %s" % (type(e).__name__, str(e)[:300], traceback.format_exc()[-400:]),
                        orig=obs["orig"], file=obs["file"])
        obs["alignment"] = [dict((k, (v if isinstance(v, (str, int)) else [str(x) for x in v])) for k, v in a.items()) for a in al2]
        try:
            obs["perf"] = observe_perf(perf[0])
        except Exception as e:
            return dict(status="load_error", error="observing loaded performance %s: %s" % (type(e).__name__, str(e)[:300]), orig=obs["orig"])
        try:
            obs["loaded"] = observe_part(scr[0])
        except Exception as e:
            return dict(status="load_error", error="observing loaded part %s: %s" % (type(e).__name__, str(e)[:300]), orig=obs["orig"])
        obs["_live"] = (perf, al2, scr)
    try:
        os.remove(path)
    except OSError:
        pass
    return obs


def observe_perf(pp):
    return dict(
        ppq=int(pp.ppq), mpq=int(pp.mpq),
        notes=[dict(id=str(n["id"]), pitch=int(n["midi_pitch"]), vel=int(n["velocity"]),
                    on_tick=int(n["note_on_tick"]), off_tick=int(n["note_off_tick"]),
                    on=fr(n["note_on"]), off=fr(n["note_off"])) for n in pp.notes],
        controls=[dict(number=int(c["number"]), time=fr(c["time"]), value=int(c["value"])) for c in pp.controls])


def export_src_case(case):
    """what the exporter is given, from the generated case: measure table, divisions, (onset, duration) per id"""
    return dict(tab=measure_table(case), divs=case["divs"], notes={n["id"]: (n["on"], n["dur"]) for n in case["notes"]})


def export_src_part(o):
    """the same from an observed part (a part that was itself loaded from a match file)"""
    if len(o["quarter_durations"]) != 1:
        return None
    first = 0 if o["measures"] and Fraction(o["measures"][0][0]) < 0 else 1
    tab = [(first + i, st, den) for i, (st, den) in enumerate(o["meas_tab"])]
    return dict(tab=tab, divs=o["quarter_durations"][0],
                notes={nid: (n["onset_div"], n["duration_div"]) for nid, n in o["notes"].items()})


def run_impl(case, workdir, name="case"):
    """first leg: build -> save_match -> file -> load_match(create_score=True).  Returns dict(status=..., ...)."""
    os.makedirs(workdir, exist_ok=True)
    path = os.path.join(workdir, name + ".match")
    obs = dict(status="ok", use_defaults=bool(len(case["pnotes"]) % 2))
    with warnings.catch_warnings():
        warnings.simplefilter("ignore")
        try:
            part, ppart, alignment = build_objects(case)
            obs["orig"] = observe_part(part)
        except Exception as e:  # not the subject of C08 (construction of the inputs)
            return dict(status="build_error", error="%s: %s" % (type(e).__name__, e))
    obs["src"] = export_src_case(case)
    obs["src_attrs"] = part_attrs(part)
    return run_leg(obs, alignment, ppart, part, case["ppq"], case["mpq"], path)


def derive_case(case, obs, ppq, mpq, mode):
    """the input of a further leg written as a case: the performance and alignment that were LOADED are what
    is saved now (their seconds are the 'original' seconds of this leg), with the clock asked of this leg"""
    d = dict(case)
    d["pnotes"] = [dict(id=n["id"], pitch=n["pitch"], on=n["on"], off=n["off"], vel=n["vel"],
                        on_tick=n["on_tick"], off_tick=n["off_tick"]) for n in obs["perf"]["notes"]]
    d["controls"] = [dict(number=c["number"], time=c["time"], value=c["value"]) for c in obs["perf"]["controls"]]
    d["alignment"] = [dict((k, a[k]) for k in ("label", "score_id", "performance_id") if k in a) for a in obs["alignment"]]
    d["pclock"] = [obs["perf"]["ppq"], obs["perf"]["mpq"]]
    d["ppq"], d["mpq"], d["legs"] = ppq, mpq, []
    if mode == "loaded":  # the loaded part has a voice and a staff on every note
        L = obs["loaded"]["notes"]
        d["notes"] = [dict(n, voice=L[n["id"]]["voice"], staff=L[n["id"]]["staff"]) for n in case["notes"] if n["id"] in L]
    return d


def run_chain(case, workdir, name="case"):
    """all legs of the case's history -> [(case of the leg, observations of the leg)]; stops after a failing leg"""
    obs = run_impl(case, workdir, name)
    out = [(case, obs)]
    cur = case
    for k, (ppq, mpq, mode) in enumerate(case.get("legs") or []):
        if obs["status"] != "ok":
            break
        perf, al, scr = obs["_live"]
        cur = derive_case(cur, obs, ppq, mpq, mode)
        o2 = dict(status="ok", use_defaults=bool(len(cur["pnotes"]) % 2), leg=k + 2, mode=mode)
        if mode == "loaded":
            o2["orig"], o2["src"] = obs["loaded"], export_src_part(obs["loaded"])
            o2["src_attrs"] = part_attrs(scr[0])
            args = (al, perf, scr) if k % 2 == 0 else (al, perf[0], scr[0])
        else:
            with warnings.catch_warnings():
                warnings.simplefilter("ignore")
                part = build_objects(case)[0]
                o2["orig"] = observe_part(part)
                o2["src_attrs"] = part_attrs(part)
            o2["src"] = export_src_case(case)
            args = (al, perf[0], part)
        obs = run_leg(o2, args[0], args[1], args[2], ppq, mpq, os.path.join(workdir, "%s_leg%d.match" % (name, k + 2)))
        out.append((cur, obs))
    return out


def check_chain(case, workdir, name="case"):
    """-> ([(leg number, clause, message)], chain)"""
    chain = run_chain(case, workdir, name)
    bad = []
    for k, (c, o) in enumerate(chain):
        bad += [(k + 1, cl, msg if k == 0 else "leg %d (saved again with ppq=%s mpq=%s, %s score): %s" % (k + 1, c["ppq"], c["mpq"], o.get("mode", "?"), msg))
                for cl, msg in oracle(c, o)]
    return bad, chain


# ----------------------------------------------------------------------------
# direct oracle


def rhe(x):
    f = math.floor(x)
    r = x - f
    if r < Fraction(1, 2):
        return f
    if r > Fraction(1, 2):
        return f + 1
    return f if f % 2 == 0 else f + 1


def near_tie(case, t):
    """exact tick value within 2^-20 of .5 but not on it, or an exact tie whose float product is inexact"""
    ppq, mpq = case["ppq"], case["mpq"]
    exact = Fraction(10 ** 6) * ppq * t / mpq
    frac = exact - math.floor(exact)
    d = abs(frac - Fraction(1, 2))
    if d != 0 and d < Fraction(1, 2 ** 20):
        return True
    fl = Fraction(1e6 * ppq * float(t) / mpq)
    return fl != exact and abs(fl - exact) >= d / 2 and d < Fraction(1, 2 ** 20)


def to_tick(case, t):
    return rhe(Fraction(10 ** 6) * case["ppq"] * t / case["mpq"])


def close(a, b, rel=Fraction(1, 10 ** 9), ab=Fraction(1, 10 ** 9)):
    a, b = Fraction(a), Fraction(b)
    return abs(a - b) <= ab + rel * abs(b)


def expected_alignment(case):
    out = []
    for a in case["alignment"]:
        if a["label"] == "match":
            out.append(("match", a["score_id"], fmt_pid(a["performance_id"])))
        elif a["label"] == "deletion":
            out.append(("deletion", a["score_id"], None))
        elif a["label"] == "insertion":
            out.append(("insertion", None, fmt_pid(a["performance_id"])))
        else:
            out.append(("ornament", a["score_id"], fmt_pid(a["performance_id"])))
    return sorted(out, key=str)


def oracle(case, obs, score=True):
    """Return a list of (clause, message) for every clause of C08 the observables violate (score=False: only the
    alignment and performance clauses)."""
    bad = []
    if obs["status"] != "ok":
        return [(obs["status"], obs.get("error", ""))]
    # O1 alignment
    got = sorted(((a["label"], a.get("score_id"), a.get("performance_id")) for a in obs["alignment"]), key=str)
    exp = expected_alignment(case)
    if got != exp:
        miss = [x for x in exp if x not in got][:3]
        extra = [x for x in got if x not in exp][:3]
        bad.append(("alignment", "alignment differs: missing %s extra %s (%d vs %d entries)" % (miss, extra, len(exp), len(got))))
    # O2 performance
    P = obs["perf"]
    loaded_pids = {n["id"] for n in P["notes"]}
    stray = [a for a in obs["alignment"] if a.get("performance_id") is not None and a["performance_id"] not in loaded_pids]
    if stray:
        bad.append(("alignment_ids", "alignment entries name performed notes that are not in the loaded performance: %s" % stray[:3]))
    if P["ppq"] != case["ppq"] or P["mpq"] != case["mpq"]:
        bad.append(("clock", "loaded performed part has ppq=%s mpq=%s, written with ppq=%s mpq=%s" % (P["ppq"], P["mpq"], case["ppq"], case["mpq"])))
    tick = Fraction(case["mpq"], 10 ** 6 * case["ppq"])
    lp = {}
    for n in P["notes"]:
        if n["id"] in lp:
            bad.append(("perf_dup", "performed note %s loaded twice" % n["id"]))
        lp[n["id"]] = n
    for p in case["pnotes"]:
        pid = fmt_pid(p["id"])
        n = lp.pop(pid, None)
        if n is None:
            bad.append(("perf_lost", "performed note %s is not in the loaded performance" % pid))
            continue
        if n["pitch"] != p["pitch"] or n["vel"] != p["vel"]:
            bad.append(("perf_note", "note %s pitch/velocity %s/%s, written %s/%s" % (pid, n["pitch"], n["vel"], p["pitch"], p["vel"])))
        for key, tk, sk in (("on", "on_tick", "on"), ("off", "off_tick", "off")):
            t = Fraction(p[key])
            if near_tie(case, t):
                continue
            et = to_tick(case, t)
            if n[tk] != et:
                bad.append(("perf_tick", "note %s %s tick %d, expected %d (t=%s s)" % (pid, key, n[tk], et, float(t))))
            elif not close(n[sk], et * tick):
                bad.append(("perf_sec", "note %s %s = %s s, expected tick %d = %s s" % (pid, key, float(Fraction(n[sk])), et, float(et * tick))))
            elif abs(Fraction(n[sk]) - t) > tick / 2 + Fraction(1, 10 ** 9):
                bad.append(("perf_sec", "note %s %s = %s s is more than half a tick from the written %s s" % (pid, key, float(Fraction(n[sk])), float(t))))
    for pid in sorted(lp):
        bad.append(("perf_extra", "loaded performance has an extra note %s" % pid))
    for num in (64, 67):
        exp_c, seen = [], set()
        for c in case["controls"]:
            if c["number"] != num:
                continue
            t = Fraction(c["time"])
            if near_tie(case, t):
                exp_c = None
                break
            key = (to_tick(case, t), c["value"])
            if key not in seen:  # an exact repetition of an event is one line of the file
                seen.add(key)
                exp_c.append(key)
        if exp_c is None:
            continue
        exp_c.sort(key=lambda x: x[0])
        got_c = [(c["time"], c["value"]) for c in P["controls"] if c["number"] == num]
        if len(got_c) != len(exp_c) or any(v != ev or not close(t, et * tick) for (t, v), (et, ev) in zip(got_c, exp_c)):
            bad.append(("pedal", "controller %d events differ: got %s expected (tick,value) %s" % (num, [(float(Fraction(t)), v) for t, v in got_c][:6], exp_c[:6])))
    others = [c for c in P["controls"] if c["number"] not in (64, 67)]
    if others:
        bad.append(("pedal", "loaded performance has controls other than 64/67: %s" % others[:3]))
    if not score:
        return bad
    # O3 score
    O, L = obs["orig"], obs["loaded"]
    stray = [a for a in obs["alignment"] if a.get("score_id") is not None and a["score_id"] not in L["notes"]]
    if stray:
        bad.append(("alignment_ids", "alignment entries name score notes that are not in the loaded score: %s" % stray[:3]))
    if len(L["quarter_durations"]) != 1:
        bad.append(("score_divs", "loaded part has quarter durations %s" % L["quarter_durations"]))
    on = dict(O["notes"])
    for nid in sorted(L["notes"]):
        ln = L["notes"][nid]
        o = on.pop(nid, None)
        if o is None:
            bad.append(("score_extra", "loaded score has a note %s that was not written" % nid))
            continue
        for k in ("onset_beat", "duration_beat"):
            if not close(ln[k], o[k], rel=0, ab=Fraction(1, 10 ** 6)):
                bad.append(("score_" + k, "note %s %s = %s, written %s" % (nid, k, float(Fraction(ln[k])), float(Fraction(o[k])))))
        for k in ("step", "alter", "octave", "grace", "arts"):
            if ln[k] != o[k]:
                bad.append(("score_" + k, "note %s %s = %r, written %r" % (nid, k, ln[k], o[k])))
    for nid in sorted(on):
        bad.append(("score_lost", "score note %s is not in the loaded score" % nid))
    given = {n["id"]: n for n in case["notes"]}
    for nid, ln in L["notes"].items():
        g = given.get(nid)
        if g is None:
            continue
        if g["voice"] is not None and ln["voice"] != g["voice"]:
            bad.append(("score_voice", "note %s voice %s, written %s" % (nid, ln["voice"], g["voice"])))
        if g["staff"] is not None and ln["staff"] != g["staff"]:
            bad.append(("score_staff", "note %s staff %s, written %s" % (nid, ln["staff"], g["staff"])))

    def same_pos(a, b):
        return len(a) == len(b) and all(close(x[0], y[0], rel=0, ab=Fraction(1, 10 ** 6)) and tuple(x[1:]) == tuple(y[1:]) for x, y in zip(a, b))

    def fl(rows):
        return [tuple([float(Fraction(r[0]))] + list(r[1:])) for r in rows]
    om = [(a, float(b)) for a, b in O["measures"]]
    lm = [(a, float(b)) for a, b in L["measures"]]
    if not (len(om) == len(lm) and all(close(x[0], y[0], rel=0, ab=Fraction(1, 10 ** 6)) and abs(x[1] - y[1]) < 1e-6 for x, y in zip(lm, om))):
        bad.append(("measures", "measures (start,end in beats) loaded %s, written %s" % (fl(lm), fl(om))))
    # a signature is expected at the start of the bar where it was written; one that repeats the value in force
    # says nothing new (on either side)
    starts = sorted(Fraction(m[0]) for m in O["measures"])

    def at_bar_start(rows):
        out = []
        for r in rows:
            p = Fraction(r[0])
            before = [x for x in starts if x <= p + Fraction(1, 10 ** 6)]
            out.append((str(before[-1] if before else p),) + tuple(r[1:]))
        return out

    def changes(rows):
        out = []
        for r in rows:
            if not out or tuple(out[-1][1:]) != tuple(r[1:]):
                out.append(r)
        return out
    ets, lts = changes(at_bar_start(O["tsigs"])), changes(L["tsigs"])
    eks, lks = changes(at_bar_start(O["ksigs"])), changes(L["ksigs"])
    if not same_pos(lts, ets):
        bad.append(("tsigs", "time signatures loaded %s, written %s (expected at the start of their bars: %s)" % (fl(L["tsigs"]), fl(O["tsigs"]), fl(ets))))
    if not same_pos([k[:1] for k in lks], [k[:1] for k in eks]):
        bad.append(("ksig_pos", "key signatures loaded at %s, written at %s (expected at the start of their bars: %s)" % (fl(L["ksigs"]), fl(O["ksigs"]), fl(eks))))
    elif not same_pos(lks, eks):
        bad.append(("ksig_value", "key signatures loaded %s, written %s" % (fl(L["ksigs"]), fl(O["ksigs"]))))
    return bad


# ----------------------------------------------------------------------------
# correspondence: the same numbers as Coq terms (checked by Model/C08.v)

IMPORTS = "From PV Require Import Lib.Base Model.C08 Model.C08_attrs Model.C08_sigs Model.C08_glue Model.C08_Hist Model.C08_file."
DEFS = """
Definition chk_case_export (c : list (Z * Z * Z) * Z * list ((Z * Z) * (Z * Z * Q * Q))) : bool :=
  let '(tab, dpq, ns) := c in forallb (fun n => chk_export (tab, dpq, fst n, snd n)) ns.
"""


def dec4(x):
    """a beat time of the file (4 decimals, parsed to float by the library) as the decimal it denotes"""
    return Fraction(x).limit_denominator(10000)


def qfrac(num, den, tup=None):
    return Fraction(int(num), int(den) * int(tup or 1))


def measure_table(case):
    b = case["bounds"]
    first = 0 if case["pickup"] else 1
    tab, cur = [], None
    for mi in range(len(b) - 1):
        for ts in case["tsigs"]:
            if ts[0] == mi:
                cur = ts
        tab.append((first + mi, b[mi], cur[2]))
    return tab


def export_term(case, obs):
    """tab, dpq, [((on, dur), (measure, beat, offset, duration))] for every score note line of the file; the
    measure table, divisions and note positions are those of the part that was given to save_match (obs["src"])"""
    src = obs.get("src")
    if src is None:
        return None
    rows, seen = [], set()
    for ln in obs["file"]["lines"]:
        if ln["kind"] in ("match", "deletion") and ln["sid"] in src["notes"] and ln["sid"] not in seen:
            seen.add(ln["sid"])
            on, dur = src["notes"][ln["sid"]]
            if ln["dur_add"]:
                return None
            rows.append(ctuple([ctuple([cz(on), cz(dur)]),
                                ctuple([cz(ln["measure"]), cz(ln["beat"]), cq(qfrac(*ln["off"])), cq(qfrac(*ln["dur"]))])]))
    tab = clist([ctuple([cz(a), cz(b), cz(c)]) for a, b, c in src["tab"]])
    return ctuple([tab, cz(src["divs"]), clist(rows)])


def file_tsl(obs):
    """mf.time_signatures: sorted by time, consecutive equal values merged -> (time in beats, den)"""
    rows = sorted(((dec4(Fraction(sp["tib"])), sp["value"]) for sp in obs["file"]["scoreprops"] if sp["attr"] == "timeSignature"),
                  key=lambda r: r[0])
    out = []
    for t, v in rows:
        if not out or out[-1][1] != v:
            out.append((t, v))
    return [(t, v[1]) for t, v in out]


def import_term(case, obs):
    snotes, seen = [], set()
    for ln in obs["file"]["lines"]:
        if ln["kind"] in ("match", "deletion"):
            snotes.append(ln)
    # sort_snotes: lexsort by (Measure, Beat, Offset), stable
    order = sorted(range(len(snotes)), key=lambda i: (snotes[i]["measure"], snotes[i]["beat"], float(qfrac(*snotes[i]["off"]))))
    snotes = [snotes[i] for i in order]
    if not snotes or any(s["dur_add"] for s in snotes) or len(set(s["sid"] for s in snotes)) != len(snotes):
        return None
    L = obs["loaded"]
    if len(L["quarter_durations"]) != 1 or any(s["sid"] not in L["notes"] for s in snotes):
        return None
    tsl = file_tsl(obs)
    first = dec4(Fraction(snotes[0]["oib"]))
    if first != min(dec4(Fraction(s["oib"])) for s in snotes):
        return None
    notes = clist([ctuple([cz(s["measure"]), cz(s["beat"]), cq(qfrac(*s["off"])), cz(s["off"][1] * (s["off"][2] or 1)),
                           cq(qfrac(*s["dur"])), cz(s["dur"][1] * (s["dur"][2] or 1)), cq(dec4(Fraction(s["oib"])))]) for s in snotes])
    loaded = clist([ctuple([cz(L["notes"][s["sid"]]["onset_div"]), cz(L["notes"][s["sid"]]["duration_div"])]) for s in snotes])
    return ctuple([clist([ctuple([cq(t), cz(d)]) for t, d in tsl]), cq(first), notes, cz(L["quarter_durations"][0]), loaded])


def pid_terms(case, obs):
    """per match entry: the performed-note id given to save_match (as text), the id on the line of that score note
    in the file, the id in the loaded alignment -- checked against fmt_pid / pid_leg of Model/C08_glue.v"""
    by_sid = {ln["sid"]: ln for ln in obs["file"]["lines"] if ln["kind"] == "match"}
    loaded = {a["score_id"]: a["performance_id"] for a in obs["alignment"] if a["label"] == "match"}
    out = []
    for a in case["alignment"]:
        if a["label"] != "match" or a["score_id"] not in by_sid or a["score_id"] not in loaded:
            continue
        trip = (str(a["performance_id"]), by_sid[a["score_id"]]["pid"], str(loaded[a["score_id"]]))
        if all(printable(w) and '"' not in w for w in trip):
            out.append(ctuple([cstr(w) for w in trip]))
    return out


def defined_term(case, obs):
    """(score notes given with their has-a-duration flag, performed ids, alignment, save_match succeeded) -- checked
    against save_defined of Model/C08_glue.v (the boundary of the known finding C08-K1)"""
    src = obs.get("src")
    if not src or obs["status"] in ("build_error",):
        return None
    it, ip = Intern(), Intern()
    snotes = clist([ctuple([cz(it(str(k))), cbool(v[1] > 0)]) for k, v in sorted(src["notes"].items())])
    pids = clist([cz(ip(str(p["id"]))) for p in case["pnotes"]])
    al = clist([cline(a["label"], it(str(a["score_id"])) if a.get("score_id") is not None else None,
                      ip(str(a["performance_id"])) if a.get("performance_id") is not None else None) for a in case["alignment"]])
    return ctuple([snotes, pids, al, cbool(obs["status"] != "save_error")])


def printable(w):
    return all(32 <= ord(c) < 127 for c in w)


def attrs_export_terms(case, obs):
    """per score note line of the file: the attributes of the note given to save_match (voice, staff,
    articulations, ornaments, fermata, fingerings, grace note, voice_overlap mark expected) and the attribute list
    read from the file -- checked against Model/C08_attrs.v exp_attrs"""
    sa = obs.get("src_attrs")
    if not sa:
        return []
    out, seen = [], set()
    overlap = set(sa["overlap"])
    for ln in obs["file"]["lines"]:
        if ln["kind"] not in ("match", "deletion") or ln["sid"] not in sa["notes"] or ln["sid"] in seen:
            continue
        seen.add(ln["sid"])
        v, st, arts, orns, ferm, fing, gr = sa["notes"][ln["sid"]]
        if not all(printable(w) for w in list(arts) + list(orns) + ln["attrs"]):
            continue
        ov = ln["kind"] == "deletion" and ln["sid"] in overlap
        given = ctuple([copt(None if v is None else int(v), cz), copt(None if st is None else int(st), cz),
                        clist([cstr(a) for a in arts]), clist([cstr(a) for a in orns]), cbool(ferm),
                        clist([cz(k) for k in fing]), cbool(gr), cbool(ov)])
        out.append(ctuple([given, clist([cstr(a) for a in ln["attrs"]])]))
    return out


def attrs_import_term(case, obs):
    """one term per file: for every score note line the attribute list, the numerator of the duration, the MIDI
    pitch and what was loaded (voice, staff, staccato, accent, grace) -- checked against imp_attrs, fill_voice,
    fill_staff of Model/C08_attrs.v"""
    L = obs["loaded"]["notes"]
    rows, seen = [], set()
    for ln in obs["file"]["lines"]:
        if ln["kind"] not in ("match", "deletion"):
            continue
        if ln["sid"] in seen or ln["sid"] not in L or ln["dur_add"] or not all(printable(w) for w in ln["attrs"]):
            return None
        seen.add(ln["sid"])
        n = L[ln["sid"]]
        rows.append(ctuple([clist([cstr(a) for a in ln["attrs"]]), cz(ln["dur"][0]), cz(n["pitch"]),
                            ctuple([cz(n["voice"]), cz(n["staff"]), cbool("staccato" in n["arts"]), cbool("accent" in n["arts"]),
                                    cbool(n["grace"])])]))
    return clist(rows) if rows else None


MODE_CODE = {"major": 1, "minor": 2}


def layout_term(case, obs):
    """one term per file: time and key signature rows of the file (time in beats, measure, value), first onset, the
    note lines in the importer's order, and what was loaded: divisions, time signatures, key signatures (position
    in divisions, value), measures (start, end) -- checked against Model/C08_sigs.v (sig_rows, place, spans)"""
    snotes = [ln for ln in obs["file"]["lines"] if ln["kind"] in ("match", "deletion")]  # in the order of the file
    if not snotes or any(s["dur_add"] for s in snotes) or len(set(s["sid"] for s in snotes)) != len(snotes):
        return None
    L = obs["loaded"]
    if len(L["quarter_durations"]) != 1:
        return None
    notes = clist([ctuple([cz(s["measure"]), cz(s["beat"]), cq(qfrac(*s["off"])), cz(s["off"][1] * (s["off"][2] or 1)),
                           cq(qfrac(*s["dur"])), cz(s["dur"][1] * (s["dur"][2] or 1)), cq(dec4(Fraction(s["oib"])))]) for s in snotes])

    def zz(a, b):
        return ctuple([cz(a), cz(b)])
    tsr = [ctuple([cq(dec4(Fraction(sp["tib"]))), cz(sp["measure"]), zz(*sp["value"])])
           for sp in obs["file"]["scoreprops"] if sp["attr"] == "timeSignature"]
    ksr = [ctuple([cq(dec4(Fraction(sp["tib"]))), cz(sp["measure"]), zz(sp["value"][0], MODE_CODE.get(sp["value"][1], 0))])
           for sp in obs["file"]["scoreprops"] if sp["attr"] == "keySignature"]
    if not tsr:
        return None
    lts = clist([ctuple([cz(t), zz(a, b)]) for t, a, b in L["ts_div"]])
    lks = clist([ctuple([cz(t), zz(f, MODE_CODE.get(m, 0))]) for t, f, m in L["ks_div"]])
    lmeas = clist([zz(a, b) for a, b in L["meas_div"]])
    return ctuple([clist(tsr), clist(ksr), notes, cz(L["quarter_durations"][0]), lts, lks, lmeas])


def sig_export_term(case, obs):
    """measure table of the part given to save_match and, for each of its time / key signatures inside a measure (in
    the order of time), the time in divisions and the measure number on the corresponding scoreprop line of the
    file -- checked against sig_meas of Model/C08_sigs.v"""
    src, O = obs.get("src"), obs.get("orig")
    if not src or not O or "ts_div" not in O:
        return None
    tab = sorted(src["tab"], key=lambda r: r[1])
    if not tab:
        return None
    end = max(b for _, b in O["meas_div"]) if O.get("meas_div") else None
    rows = []
    for attr, key in (("timeSignature", "ts_div"), ("keySignature", "ks_div")):
        given = [r[0] for r in O[key] if r[0] >= tab[0][1] and (end is None or r[0] < end)]
        written = [sp["measure"] for sp in obs["file"]["scoreprops"] if sp["attr"] == attr]
        if len(given) != len(written):
            return None
        rows += [ctuple([cz(t), cz(m)]) for t, m in zip(given, written)]
    return ctuple([clist([ctuple([cz(a), cz(b), cz(c)]) for a, b, c in tab]), clist(rows)])


def perf_terms(case, obs, limit=None):
    """per performed note: (ppq, mpq, (pitch, velocity, onset s, offset s, stored ticks) as given to save_match,
    (pitch, velocity, onset tick, offset tick, onset s, offset s) as loaded) -- checked against Model leg"""
    out = []
    lp = {n["id"]: n for n in obs["perf"]["notes"]}
    for p in case["pnotes"]:
        n = lp.get(fmt_pid(p["id"]))
        if n is None:
            continue
        ton, toff = Fraction(p["on"]), Fraction(p["off"])
        if near_tie(case, ton) or near_tie(case, toff):
            continue
        stored = ctuple([cz(p["on_tick"]), cz(p["off_tick"])]) if "on_tick" in p else None
        out.append(ctuple([cz(case["ppq"]), cz(case["mpq"]),
                           ctuple([cz(p["pitch"]), cz(p["vel"]), cq(ton), cq(toff), copt(stored, lambda x: x)]),
                           ctuple([cz(n["pitch"]), cz(n["vel"]), cz(n["on_tick"]), cz(n["off_tick"]),
                                   cq(Fraction(n["on"])), cq(Fraction(n["off"]))])]))
        if limit and len(out) >= limit:
            break
    return out


def pedal_term(case, obs, max_controls=1200):
    """(ppq, mpq, controls given to save_match (number, s, value), controls loaded) -- checked against the
    model's pedal stream (filter 64/67, ticks, stable sort by tick, first occurrence of a line, sustain ++ soft)"""
    cs = case["controls"]
    if len(cs) > max_controls:
        return None
    if any(c["number"] in (64, 67) and near_tie(case, Fraction(c["time"])) for c in cs):
        return None

    def row(c):
        return ctuple([cz(c["number"]), cq(Fraction(c["time"])), cz(c["value"])])
    return ctuple([cz(case["ppq"]), cz(case["mpq"]), clist([row(c) for c in cs]), clist([row(c) for c in obs["perf"]["controls"]])])


KIND_CODE = {"match": 0, "deletion": 1, "insertion": 2, "ornament": 3}


class Intern(dict):
    def __call__(self, s):
        if s is None:
            return None
        if s not in self:
            self[s] = len(self) + 1
        return self[s]


def cline(k, s, p):
    return ctuple([cz(KIND_CODE[k]), copt(s, cz), copt(p, cz)])


def classify(ml):
    """(kind, sid, pid, left_out_tied) of a parsed note line, None for other lines"""
    from partitura.io.matchfile_base import BaseSnoteNoteLine, BaseDeletionLine, BaseInsertionLine, BaseOrnamentLine

    if isinstance(ml, BaseSnoteNoteLine):
        return ("match", str(ml.snote.Anchor), str(ml.note.Id), False)
    if isinstance(ml, BaseDeletionLine):
        return ("deletion", str(ml.snote.Anchor), None, "leftOutTied" in ml.snote.ScoreAttributesList)
    if isinstance(ml, BaseInsertionLine):
        return ("insertion", None, str(ml.note.Id), False)
    if isinstance(ml, BaseOrnamentLine):
        return ("ornament", str(ml.Anchor), str(ml.note.Id), False)
    return None


def read_raw(path):
    """every non-empty raw line of the file, parsed on its own through the library's line parser"""
    from partitura.io import importmatch as IM
    from partitura.io.matchfile_utils import Version

    with open(path) as f:
        raw = [x for x in f.read().splitlines() if x != ""]
    version = IM.get_version(raw[0])
    methods = IM.FROM_MATCHLINE_METHODSV1 if version >= Version(1, 0, 0) else IM.FROM_MATCHLINE_METHODSV0
    out = []
    cache = {}
    for text in raw:
        if text not in cache:
            import contextlib, io
            with contextlib.redirect_stdout(io.StringIO()):
                ml = IM.parse_matchline(text, from_matchline_methods=methods, version=version)
            cache[text] = classify(ml) if ml is not None else None
        if cache[text] is not None:
            out.append((text, cache[text]))
    return out


def resolve_spec(raw):
    """The documented reading (Python mirror used by the direct oracle): first occurrence of every
    text; then deletions whose score id occurs in several score-note lines are dropped; then
    insertions whose performance id occurs in several played-note lines are dropped."""
    seen, lines = set(), []
    for text, c in raw:
        if text not in seen:
            seen.add(text)
            lines.append(c)
    from collections import Counter
    sc = Counter(c[1] for c in lines if c[0] in ("match", "deletion"))
    lines = [c for c in lines if not (c[0] == "deletion" and sc[c[1]] > 1)]
    pc = Counter(c[2] for c in lines if c[0] in ("match", "insertion", "ornament"))
    lines = [c for c in lines if not (c[0] == "insertion" and pc[c[2]] > 1)]
    return lines


def check_reader(path, label, ctx, reader_terms, align_terms, kept):
    """O4 on one file: load_matchfile vs the documented resolution (direct) + terms for the model."""
    from partitura.io.importmatch import load_matchfile, alignment_from_matchfile

    raw = read_raw(path)
    try:
        with warnings.catch_warnings():
            warnings.simplefilter("ignore")
            mf = load_matchfile(path)
            al = alignment_from_matchfile(mf)
    except Exception as e:  # reading a file with duplicated / conflicting lines must not fail
        ctx.evaluations += 1
        return ["load_matchfile raises %s: %s" % (type(e).__name__, str(e)[:200])], raw, raw
    got = [c for c in (classify(ln) for ln in mf.lines) if c is not None]
    exp = resolve_spec(raw)
    bad = []
    if [c[:3] for c in got] != [c[:3] for c in exp]:
        lost = [c[:3] for c in exp if c not in got][:3]
        extra = [c[:3] for c in got if c not in exp][:3]
        bad.append("note lines returned by load_matchfile differ from the documented resolution: lost %s, extra/duplicated %s (%d vs %d lines)"
                   % (lost, extra, len(got), len(exp)))
    matches_raw = []
    for t, c in raw:
        if c[0] in ("match", "ornament") and c[:3] not in matches_raw:
            matches_raw.append(c[:3])
    got_m = [c[:3] for c in got if c[0] in ("match", "ornament")]
    if got_m != matches_raw:
        bad.append("match/ornament lines not kept exactly once in order: %d in file, %d loaded" % (len(matches_raw), len(got_m)))
    msid = {c[1] for c in got if c[0] == "match"}
    mpid = {c[2] for c in got if c[0] in ("match", "ornament")}
    for c in got:
        if c[0] == "deletion" and c[1] in msid:
            bad.append("deletion of score note %s kept although it is matched" % c[1])
        if c[0] == "insertion" and c[2] in mpid:
            bad.append("insertion of performed note %s kept although it is matched" % c[2])
    al_t = []
    for a in al:
        al_t.append((a["label"], a.get("score_id"), a.get("performance_id")))
    exp_al = [(c[0], c[1], fmt_pid(c[2]) if c[2] is not None else None) for c in got if not c[3]]
    if al_t != exp_al:
        bad.append("alignment_from_matchfile differs from the note lines: %s ..." % [x for x in al_t if x not in exp_al][:3])
    it, ii = Intern(), Intern()
    reader_terms.append(ctuple([clist([ctuple([cz(it(t)), cline(c[0], ii(c[1]), ii(c[2]))]) for t, c in raw]),
                                clist([cline(c[0], ii(c[1]), ii(c[2])) for c in got])]))
    ia = Intern()
    align_terms.append(ctuple([clist([cline(c[0], ia(c[1]), ia(fmt_pid(c[2]) if c[2] is not None else None)) for c in got if not c[3]]),
                               clist([cline(k, ia(s), ia(p)) for k, s, p in al_t])]))
    kept.append(label)
    ctx.evaluations += 1
    return bad, raw, got


def stress_file(rng, text_lines, path):
    """duplicate lines and add conflicting deletion / insertion lines to an exported file"""
    out = []
    for ln in text_lines:
        out.append(ln)
        if ln.startswith("snote(") and ")-note(" in ln:
            sn, nt = ln.split(")-note(", 1)
            r = rng.random()
            if r < 0.15:
                out.append(sn + ")-deletion.")
            elif r < 0.3:
                out.append("insertion-note(" + nt)
            elif r < 0.36:
                out += [sn + ")-deletion.", "insertion-note(" + nt, sn + ")-deletion."]
            elif r < 0.42:
                out.append(ln)
        elif ln.startswith("snote(") and ln.endswith(")-deletion."):
            r = rng.random()
            if r < 0.2:
                out.append(ln)  # exact duplicate: one line
            elif r < 0.3 and ln.endswith("])-deletion."):
                out.append(ln[:-len("])-deletion.")] + ",dup])-deletion.")  # same id, other text: both dropped
        elif ln.startswith("insertion-note("):
            r = rng.random()
            if r < 0.2:
                out.append(ln)
        elif ln.startswith("sustain(") and rng.random() < 0.1:
            out.append(ln)
        if rng.random() < 0.03:
            out.append("")
    if rng.random() < 0.5:  # move some of the added lines to the end (conflicts far apart)
        tail = [x for i, x in enumerate(out) if i % 7 == 3 and (x.endswith("-deletion.") or x.startswith("insertion-"))]
        out = out + tail
    with open(path, "w") as f:
        f.write("\n".join(out) + "\n")


# ----------------------------------------------------------------------------
# history stream: state carried between calls
#
# A history = one or two generated cases (slots "A", "B") and a list of operations.  The interpreter keeps, for every
# slot, the LIVE objects (Part, PerformedPart, alignment list -- built once, then edited through the public API and in
# place) and a DESCRIPTION (the case dict) to which every edit is applied as well.  Every save_match on the live
# objects is judged against the current state only: (1) the written lines must be those of save_match on objects
# freshly built from the current description (a memo on an object, a result aliasing caller data, a table changed by
# an earlier call all show up here), (2) loading the file must satisfy every clause of C08 for the current
# description (`oracle`: this is what sees state shared through a module and number kinds), (3) the arguments are not
# changed by the call.  The load side (load_matchfile / performed_part_from_match / part_from_matchfile /
# alignment_from_matchfile called repeatedly, in varying order, with the returned objects and MatchFile.lines
# edited in between) is judged against a plain load_match of the text the MatchFile holds at that moment.

H_TIME_KINDS = ["float", "f64", "f32", "int", "i64"]
H_INT_KINDS = ["int", "i64", "i32"]


def _num(kind, x):
    """the number x (a Fraction / int) as a Python or numpy scalar of the given kind"""
    import numpy as np
    if kind in ("int", "i64", "i32"):
        return {"int": int, "i64": np.int64, "i32": np.int32}[kind](int(x))
    return {"float": float, "f64": np.float64, "f32": np.float32}[kind](float(x))


def _exact(kind, x):
    """the value a scalar of that kind holds for x, as an exact Fraction"""
    v = _num(kind, x)
    return Fraction(int(v)) if kind in ("int", "i64", "i32") else Fraction(float(v))


def _pieces(part, nid):
    """the Note objects of one generated note: the note and the pieces it is tied to"""
    from partitura import score
    return [o for o in part.iter_all(score.Note, include_subclasses=True)
            if str(o.id) == nid or str(o.id).startswith(nid + "_t")]


def _al_drop_note(al, nid):
    """alignment (list of dicts, edited in place) after score note nid is gone"""
    for e in list(al):
        if e.get("score_id") != nid:
            continue
        if e["label"] == "deletion":
            al.remove(e)
        else:
            e.pop("score_id", None)
            e.pop("type", None)
            e["label"] = "insertion"


def _overlaps(case, pid, pitch, on, off):
    return any(p["id"] != pid and p["pitch"] == pitch and not (off <= Fraction(p["on"]) or on >= Fraction(p["off"]))
               for p in case["pnotes"])


def edit_desc(case, op):
    """apply an edit to the description; False when it does not apply (the op is then skipped)"""
    k = op["op"]
    pn = {p["id"]: p for p in case["pnotes"]}
    sn = {n["id"]: n for n in case["notes"]}
    if k in ("pn_time", "pn_vel", "pn_replace", "pn_delete") and op["pid"] not in pn:
        return False
    if k == "pn_time":
        p = pn[op["pid"]]
        on, off = Fraction(op["on"]), Fraction(op["off"])
        if not (0 <= on < off) or _overlaps(case, p["id"], p["pitch"], on, off):
            return False
        p["on"], p["off"] = str(on), str(off)
    elif k == "pn_vel":
        pn[op["pid"]]["vel"] = op["vel"]
    elif k == "pn_replace":
        p = pn[op["pid"]]
        if _overlaps(case, p["id"], op["pitch"], Fraction(p["on"]), Fraction(p["off"])):
            return False
        p["pitch"], p["vel"] = op["pitch"], op["vel"]
        p.pop("on_tick", None)
        p.pop("off_tick", None)
    elif k == "pn_append":
        p = op["pnote"]
        if p["id"] in pn or _overlaps(case, p["id"], p["pitch"], Fraction(p["on"]), Fraction(p["off"])):
            return False
        case["pnotes"].append(dict(p))
        case["alignment"].append(dict(label="insertion", performance_id=p["id"]))
    elif k == "pn_delete":
        ent = [a for a in case["alignment"] if a.get("performance_id") == op["pid"]]
        if len(ent) != 1 or ent[0]["label"] != "insertion":
            return False
        case["alignment"].remove(ent[0])
        case["pnotes"].remove(pn[op["pid"]])
    elif k == "ctrl_set":
        if op["k"] >= len(case["controls"]):
            return False
        case["controls"][op["k"]].update(value=op["value"], time=op["time"])
    elif k == "ctrl_append":
        case["controls"].append(dict(number=op["number"], time=op["time"], value=op["value"]))
    elif k == "ctrl_del":
        if op["k"] >= len(case["controls"]):
            return False
        del case["controls"][op["k"]]
    elif k == "pp_clock":
        case["pp_clock"] = [op["ppq"], op["mpq"]]
    elif k == "al_relabel":
        ent = [a for a in case["alignment"] if a["label"] == "match" and a["score_id"] == op["sid"]]
        if not ent:
            return False
        pid = ent[0].pop("performance_id")
        ent[0]["label"] = "deletion"
        case["alignment"].append(dict(label="insertion", performance_id=pid))
    elif k == "al_move":
        if op["k"] >= len(case["alignment"]):
            return False
        case["alignment"].append(case["alignment"].pop(op["k"]))
    elif k == "note_attr":
        if op["id"] not in sn:
            return False
        n = sn[op["id"]]
        if op["field"] == "arts_append":
            if op["value"] in n["arts"]:
                return False
            n["arts"] = list(n["arts"]) + [op["value"]]
        else:
            n[op["field"]] = op["value"]
    elif k == "note_spell":
        if op["id"] not in sn:
            return False
        n = sn[op["id"]]
        mp = 12 * (op["octave"] + 1) + BASE[op["step"]] + (op["alter"] or 0)
        if any(m is not n and m["on"] == n["on"] and 12 * (m["octave"] + 1) + BASE[m["step"]] + (m["alter"] or 0) == mp for m in case["notes"]):
            return False
        n.update(step=op["step"], alter=op["alter"], octave=op["octave"])
    elif k == "note_remove":
        n = sn.get(op["id"])
        if n is None or n["tie"] or n.get("fermata"):
            return False
        rest = dict(case, notes=[m for m in case["notes"] if m is not n])
        if not rest["notes"] or not in_domain(rest):
            return False
        case["notes"] = rest["notes"]
        _al_drop_note(case["alignment"], op["id"])
    elif k == "note_add":
        n = op["note"]
        if n["id"] in sn or any(m["on"] == n["on"] and (m["step"], m["alter"] or 0, m["octave"]) == (n["step"], n["alter"] or 0, n["octave"]) for m in case["notes"]):
            return False
        b = case["bounds"]
        if not any(b[i] <= n["on"] and n["on"] + n["dur"] <= b[i + 1] for i in range(len(b) - 1)):
            return False
        case["notes"].append(dict(n))
        case["alignment"].append(dict(label="deletion", score_id=n["id"]))
    elif k == "note_dur":
        n = sn.get(op["id"])
        b = case["bounds"]
        if n is None or n["tie"] or n["grace"] or n.get("fermata") or op["dur"] <= 0:
            return False
        if not any(b[i] <= n["on"] and n["on"] + op["dur"] <= b[i + 1] for i in range(len(b) - 1)):
            return False
        n["dur"] = op["dur"]
    elif k == "key_set":
        if not (0 <= op["mi"] < len(case["bounds"]) - 1):
            return False
        ks = [x for x in case["ksigs"] if x[0] == op["mi"]]
        if any(len(x) > 3 for x in ks):
            return False
        case["ksigs"] = sorted([x for x in case["ksigs"] if x[0] != op["mi"]] + [[op["mi"], op["fifths"], op["mode"]]], key=lambda x: x[0])
    else:
        return False
    return True


def edit_live(W, op):
    """the same edit on the live objects, through the public API or in place"""
    from partitura import score
    from partitura.performance import PerformedNote
    k = op["op"]
    pp, part, al = W["ppart"], W["part"], W["alignment"]
    idx = {str(n["id"]): i for i, n in enumerate(pp.notes)}
    if k == "pn_time":
        n = pp.notes[idx[str(op["pid"])]]
        on, off = _num(op["kind"], Fraction(op["on"])), _num(op["kind"], Fraction(op["off"]))
        if float(on) <= float(n["note_off"]):
            n["note_on"] = on
            n["note_off"] = off
        else:
            n["note_off"] = off
            n["note_on"] = on
        n.pnote_dict["sound_off"] = off
    elif k == "pn_vel":
        pp.notes[idx[str(op["pid"])]]["velocity"] = _num(op["kind"], op["vel"])
    elif k == "pn_replace":
        i = idx[str(op["pid"])]
        old = pp.notes[i]
        pp.notes[i] = PerformedNote(dict(id=old["id"], midi_pitch=_num(op["kind"], op["pitch"]), note_on=old["note_on"],
                                         note_off=old["note_off"], velocity=_num(op["kind"], op["vel"])))
    elif k == "pn_append":
        p = op["pnote"]
        pp.notes.append(PerformedNote(dict(id=p["id"], midi_pitch=p["pitch"], note_on=_num(op["kind"], Fraction(p["on"])),
                                           note_off=_num(op["kind"], Fraction(p["off"])), velocity=p["vel"])))
        al.append(dict(label="insertion", performance_id=p["id"]))
    elif k == "pn_delete":
        del pp.notes[idx[str(op["pid"])]]
        al.remove([a for a in al if a.get("performance_id") == op["pid"]][0])
    elif k == "ctrl_set":
        pp.controls[op["k"]]["value"] = op["value"]
        pp.controls[op["k"]]["time"] = _num(op["kind"], Fraction(op["time"]))
    elif k == "ctrl_append":
        pp.controls.append(dict(number=op["number"], time=_num(op["kind"], Fraction(op["time"])), value=op["value"]))
    elif k == "ctrl_del":
        del pp.controls[op["k"]]
    elif k == "pp_clock":
        pp.ppq, pp.mpq = op["ppq"], op["mpq"]
    elif k == "al_relabel":
        e = [a for a in al if a["label"] == "match" and a["score_id"] == op["sid"]][0]
        pid = e.pop("performance_id")
        e["label"] = "deletion"
        al.append(dict(label="insertion", performance_id=pid))
    elif k == "al_move":
        al.append(al.pop(op["k"]))
    elif k == "note_attr":
        for o in _pieces(part, op["id"]):
            if op["field"] == "arts_append":
                if isinstance(o.articulations, list):
                    o.articulations.append(op["value"])  # in place
                else:
                    o.articulations = list(o.articulations or []) + [op["value"]]
            elif op["field"] == "arts":
                o.articulations = list(op["value"]) if op["value"] else None
            elif op["field"] == "orns":
                o.ornaments = list(op["value"]) if op["value"] else None
            else:
                setattr(o, op["field"], op["value"])
    elif k == "note_spell":
        for o in _pieces(part, op["id"]):
            o.step, o.alter, o.octave = op["step"], op["alter"], op["octave"]
    elif k == "note_remove":
        for o in _pieces(part, op["id"]):
            part.remove(o)
        _al_drop_note(al, op["id"])
    elif k == "note_add":
        n = op["note"]
        part.add(score.Note(id=n["id"], step=n["step"], alter=n["alter"], octave=n["octave"], voice=n["voice"], staff=n["staff"],
                            articulations=list(n["arts"]) if n["arts"] else None), n["on"], n["on"] + n["dur"])
        al.append(dict(label="deletion", score_id=n["id"]))
    elif k == "note_dur":
        for o in _pieces(part, op["id"]):
            t = o.start.t
            part.remove(o)
            part.add(o, t, t + op["dur"])
    elif k == "key_set":
        t = W["case"]["bounds"][op["mi"]]
        for o in [x for x in part.iter_all(score.KeySignature) if x.start.t == t]:
            part.remove(o)
        part.add(score.KeySignature(op["fifths"], op["mode"]), t)


def _snap(W):
    """the VALUES the caller holds in the arguments of save_match (must be the same after the call; the kind of a
    number and the order of controls / alignment entries / attribute names are not compared)"""
    pp = W["ppart"]

    def val(v):
        try:
            return str(Fraction(float(v))) if not isinstance(v, str) else v
        except (TypeError, ValueError):
            return repr(v)
    attrs = part_attrs(W["part"])["notes"]
    return dict(alignment=sorted(json.dumps(a, sort_keys=True, default=str) for a in W["alignment"]),
                pnotes=[sorted((k, val(n.pnote_dict.get(k))) for k in ("id", "midi_pitch", "note_on", "note_off", "velocity")) for n in pp.notes],
                controls=sorted(sorted((k, val(c.get(k))) for k in ("number", "time", "value")) for c in pp.controls),
                notes=sorted((nid, repr(a[0]), repr(a[1]), sorted(a[2]), sorted(a[3]), a[4], sorted(a[5]), a[6]) for nid, a in attrs.items()))


def _fresh_text(case, ppq, mpq, path):
    """save_match on objects freshly built from the description -> sorted lines, or ("error", type name)"""
    from partitura.io.exportmatch import save_match
    with warnings.catch_warnings():
        warnings.simplefilter("ignore")
        part, ppart, al = build_objects(case)
        try:
            save_match(al, ppart, part, out=path, mpq=int(mpq), ppq=int(ppq), assume_unfolded=True)
        except Exception as e:
            return ("error", type(e).__name__)
    with open(path) as f:
        out = f.read().splitlines()
    os.remove(path)
    return out


def _norm_lines(lines):
    """the lines as a sorted list, without what C08 does not name: the channel / track fields of played notes (wrapping
    a PerformedPart in a Performance renumbers the tracks) and the order of the tokens of an attribute list"""
    import re

    def attrs(m):
        return "[" + ",".join(sorted(m.group(1).split(","))) + "])"
    out = []
    for ln in lines:
        ln = re.sub(r"(note\([^()]*?),\d+,\d+\)\.$", r"\1).", ln)
        if ln.startswith("snote("):
            ln = re.sub(r"\[([^\[\]]*)\]\)", attrs, ln)
        out.append(ln)
    return sorted(out)


def _diff_lines(a, b):
    from collections import Counter
    a, b = _norm_lines(a), _norm_lines(b)
    ca, cb = Counter(a), Counter(b)
    return sorted((ca - cb).elements())[:2], sorted((cb - ca).elements())[:2]


def _try(fn):
    try:
        return fn()
    except Exception as e:
        return ("error", type(e).__name__)


def _load_obs(path):
    """a fresh load_matchfile of the file and the three readers, each on its own -> observations (or ("error", type))"""
    from partitura.io import importmatch as IM
    with warnings.catch_warnings():
        warnings.simplefilter("ignore")
        try:
            mf = IM.load_matchfile(path)
        except Exception as e:
            err = ("error", type(e).__name__)
            return dict(perf=err, alignment=err, loaded=err)
        return dict(perf=_try(lambda: observe_perf(IM.performed_part_from_match(mf))),
                    alignment=_try(lambda: _al_obs(IM.alignment_from_matchfile(mf))),
                    loaded=_try(lambda: observe_part(IM.part_from_matchfile(mf))))


def _al_obs(al):
    return [dict((k, v) for k, v in sorted(a.items()) if isinstance(v, (str, int))) for a in al]


def _mf_rows(mf, it):
    """(kind, sid, pid) of the note lines of a MatchFile, interned; None if a line is outside the model"""
    rows = []
    for ln in mf.lines:
        c = classify(ln)
        if c is None:
            continue
        if c[3]:
            return None
        rows.append((c[0], it(c[1]), it(c[2])))
    return rows


def run_history(hist, workdir, name="h"):
    """-> (violations [(op index, clause, message)], coq terms dict(phist=[...], mhist=[...]), counters)"""
    import numpy as np
    from partitura import score
    from partitura.performance import Performance
    from partitura.io import importmatch as IM

    os.makedirs(workdir, exist_ok=True)
    bad, terms, counts = [], dict(phist=[], mhist=[]), {}

    def count(k):
        counts[k] = counts.get(k, 0) + 1
    slots = {}
    with warnings.catch_warnings():
        warnings.simplefilter("ignore")
        for s in ("A", "B"):
            if hist.get(s):
                c = json.loads(json.dumps(hist[s]))
                c["legs"] = []
                try:
                    part, ppart, al = build_objects(c)
                except Exception:
                    return [], terms, {"input_rejected_by_constructors": 1}
                slots[s] = dict(case=c, part=part, ppart=ppart, alignment=al, last=None, ph=None)
    scr = perf = None  # one Score / Performance container of the history: its part is REPLACED when another slot is saved

    def ph_start(W):
        W["ph"] = dict(init=[dict(p) for p in W["case"]["pnotes"]], clock=list(W["case"].get("pclock") or (W["case"]["ppq"], W["case"]["mpq"])),
                       ops=[], obs=[], ok=True)

    def ph_close(W):
        ph = W["ph"]
        if ph and ph["ok"] and ph["obs"]:
            def cp(p):
                st = ctuple([cz(p["on_tick"]), cz(p["off_tick"])]) if "on_tick" in p else None
                return "(mkP %s %s %s %s %s)" % (cz(p["pitch"]), cz(p["vel"]), cq(Fraction(p["on"])), cq(Fraction(p["off"])), copt(st, lambda x: x))
            ops = []
            for o in ph["ops"]:
                if o[0] == "HSetTimes":
                    ops.append("(HSetTimes %d%%nat %s %s)" % (o[1], cq(o[2]), cq(o[3])))
                elif o[0] == "HSetVel":
                    ops.append("(HSetVel %d%%nat %s)" % (o[1], cz(o[2])))
                elif o[0] == "HReplace":
                    ops.append("(HReplace %d%%nat %s)" % (o[1], cp(o[2])))
                elif o[0] == "HAppend":
                    ops.append("(HAppend %s)" % cp(o[1]))
                elif o[0] == "HDelete":
                    ops.append("(HDelete %d%%nat)" % o[1])
                else:
                    ops.append("(%s %s %s)" % (o[0], cz(o[1]), cz(o[2])))
            obs = clist([clist([ctuple([cz(a), cz(b), cz(c), cz(d)]) for a, b, c, d in ob]) for ob in ph["obs"]])
            terms["phist"].append(ctuple([clist([cp(p) for p in ph["init"]]), ctuple([cz(ph["clock"][0]), cz(ph["clock"][1])]), clist(ops), obs]))
        W["ph"] = None

    for W in slots.values():
        ph_start(W)
    for oi, op in enumerate(hist["ops"]):
        k = op["op"]
        W = slots.get(op.get("slot", "A"))
        if W is None:
            continue
        if k == "save":
            ppq, mpq = op["clock"]
            c_now = dict(W["case"], ppq=ppq, mpq=mpq)
            with warnings.catch_warnings():
                warnings.simplefilter("ignore")
                sarg = W["part"]
                if op.get("skind") == "score":
                    if scr is None:
                        scr = score.Score(partlist=[W["part"]], id="S")
                    elif scr[0] is not W["part"]:
                        scr[0] = W["part"]
                        count("h:part_replaced_in_score")
                    sarg = scr
                elif op.get("skind") == "list":
                    sarg = [W["part"]]
                parg = W["ppart"]
                if op.get("pkind") == "performance":
                    if perf is None:
                        perf = Performance(id="X", performedparts=[W["ppart"]])
                    elif perf[0] is not W["ppart"]:
                        perf[0] = W["ppart"]
                        count("h:part_replaced_in_performance")
                    parg = perf
                elif op.get("pkind") == "list":
                    parg = [W["ppart"]]
                pre = _snap(W)
                obs = dict(status="ok", use_defaults=bool(op.get("defaults")), orig=observe_part(W["part"]), src=export_src_case(W["case"]),
                           src_attrs=part_attrs(W["part"]))
                path = os.path.join(workdir, "%s_%s.match" % (name, op.get("slot", "A")))  # the same path over the history
                obs = run_leg(obs, W["alignment"], parg, sarg, _num(op.get("ckind", "int"), ppq), _num(op.get("ckind", "int"), mpq), path)
                post = _snap(W)
            count("h:save")
            count("h:save_%s_%s_%s" % (op.get("skind", "part"), op.get("pkind", "ppart"), op.get("ckind", "int")))
            for key in pre:
                if pre[key] != post[key]:
                    bad.append((oi, "args_changed", "save_match changed its argument (%s): before %s, after %s" % (key, str(pre[key])[:200], str(post[key])[:200])))
            fresh = _fresh_text(W["case"], ppq, mpq, os.path.join(workdir, name + "_fresh.match"))
            if obs["status"] == "save_error":
                if not (isinstance(fresh, tuple) and fresh[1] == obs["error"].split(":")[0]):
                    bad.append((oi, "history_save", "save_match on the edited objects raises %s; on objects freshly built from the current state: %s"
                                % (obs["error"][:160], fresh if isinstance(fresh, tuple) else "%d lines" % len(fresh))))
                W["last"] = None
                if W["ph"]:
                    W["ph"]["ok"] = False
                continue
            if obs["status"] != "ok":
                bad.append((oi, obs["status"], obs.get("error", "")[:300]))
                W["last"] = None
                continue
            if isinstance(fresh, tuple):
                bad.append((oi, "history_save", "save_match works on the edited objects but raises %s on objects freshly built from the current state" % fresh[1]))
            elif _norm_lines(fresh) != _norm_lines(obs["text_lines"]):
                a, b = _diff_lines(obs["text_lines"], fresh)
                bad.append((oi, "history_save", "lines written for the edited objects differ from those for freshly built objects of the same state: only live %s, only fresh %s" % (a, b)))
            bad += [(oi, cl, msg) for cl, msg in oracle(c_now, obs)]
            W["last"] = dict(text=obs["text_lines"], obs=obs, case=c_now, al_obs=_al_obs(obs["_live"][1]))
            ph = W["ph"]
            if ph is not None:
                by = {ln["pid"]: ln for ln in obs["file"]["lines"] if "pid" in ln}
                row = [by.get(fmt_pid(p["id"])) for p in W["case"]["pnotes"]]
                if any(near_tie(c_now, Fraction(p[x])) for p in W["case"]["pnotes"] for x in ("on", "off")):
                    ph["ok"] = False
                ph["ops"].append(("HSave", ppq, mpq))
                ph["obs"].append([(r["pitch"], r["vel"], r["on"], r["off_t"]) for r in row if r is not None])
            continue
        if k == "save_ret":  # out=None: the MatchFile is returned; it is then written into
            from partitura.io.exportmatch import save_match
            ppq, mpq = op["clock"]
            with warnings.catch_warnings():
                warnings.simplefilter("ignore")
                try:
                    mf = save_match(W["alignment"], W["ppart"], W["part"], ppq=ppq, mpq=mpq, assume_unfolded=True)
                    got = [ln.matchline for ln in mf.lines]
                except Exception as e:
                    got = ("error", type(e).__name__)
            fresh = _fresh_text(W["case"], ppq, mpq, os.path.join(workdir, name + "_fresh.match"))
            count("h:save_returned")
            if isinstance(got, tuple) or isinstance(fresh, tuple):
                if got != fresh:
                    bad.append((oi, "history_save", "save_match(out=None) on the edited objects: %s; on freshly built objects: %s" % (str(got)[:100], str(fresh)[:100])))
                continue
            if _norm_lines(got) != _norm_lines(fresh):
                a, b = _diff_lines(got, fresh)
                bad.append((oi, "history_save", "lines of the returned MatchFile differ from those for freshly built objects of the same state: only live %s, only fresh %s" % (a, b)))
            for ln in mf.lines:  # scribble on what was returned
                if hasattr(ln, "snote"):
                    ln.snote.ScoreAttributesList.append("scribble")
                    ln.snote.Duration = ln.snote.Offset
                if hasattr(ln, "note"):
                    ln.note.Velocity = 1
                    ln.note.Onset = 0
            mf.lines = mf.lines[:3]
            continue
        if k == "adopt":  # go on with the performance and alignment that were loaded after the last save
            L = W["last"]
            if not L or "_live" not in L["obs"]:
                continue
            ph_close(W)
            p2, al2, _ = L["obs"]["_live"]
            W["case"] = derive_case(W["case"], L["obs"], L["case"]["ppq"], L["case"]["mpq"], "orig")
            W["case"]["alignment"] = json.loads(json.dumps([dict((k, v) for k, v in a.items()) for a in al2], default=str))
            W["ppart"], W["alignment"] = p2[0], al2
            ph_start(W)
            count("h:adopt_loaded_performance")
            continue
        if k == "load":
            L = W["last"]
            if not L:
                continue
            text = list(L["text"])
            path = os.path.join(workdir, "%s_%s_in.match" % (name, op.get("slot", "A")))
            with open(path, "w") as f:
                f.write("\n".join(text) + "\n")
            if op.get("stress") is not None:
                import random
                stress_file(random.Random(op["stress"]), text, path)
            it = Intern()
            seq_obs, mops, mobs, model_ok = [], [], [], True
            ref_path = os.path.join(workdir, name + "_ref.match")

            def reference(mf):
                """plain load_match of the text the MatchFile holds now"""
                with warnings.catch_warnings():
                    warnings.simplefilter("ignore")
                    mf.write(ref_path)
                return _load_obs(ref_path)
            with warnings.catch_warnings():
                warnings.simplefilter("ignore")
                try:
                    mf = IM.load_matchfile(path)
                except Exception as e:
                    bad.append((oi, "load_error", "load_matchfile raises %s: %s" % (type(e).__name__, str(e)[:200])))
                    continue
                rows0 = _mf_rows(mf, it)
                ref = reference(mf)
                if op.get("stress") is None:
                    for key in ("perf", "alignment", "loaded"):
                        if ref[key] != (L["al_obs"] if key == "alignment" else L["obs"][key]):
                            bad.append((oi, "history_load", "loading the same text again gives another %s than the first load" % key))
                for step in op["seq"]:
                    count("h:load_" + step.split(":")[0])
                    try:
                        if step == "perf":
                            got = _try(lambda: observe_perf(IM.performed_part_from_match(mf)))
                            if got != ref["perf"]:
                                d = "%s / %s" % (str(got)[:60], str(ref["perf"])[:60])
                                if isinstance(got, dict) and isinstance(ref["perf"], dict):
                                    d = "%d vs %d notes, %d vs %d controls, first difference %s" % (
                                        len(got["notes"]), len(ref["perf"]["notes"]), len(got["controls"]), len(ref["perf"]["controls"]),
                                        [(a, b) for a, b in zip(got["notes"] + got["controls"], ref["perf"]["notes"] + ref["perf"]["controls"]) if a != b][:1])
                                bad.append((oi, "history_load", "performed_part_from_match(mf) differs from a fresh load of the lines the MatchFile holds now (%s)" % d))
                            mops.append("MNotes")
                            mobs.append((1, [("insertion", None, it(str(n.Id))) for n in mf.notes]))
                        elif step == "perf_zero":
                            _try(lambda: IM.performed_part_from_match(mf, first_note_at_zero=True))
                        elif step == "perf_scribble":
                            def scribble():
                                pp = IM.performed_part_from_match(mf)
                                for n in pp.notes:
                                    n["note_off"] = n["note_off"] + 5.0
                                    n.pnote_dict["sound_off"] = n["note_off"]
                                    n["note_on"] = n["note_on"] + 5.0
                                    n["velocity"] = 1
                                for c in pp.controls:
                                    c["value"], c["time"] = 99, 0.0
                                del pp.notes[::2]
                                pp.controls.append(dict(number=64, time=0.0, value=99))
                            _try(scribble)
                        elif step == "align":
                            al = IM.alignment_from_matchfile(mf)
                            got = _al_obs(al)
                            if got != ref["alignment"]:
                                bad.append((oi, "history_load", "alignment_from_matchfile(mf) differs from a fresh load of the lines the MatchFile holds now: %s ..."
                                            % [x for x in got if x not in ref["alignment"]][:2]))
                            mops.append("MAlign")
                            mobs.append((0, [(a["label"], it(a.get("score_id")), it(a.get("performance_id"))) for a in al]))
                            if op.get("scribble_alignment"):
                                for a in al:
                                    a["label"] = "insertion"
                                    a["performance_id"] = "zz"
                                del al[::2]
                        elif step == "part":
                            got = _try(lambda: observe_part(IM.part_from_matchfile(mf)))
                            if got != ref["loaded"]:
                                what = [key for key in got if got[key] != ref["loaded"][key]] if isinstance(got, dict) and isinstance(ref["loaded"], dict) else [str(got)[:60], str(ref["loaded"])[:60]]
                                bad.append((oi, "history_load", "part_from_matchfile(mf) differs from a fresh load of the lines the MatchFile holds now (differing: %s)" % what))
                        elif step == "part_scribble":
                            def scribble():
                                p = IM.part_from_matchfile(mf)
                                for n in p.notes:
                                    n.voice, n.staff, n.step = 9, 9, "C"
                                    if n.articulations is not None:
                                        n.articulations.add("accent") if isinstance(n.articulations, set) else n.articulations.append("accent")
                                for n in list(p.notes)[::2]:
                                    p.remove(n)
                            _try(scribble)
                        elif step == "validate":
                            IM.validate_match_ids(mf)
                            mops.append("MValidate")
                            ref = reference(mf)
                        elif step.startswith("drop:"):
                            note_idx = [i for i, ln in enumerate(mf.lines) if classify(ln) is not None]
                            if not note_idx:
                                continue
                            j = int(step[5:]) % len(note_idx)
                            mf.lines = np.delete(mf.lines, note_idx[j])
                            mops.append("(MDrop %d%%nat)" % j)
                            ref = reference(mf)
                        elif step.startswith("droppedal:"):
                            ped_idx = [i for i, ln in enumerate(mf.lines) if hasattr(ln, "Time") and hasattr(ln, "Value") and not hasattr(ln, "Attribute")]
                            if not ped_idx:
                                continue
                            mf.lines = np.delete(mf.lines, ped_idx[int(step[10:]) % len(ped_idx)])
                            ref = reference(mf)
                        elif step.startswith("vel:"):
                            ns = mf.notes
                            if not ns:
                                continue
                            n = ns[int(step[4:]) % len(ns)]
                            n.Velocity = 1 + (int(n.Velocity) + 17) % 120
                            ref = reference(mf)
                    except Exception as e:
                        bad.append((oi, "history_load", "%s on a loaded MatchFile raises %s: %s" % (step, type(e).__name__, str(e)[:200])))
                        model_ok = False
                        break
            if rows0 is not None and model_ok and mobs:
                def crow(r):
                    return cline(r[0], r[1], r[2])
                terms["mhist"].append(ctuple([clist([crow(r) for r in rows0]), clist(mops),
                                              clist([ctuple([cz(t), clist([crow(r) for r in rows])]) for t, rows in mobs])]))
            continue
        # an edit: description first (decides whether it applies), then the live objects
        trial = json.loads(json.dumps(W["case"]))
        if not edit_desc(trial, op):
            count("h:edit_skipped")
            continue
        pidx = {p["id"]: i for i, p in enumerate(W["case"]["pnotes"])}
        try:
            with warnings.catch_warnings():
                warnings.simplefilter("ignore")
                edit_live(W, op)
        except Exception as e:
            bad.append((oi, "history_edit", "editing the objects (%s) raises %s: %s" % (k, type(e).__name__, str(e)[:200])))
            break
        W["case"] = trial
        count("h:edit_" + k)
        ph = W["ph"]
        if ph is not None:
            if k == "pn_time":
                ph["ops"].append(("HSetTimes", pidx[op["pid"]], Fraction(op["on"]), Fraction(op["off"])))
            elif k == "pn_vel":
                ph["ops"].append(("HSetVel", pidx[op["pid"]], op["vel"]))
            elif k == "pn_replace":
                ph["ops"].append(("HReplace", pidx[op["pid"]], dict(trial["pnotes"][pidx[op["pid"]]])))
            elif k == "pn_append":
                ph["ops"].append(("HAppend", dict(op["pnote"])))
            elif k == "pn_delete":
                ph["ops"].append(("HDelete", pidx[op["pid"]]))
            elif k == "pp_clock":
                ph["ops"].append(("HSetClock", op["ppq"], op["mpq"]))
    for W in slots.values():
        ph_close(W)
    for fn in os.listdir(workdir):
        if fn.startswith(name + "_"):
            try:
                os.remove(os.path.join(workdir, fn))
            except OSError:
                pass
    return bad, terms, counts


def gen_history(rng):
    """a generated history: cases A (and B in 45 %), 8-16 operations; every edit is tried on a copy of the description so
    that its parameters fit the state it meets"""
    def small():
        for _ in range(20):
            c = gen_case(rng, 0.5)
            grace = {n["id"] for n in c["notes"] if n["grace"]}
            if len(c["notes"]) <= 14 and len([a for a in c["alignment"] if a["label"] == "match" and a["score_id"] not in grace]) >= 2:
                break
        c["legs"] = []
        return c
    hist = dict(kind="history", A=small(), B=small() if rng.random() < 0.45 else None, ops=[])
    desc = {s: json.loads(json.dumps(hist[s])) for s in ("A", "B") if hist[s]}
    fresh_id = [0]

    def grid_time(case, kind):
        if kind in ("int", "i64"):
            return Fraction(rng.randint(0, 12))
        if kind == "f32" and rng.random() < 0.8:
            # single precision: a time a little off a half tick of a clock that is likely to be asked next (the double
            # product decides it safely, a single precision product does not)
            pq, mq = case.get("_hint_clock") or rng.choice(CLOCKS[:4] + PAIRS[:3])  # one clock for all such edits up to the next save
            case["_hint_clock"] = [pq, mq]
            x = (rng.randint(20000, 120000) + Fraction(1, 2) + rng.choice([-1, 1]) * Fraction(rng.randint(5, 40), 10000)) * Fraction(mq, 10 ** 6 * pq)
            return _exact(kind, x)
        pq, mq = case.get("pclock") or (case["ppq"], case["mpq"])
        tick = Fraction(mq, 10 ** 6 * pq)
        r = rng.random()
        x = (rng.randint(0, 6000) + (Fraction(1, 2) if r < 0.1 else 0)) * tick if r < 0.6 else Fraction(rng.randint(0, 12000), 1000)
        return _exact(kind, x)

    def draw_edit(slot):
        c = desc[slot]
        r = rng.random()
        kind = rng.choice(H_TIME_KINDS + ["f32", "f32"])
        if r < 0.26 and c["pnotes"]:
            p = rng.choice(c["pnotes"])
            on = grid_time(c, kind)
            ln = _exact(kind, max(Fraction(1), Fraction(rng.randint(20, 900), 1000))) if kind in ("int", "i64") else Fraction(rng.randint(20, 900), 1000)
            off = _exact(kind, on + ln)
            return dict(op="pn_time", slot=slot, pid=p["id"], on=str(on), off=str(off), kind=kind)
        if r < 0.32 and c["pnotes"]:
            return dict(op="pn_vel", slot=slot, pid=rng.choice(c["pnotes"])["id"], vel=rng.randint(1, 127), kind=rng.choice(H_INT_KINDS[:2]))
        if r < 0.38 and c["pnotes"]:
            return dict(op="pn_replace", slot=slot, pid=rng.choice(c["pnotes"])["id"], pitch=rng.randint(21, 108), vel=rng.randint(1, 127), kind=rng.choice(H_INT_KINDS[:2]))
        if r < 0.43:
            fresh_id[0] += 1
            on = grid_time(c, kind)
            off = _exact(kind, on + (1 if kind in ("int", "i64") else Fraction(rng.randint(30, 500), 1000)))
            return dict(op="pn_append", slot=slot, kind=kind, pnote=dict(id="n%d" % (900 + fresh_id[0]), pitch=rng.randint(21, 108), on=str(on), off=str(off), vel=rng.randint(1, 127)))
        if r < 0.46:
            ins = [a["performance_id"] for a in c["alignment"] if a["label"] == "insertion"]
            if ins:
                return dict(op="pn_delete", slot=slot, pid=rng.choice(ins))
        if r < 0.52 and c["controls"]:
            return dict(op="ctrl_set", slot=slot, k=rng.randrange(len(c["controls"])), value=rng.choice([0, 127, 64, 63, 30]), time=str(grid_time(c, kind)), kind=kind)
        if r < 0.57:
            return dict(op="ctrl_append", slot=slot, number=rng.choice([64, 67, 64, 7]), value=rng.choice([0, 127, 64, 63]), time=str(grid_time(c, kind)), kind=kind)
        if r < 0.59 and c["controls"]:
            return dict(op="ctrl_del", slot=slot, k=rng.randrange(len(c["controls"])))
        if r < 0.63:
            pq, mq = pick_clock(rng)
            return dict(op="pp_clock", slot=slot, ppq=pq, mpq=mq)
        if r < 0.67:
            grace = {n["id"] for n in c["notes"] if n["grace"]}
            m = [a["score_id"] for a in c["alignment"] if a["label"] == "match" and a["score_id"] not in grace]
            if len(m) >= 3:
                return dict(op="al_relabel", slot=slot, sid=rng.choice(m))
        if r < 0.70 and c["alignment"]:
            return dict(op="al_move", slot=slot, k=rng.randrange(len(c["alignment"])))
        n = rng.choice(c["notes"])
        if r < 0.80:
            f = rng.choice(["voice", "staff", "arts", "arts_append", "orns"])
            v = (rng.randint(1, 12) if f == "voice" else rng.randint(1, 11) if f == "staff" else rng.choice(ART_VOCAB) if f == "arts_append"
                 else rng.sample(ART_VOCAB, rng.randint(0, 2)) if f == "arts" else rng.sample(ORN_VOCAB, rng.randint(0, 1)))
            return dict(op="note_attr", slot=slot, id=n["id"], field=f, value=v)
        if r < 0.85:
            return dict(op="note_spell", slot=slot, id=n["id"], step=rng.choice(STEPS), alter=rng.choice([0, 0, 1, -1, None]), octave=rng.randint(1, 7))
        if r < 0.89:
            return dict(op="note_remove", slot=slot, id=n["id"])
        if r < 0.94:
            fresh_id[0] += 1
            b = c["bounds"]
            mi = rng.randrange(len(b) - 1)
            g = c["grid"]
            slots_ = (b[mi + 1] - b[mi]) // g
            k0 = rng.randrange(slots_)
            d = g * rng.randint(1, slots_ - k0)
            return dict(op="note_add", slot=slot, note=dict(id="x%d" % fresh_id[0], step=rng.choice(STEPS), alter=rng.choice([0, 1, -1]), octave=rng.randint(1, 7),
                                                            on=b[mi] + k0 * g, dur=d, voice=rng.randint(1, 4), staff=rng.randint(1, 2), grace=False,
                                                            arts=rng.sample(ART_VOCAB, rng.randint(0, 1)), orns=[], fermata=False, fingering=None, tie=[]))
        if r < 0.97:
            return dict(op="note_dur", slot=slot, id=n["id"], dur=c["grid"] * rng.randint(1, 6))
        return dict(op="key_set", slot=slot, mi=rng.randrange(len(c["bounds"]) - 1), fifths=rng.randint(-7, 7), mode=rng.choice(["major", "minor"]))

    def draw_save(slot):
        r = rng.random()
        clock = list(desc[slot].get("pclock") or pick_clock(rng)) if r < 0.3 else list(pick_clock(rng))
        if desc[slot].get("_hint_clock") and rng.random() < 0.85:
            clock = list(desc[slot].pop("_hint_clock"))
        if hist["ops"] and r > 0.7:
            prev = [o for o in hist["ops"] if o["op"] == "save" and o["slot"] == slot]
            if prev:
                clock = list(prev[-1]["clock"])  # the clock of the last save again
        return dict(op="save", slot=slot, clock=clock, skind=rng.choice(["part", "score", "score", "list"]),
                    pkind=rng.choice(["ppart", "performance", "performance", "list"]), ckind=rng.choice(["int", "int", "i64", "i32"]))

    def draw_load(slot):
        seq = []
        for _ in range(rng.randint(3, 7)):
            seq.append(rng.choice(["perf", "perf", "align", "align", "part", "part", "perf_zero", "perf_scribble", "part_scribble", "validate",
                                   "drop:%d" % rng.randrange(50), "drop:%d" % rng.randrange(50), "droppedal:%d" % rng.randrange(20), "vel:%d" % rng.randrange(50)]))
        seq += rng.sample(["perf", "align", "part"], 3)
        return dict(op="load", slot=slot, seq=seq, stress=rng.randrange(10 ** 6) if rng.random() < 0.3 else None, scribble_alignment=rng.random() < 0.5)

    slots_ = sorted(desc)
    for s in slots_:
        hist["ops"].append(draw_save(s))
    for _ in range(rng.randint(3, 5)):
        s = rng.choice(slots_)
        for _ in range(rng.randint(1, 3)):
            for _try in range(6):
                e = draw_edit(s)
                if e and edit_desc(desc[s], e):
                    hist["ops"].append(e)
                    break
        r = rng.random()
        if r < 0.12:
            hist["ops"].append(dict(op="save_ret", slot=s, clock=list(pick_clock(rng))))
        hist["ops"].append(draw_save(s))
        if len(slots_) > 1 and rng.random() < 0.5:
            hist["ops"].append(draw_save([x for x in slots_ if x != s][0]))  # the other input in between
        r = rng.random()
        if r < 0.3:
            hist["ops"].append(draw_load(s))
        elif r < 0.45:
            hist["ops"].append(dict(op="adopt", slot=s))
            last = [o for o in hist["ops"] if o["op"] == "save" and o["slot"] == s][-1]
            desc[s]["pclock"] = list(last["clock"])
    hist["ops"].append(draw_load(rng.choice(slots_)))
    return hist


def history_guarded(hist, workdir, name="h", seconds=90):
    import signal

    def h(*a):
        raise _Timeout()
    old = signal.signal(signal.SIGVTALRM, h)
    signal.setitimer(signal.ITIMER_VIRTUAL, seconds)
    try:
        return run_history(hist, workdir, name)
    except _Timeout:
        return [(0, "load_error", "no result after %d s of CPU time" % seconds)], dict(phist=[], mhist=[]), {}
    finally:
        signal.setitimer(signal.ITIMER_VIRTUAL, 0)
        signal.signal(signal.SIGVTALRM, old)


def shrink_history(hist, clause, workdir):
    """the shortest list of operations (ddmin) that still violates the same clause; then drop slot B if unused"""
    def fails(ops):
        try:
            b, _, _ = history_guarded(dict(hist, ops=ops), workdir, "hs", 30)
        except Exception:
            return False
        return any(x[1] == clause for x in b)
    try:
        ops = core.ddmin(hist["ops"], fails)
    except Exception:
        ops = hist["ops"]
    out = dict(hist, ops=ops)
    if hist.get("B") and not any(o.get("slot") == "B" for o in ops):
        out["B"] = None
    elif hist.get("B") and not any(o.get("slot", "A") == "A" for o in ops):
        out = dict(out, A=hist["B"], B=None, ops=[dict(o, slot="A") for o in ops])
        if not fails(out["ops"]) and True:
            out = dict(hist, ops=ops)
    return out


# hand-written histories, run first on every run: one per way of carrying state that a past change used
def _hist_corpus():
    base = _corpus_case(4, [0, 16, 32], [[0, 4, 4]], [[0, 0, "major"]], [
        _q(0, 0, arts=["staccato"]), _q(1, 4), _q(2, 8, v=2), _q(3, 16, 8), _q(4, 24, sf=2)], insertions=1)
    base["pclock"] = [480, 500000]
    for p in base["pnotes"]:
        p["on_tick"], p["off_tick"] = int(Fraction(p["on"]) * 960), int(Fraction(p["off"]) * 960)
    other = _corpus_case(6, [0, 18, 36], [[0, 3, 4]], [[0, 2, "minor"]], [_q(0, 0, 6), _q(1, 6, 6), _q(2, 12, 6), _q(3, 18, 18)], clock=(1000, 600000))
    S = lambda slot="A", clock=(480, 500000), **kw: dict(dict(op="save", slot=slot, clock=list(clock), skind="part", pkind="ppart", ckind="int"), **kw)
    return [
        ("move_note_between_saves_same_clock", dict(kind="history", A=base, B=None, ops=[
            S(), dict(op="pn_time", slot="A", pid="n1", on="5/8", off="7/8", kind="float"), S(),
            # a single precision time 0.0014 tick below a half tick of the clock asked next (20009.4986 ticks): a product in single precision rounds up
            dict(op="pn_time", slot="A", pid="n2", on="1573611/131072", off="13", kind="f32"), S(clock=(1000, 600000), ckind="i64"),
            dict(op="pp_clock", slot="A", ppq=1000, mpq=600000), S(clock=(1000, 600000))])),
        ("edit_score_between_saves", dict(kind="history", A=base, B=None, ops=[
            S(skind="score"), dict(op="note_attr", slot="A", id="s1", field="arts_append", value="accent"),
            dict(op="note_attr", slot="A", id="s0", field="arts_append", value="tenuto"), S(skind="score"),
            dict(op="note_dur", slot="A", id="s2", dur=6), dict(op="note_attr", slot="A", id="s2", field="voice", value=11),
            dict(op="key_set", slot="A", mi=1, fifths=-3, mode="minor"), S(skind="score"),
            dict(op="note_remove", slot="A", id="s1"), dict(op="al_relabel", slot="A", sid="s2"), S(skind="list", pkind="list")])),
        ("two_inputs_both_orders_one_score_container", dict(kind="history", A=base, B=other, ops=[
            S("A", skind="score", pkind="performance"), S("B", (1000, 600000), skind="score", pkind="performance"),
            S("A", skind="score", pkind="performance"), S("B", (1000, 600000), skind="score", pkind="performance"), S("B", skind="part"), S("A", (1000, 600000), skind="part"),
            dict(op="load", slot="A", seq=["perf", "part", "align", "perf"], stress=None, scribble_alignment=True),
            dict(op="load", slot="B", seq=["part", "perf", "align"], stress=None, scribble_alignment=False)])),
        ("matchfile_edited_between_calls", dict(kind="history", A=base, B=None, ops=[
            S(), dict(op="load", slot="A", seq=["part", "perf", "align", "perf_scribble", "part_scribble", "perf", "align", "part", "drop:5", "align", "perf",
                                                "vel:0", "perf", "droppedal:1", "perf", "perf_zero", "perf", "validate", "align", "drop:0", "part", "align"],
                      stress=None, scribble_alignment=True),
            dict(op="save_ret", slot="A", clock=[480, 500000]), S(),
            dict(op="adopt", slot="A"), dict(op="pn_time", slot="A", pid="n0", on="1/8", off="3/8", kind="f64"), S()])),
    ]


# ----------------------------------------------------------------------------
# run


def k1_matcher(replay_obj):
    """C08-K1: the alignment has no match of a note with a duration -> exporter cannot build its time map"""
    if not isinstance(replay_obj, dict) or replay_obj.get("status") != "save_error":
        return False
    case = replay_obj.get("case") or {}
    grace = {n["id"] for n in case.get("notes", []) if n.get("grace")}
    onsets = {n["id"]: n["on"] for n in case.get("notes", [])}
    m = [a for a in case.get("alignment", []) if a["label"] == "match" and a["score_id"] not in grace]
    return len(m) == 0


def big_fraction_notes(case):
    """ids of score notes whose duration in whole notes, reduced, has a numerator or denominator above 1024"""
    out = set()
    for n in case.get("notes", []):
        f = Fraction(n["dur"], 4 * case["divs"])
        if f.numerator > 1024 or f.denominator > 1024:
            out.add(n["id"])
    return out


def k2_matcher(replay_obj):
    """C08-K2: every reported message is the duration of a note whose whole-note fraction exceeds the codec's bound"""
    import re
    if not isinstance(replay_obj, dict) or replay_obj.get("clause") != "score_duration_beat" or replay_obj.get("status") != "ok":
        return False
    big = big_fraction_notes(replay_obj.get("case") or {})
    msgs = replay_obj.get("all") or [replay_obj.get("message", "")]
    ids = [re.search(r"note (\S+) duration_beat = ", m) for m in msgs]
    return bool(big) and bool(msgs) and all(m is not None and m.group(1) in big for m in ids)


# one note of 11030/1920 = 1103/192 whole notes (tied over three barlines) in 4/4, divisions 480
K2_CASE = dict(
    divs=480, grid=10, tsigs=[[0, 4, 4]], ksigs=[[0, 0, "major"]], bounds=[0, 1920, 3840, 5760, 7680, 9600, 11520, 13440], pickup=0,
    notes=[dict(id="n0", step="C", alter=0, octave=4, on=0, dur=11030, voice=1, staff=1, grace=False, arts=[], tie=[1920, 3840, 5760, 7680, 9600])]
    + [dict(id="n%d" % k, step="E", alter=0, octave=5, on=1920 * k, dur=480, voice=2, staff=1, grace=False, arts=[], tie=[]) for k in range(1, 7)],
    pnotes=[dict(id="n%d" % k, pitch=60 + k, on=str(Fraction(k, 2)), off=str(Fraction(k, 2) + Fraction(1, 4)), vel=64) for k in range(7)],
    alignment=[dict(label="match", score_id="n%d" % k, performance_id="n%d" % k) for k in range(7)],
    controls=[], ppq=480, mpq=500000, pclock=None, legs=[])


def _corpus_case(divs, bounds, tsigs, ksigs, notes, pickup=0, labels=None, insertions=0, ornaments=(), legs=(), clock=(480, 500000)):
    """a hand-written history: notes = (id, step, alter, octave, onset, duration, voice, staff, extras)"""
    ns, pn, al = [], [], []
    for k, (nid, st, alt, oc, on, dur, v, sf, ex) in enumerate(notes):
        ns.append(dict(dict(id=nid, step=st, alter=alt, octave=oc, on=on, dur=dur, voice=v, staff=sf, grace=dur == 0, arts=[],
                            orns=[], fermata=False, fingering=None, tie=[b for b in bounds if on < b < on + dur]), **ex))
        lab = (labels or {}).get(nid, "match")
        if lab == "match":
            t = Fraction(on, divs) / 2
            pn.append(dict(id="n%d" % k, pitch=36 + 2 * k, on=str(t), off=str(t + Fraction(1, 4)), vel=40 + k))
            al.append(dict(label="match", score_id=nid, performance_id="n%d" % k))
        else:
            al.append(dict(label="deletion", score_id=nid))
    for j in range(insertions):
        t = Fraction(1 + 2 * j, 8)
        pn.append(dict(id="n%d" % (100 + j), pitch=90 + j, on=str(t), off=str(t + Fraction(1, 8)), vel=70))
        al.append(dict(label="insertion", performance_id="n%d" % (100 + j)))
    for j, nid in enumerate(ornaments):
        t = Fraction(3 + 2 * j, 16)
        pn.append(dict(id="n%d" % (200 + j), pitch=100 + j, on=str(t), off=str(t + Fraction(1, 16)), vel=50))
        al.append(dict(label="ornament", score_id=nid, performance_id="n%d" % (200 + j), type="trill"))
    ctrl = [dict(number=64, time="1/4", value=127), dict(number=67, time="1/2", value=0), dict(number=64, time="3/4", value=0)]
    return dict(divs=divs, grid=1, tsigs=tsigs, ksigs=ksigs, bounds=bounds, pickup=pickup, notes=ns, pnotes=pn, alignment=al,
                controls=ctrl, ppq=clock[0], mpq=clock[1], pclock=None, legs=[list(l) for l in legs])


def _q(i, on, dur=4, v=1, sf=1, **ex):
    return ("s%d" % i, "CDEFGAB"[i % 7], 0, 4, on, dur, v, sf, ex)


# hand-written histories run before the generated ones on every run (each is a class of input a past change needed)
CORPUS = [
    # look-alikes of the supported articulations, ornaments starting with v / s, fermata, fingering
    ("articulation_lookalikes", _corpus_case(4, [0, 16, 32], [[0, 4, 4]], [[0, 0, "major"]], [
        _q(0, 0, arts=["staccato"]), _q(1, 4, arts=["staccatissimo"]), _q(2, 8, arts=["accent", "soft-accent"]),
        _q(3, 12, arts=["strong-accent", "detached-legato"]), _q(4, 16, arts=["stress", "spiccato"], orns=["vertical-turn", "shake"]),
        _q(5, 20, arts=["tenuto"], orns=["schleifer"], fermata=True, fingering=3), _q(6, 24, arts=["unstress", "scoop"]), _q(7, 28)],
        legs=[(1000, 600000, "loaded")])),
    # voices and staves with two digits, a note with a staff but no voice, a note with a voice but no staff
    ("voice_staff_tokens", _corpus_case(4, [0, 16, 32], [[0, 4, 4]], [[0, -2, "minor"]], [
        _q(0, 0, v=12, sf=10), _q(1, 4, v=3, sf=12), _q(2, 8, v=None, sf=11), _q(3, 12, v=10, sf=None),
        _q(4, 16, v=None, sf=2), _q(5, 20, v=1, sf=1), _q(6, 24, v=21, sf=23), _q(7, 28, v=None, sf=None)])),
    # pickup, key signature inside a bar, key written again, time signatures A A B A
    ("signatures", _corpus_case(4, [0, 8, 24, 40, 52, 68], [[0, 4, 4], [2, 4, 4], [3, 3, 4], [4, 4, 4]],
                                [[0, 1, "major"], [2, 3, "minor", 6], [3, 3, "minor"], [4, -4, "major", 4]], [
        _q(0, 0), _q(1, 4), _q(2, 8, 8), _q(3, 18), _q(4, 24), _q(5, 30, 6), _q(6, 40, 12), _q(7, 52, 2), _q(8, 60, 8)],
        pickup=8, legs=[(96, 600000, "loaded"), (4000, 500000, "orig")])),
    # exactly one match of a note with a duration, a matched grace note, insertions, ornaments, a deleted unison
    ("single_match", _corpus_case(4, [0, 16, 32], [[0, 4, 4]], [], [
        _q(0, 0), ("s1", "D", 0, 4, 4, 0, 1, 1, {}), _q(2, 4), _q(3, 8, v=1), ("s4", "F", 0, 4, 8, 4, 2, 1, {}),
        _q(5, 16, 8), _q(6, 24, 8)],
        labels={"s0": "deletion", "s3": "deletion", "s4": "deletion", "s5": "deletion", "s6": "deletion"},
        insertions=3, ornaments=("s2", "s5"))),
]


def unprefixed_load(case, obs, workdir):
    """the written file with the older numeric performed-note ids (note(12,..) instead of note(n12,..), as in the
    fixture of format 4.0): loading it must give the same alignment and performance (ids are 'n'-prefixed on load)"""
    import re
    from partitura.io.importmatch import load_match

    lines = [re.sub(r"-note\(n(\d+),", r"-note(\1,", ln) for ln in obs["text_lines"]]
    if lines == obs["text_lines"]:
        return None
    path = os.path.join(workdir, "unprefixed.match")
    with open(path, "w") as f:
        f.write("\n".join(lines) + "\n")
    o2 = dict(status="ok")
    try:
        with warnings.catch_warnings():
            warnings.simplefilter("ignore")
            perf, al2, scr = load_match(path, create_score=True)
            o2["alignment"] = [dict((k, v) for k, v in a.items() if isinstance(v, (str, int))) for a in al2]
            o2["perf"] = observe_perf(perf[0])
    except Exception as e:
        return [("load_error", "loading the file with numeric performed-note ids raises %s: %s" % (type(e).__name__, str(e)[:200]))], lines
    return [(cl, "file with numeric performed-note ids: " + m) for cl, m in oracle(case, o2, score=False)], lines


def sub_case(case, keep_ids):
    keep = set(keep_ids)
    c = dict(case)
    c["notes"] = [n for n in case["notes"] if n["id"] in keep]
    c["alignment"] = [a for a in case["alignment"] if a.get("score_id") is None or a["score_id"] in keep]
    used = {a["performance_id"] for a in c["alignment"] if "performance_id" in a}
    c["pnotes"] = [p for p in case["pnotes"] if p["id"] in used]
    return c


class _Timeout(BaseException):
    """not an Exception: the `except Exception` handlers around the implementation must not swallow it"""


def run_guarded(case, workdir, name="case", seconds=60):
    """check_chain under a CPU-time budget of the process (ITIMER_VIRTUAL: a loaded machine does not trip it)
    -> ([(leg, clause, message)], [(case of leg, observations)])"""
    import signal

    def h(*a):
        raise _Timeout()
    old = signal.signal(signal.SIGVTALRM, h)
    signal.setitimer(signal.ITIMER_VIRTUAL, seconds)
    try:
        return check_chain(case, workdir, name)
    except _Timeout:
        msg = "no result after %d s of CPU time (save_match/load_match does not terminate)" % seconds
        return [(1, "load_error", msg)], [(case, dict(status="load_error", error=msg))]
    finally:
        signal.setitimer(signal.ITIMER_VIRTUAL, 0)
        signal.signal(signal.SIGVTALRM, old)


def in_domain(c):
    """the assumptions on the score the generator guarantees: a note onset in every measure (only note lines carry
    measure numbers), a pickup measure starts with a note"""
    b = c["bounds"]
    ons = sorted(n["on"] for n in c["notes"])
    import bisect
    for mi in range(len(b) - 1):
        k = bisect.bisect_left(ons, b[mi])
        if k >= len(ons) or ons[k] >= b[mi + 1]:
            return False
    return not c["pickup"] or ons[0] == b[0]


def shrink(case, clause, workdir):
    ids = [n["id"] for n in case["notes"]]

    def fails_case(c):
        if not c["notes"] or not in_domain(c):
            return False
        try:
            b, _ = run_guarded(c, workdir, "shrink", 20)
        except Exception:
            return False
        return any(x[1] == clause for x in b)

    def fails(sub):
        return fails_case(sub_case(case, sub))
    try:
        small = core.ddmin(ids, fails) if len(ids) <= 40 else ids
    except Exception:
        small = ids
    c = sub_case(case, small)
    if clause not in ("pedal",):
        c2 = dict(c)
        c2["controls"] = []
        if fails_case(c2):
            c = c2
    legs = c.get("legs") or []
    for k in range(len(legs)):  # the shortest history that still fails
        c2 = dict(c)
        c2["legs"] = legs[:k]
        if fails_case(c2):
            c = c2
            break
    return c


def features(case):
    f = []
    if case["pickup"]:
        f.append("pickup")
    if len(case["tsigs"]) > 1:
        f.append("ts_change")
    if len({t[2] for t in case["tsigs"]}) > 1:
        f.append("ts_den_change")
    if any(t[2] != 4 for t in case["tsigs"]):
        f.append("non_quarter_meter")
    if len(case["ksigs"]) > 1:
        f.append("ks_change")
    if any(n["tie"] for n in case["notes"]):
        f.append("ties")
    if any(n["grace"] for n in case["notes"]):
        f.append("grace")
    labels = {a["label"] for a in case["alignment"]}
    f += sorted("al_" + x for x in labels)
    if case["controls"]:
        f.append("pedal")
    if case["divs"] % 3 == 0:
        f.append("triplet_grid")
    firsts = {}
    for n in case["notes"]:
        for mi in range(len(case["bounds"]) - 1):
            if case["bounds"][mi] <= n["on"] < case["bounds"][mi + 1]:
                firsts[mi] = min(firsts.get(mi, 10 ** 9), n["on"] - case["bounds"][mi])
    if any(v > 0 for v in firsts.values()):
        f.append("bar_starts_with_rest")
    grace_ids = {n["id"] for n in case["notes"] if n["grace"]}
    nm = len([a for a in case["alignment"] if a["label"] == "match" and a["score_id"] not in grace_ids])
    if nm <= 1:
        f.append("al_one_match_with_duration" if nm else "al_no_match_with_duration")
    seen_op = set()
    for n in case["notes"]:
        key = (n["on"], n["step"], n["alter"] or 0, n["octave"])
        if key in seen_op:
            f.append("unison")
        seen_op.add(key)
    if any(len(k) > 3 for k in case["ksigs"]):
        f.append("ks_inside_bar")
    if any(a[1:3] == b[1:3] for a, b in zip(case["ksigs"], case["ksigs"][1:])):
        f.append("ks_restated")
    if any(a[1:] == b[1:] for a, b in zip(case["tsigs"], case["tsigs"][1:])):
        f.append("ts_restated")
    if len({tuple(t[1:]) for t in case["tsigs"]}) < len([t for a, t in zip([None] + case["tsigs"], case["tsigs"]) if a is None or a[1:] != t[1:]]):
        f.append("ts_value_returns")
    arts = [a for n in case["notes"] for a in n.get("arts", [])]
    if any(a not in SUPPORTED_ARTS and ("stac" in a or "accent" in a) for a in arts):
        f.append("art_lookalike")
    if any(a in SUPPORTED_ARTS for a in arts):
        f.append("art_supported")
    if any(n.get("orns") for n in case["notes"]):
        f.append("ornament")
    if any(n.get("fermata") for n in case["notes"]):
        f.append("fermata")
    if any(n.get("fingering") for n in case["notes"]):
        f.append("fingering")
    vs = [n["voice"] for n in case["notes"]]
    st = [n["staff"] for n in case["notes"]]
    if any(v is None for v in vs):
        f.append("voice_missing_all" if all(v is None for v in vs) else "voice_missing_some")
    if any(x is None for x in st):
        f.append("staff_missing_all" if all(x is None for x in st) else "staff_missing_some")
    if any(v is not None and v >= 10 for v in vs):
        f.append("voice_two_digits")
    if any(x is not None and x >= 10 for x in st):
        f.append("staff_two_digits")
    pc = case.get("pclock")
    if pc:
        f.append("stored_ticks_same_clock" if tuple(pc) == (case["ppq"], case["mpq"]) else "stored_ticks_other_clock")
    prev = (case["ppq"], case["mpq"])
    for ppq, mpq, mode in case.get("legs") or []:
        f.append("resave_same_clock" if (ppq, mpq) == prev else "resave_other_clock")
        f.append("resave_%s_score" % mode)
        prev = (ppq, mpq)
    if any(c[0] == 1 for c in [(case["ppq"], case["mpq"])] + [tuple(l[:2]) for l in case.get("legs") or []]):
        f.append("clock_one_tick_per_second")
    return sorted(set(f))


def strip_live(o):
    return dict((k, v) for k, v in o.items() if not k.startswith("_"))


def fixture_clocks(rng, own, quick):
    """clocks a fixture is saved again with: always one other than its own; quick 2, thorough all"""
    other = [c for c in CLOCKS if c != own]
    if not quick:
        return other + [own]
    a = rng.choice([c for c in other if c[0] != 1])
    b = rng.choice([c for c in other if c != a] + [own])
    return [a, b]


def fixture_resave(fn, path, clocks, workdir, want_terms=True):
    """load a fixture file, save what was loaded with another clock, load that: alignment and performance
    clauses of C08 between the two loads (the first load's seconds are the original seconds).
    -> [(clock, [(clause, message)], perf terms, pedal term, text lines of the new file)]"""
    from partitura.io.importmatch import load_match

    os.makedirs(workdir, exist_ok=True)
    with warnings.catch_warnings():
        warnings.simplefilter("ignore")
        perf, al, scr = load_match(path, create_score=True)
        o1 = dict(perf=observe_perf(perf[0]),
                  alignment=[dict((k, v) for k, v in a.items() if isinstance(v, (str, int))) for a in al])
    out = []
    for k, (ppq, mpq) in enumerate(clocks):
        dcase = derive_case(dict(notes=[]), o1, ppq, mpq, "fixture")
        obs = dict(status="ok", use_defaults=True, orig=None)
        args = (al, perf, scr) if k % 2 == 0 else (al, perf[0], scr[0])
        obs = run_leg_noscore(obs, args, ppq, mpq, os.path.join(workdir, "fx_%d.match" % k))
        bad = oracle(dcase, obs, score=False)
        if obs["status"] == "ok":
            n1 = sorted(n.id for n in scr[0].notes_tied)
            n2 = obs["score_ids"]
            stray = [a for a in obs["alignment"] if a.get("score_id") is not None and a["score_id"] not in set(n2)]
            if stray:
                bad.append(("alignment_ids", "alignment entries name score notes that are not in the loaded score: %s" % stray[:3]))
            if n1 != n2:
                bad.append(("score_lost", "score note ids differ after saving again: lost %s, extra %s" % (
                    [x for x in n1 if x not in n2][:3], [x for x in n2 if x not in n1][:3])))
        terms = perf_terms(dcase, obs) if (want_terms and obs["status"] == "ok") else []
        pterm = pedal_term(dcase, obs) if (want_terms and obs["status"] == "ok") else None
        out.append(((ppq, mpq), bad, terms, pterm, obs.get("text_lines", [])))
    return out


def run_leg_noscore(obs, args, ppq, mpq, path):
    """run_leg for a fixture: the loaded score is only asked for its note ids"""
    from partitura.io.exportmatch import save_match
    from partitura.io.importmatch import load_match

    with warnings.catch_warnings():
        warnings.simplefilter("ignore")
        try:
            if (ppq, mpq) == (480, 500000):
                save_match(args[0], args[1], args[2], out=path, assume_unfolded=True)
            else:
                save_match(args[0], args[1], args[2], out=path, mpq=mpq, ppq=ppq, assume_unfolded=True)
        except Exception as e:
            return dict(status="save_error", error="%s: %s" % (type(e).__name__, str(e)[:300]))
        with open(path) as f:
            obs["text_lines"] = f.read().splitlines()
        try:
            perf, al2, scr = load_match(path, create_score=True)
            obs["alignment"] = [dict((k, v) for k, v in a.items() if isinstance(v, (str, int))) for a in al2]
            obs["perf"] = observe_perf(perf[0])
            obs["score_ids"] = sorted(n.id for n in scr[0].notes_tied)
        except Exception as e:
            return dict(status="load_error", error="%s: %s" % (type(e).__name__, str(e)[:300]))
    return obs


# ---------------------------------------------------------------------------------------------------
# round j: the file as a whole -- header lines written for the optional texts / the clock given or left out,
# the clock the loader finds (MatchFile.info: first line with the attribute) and the notes read with it
HEADER_TEXTS = ["midiClockUnits", "midiClockRate", "-", "Op. 10 No_3", "a b", "x/y.musicxml", "p.mid", "100", "480",
                "matchFileVersion", "piece", "Anon", "n1", "v1.0.0"]
HEADER_KEYS = ["performer", "piece", "composer", "score_filename", "performance_filename"]


def _hval(v):
    import numpy as np
    if isinstance(v, (bool, np.bool_)):
        return "(HStr %s)" % cstr(str(v))
    if isinstance(v, (int, np.integer)):
        return "(HInt %s)" % cz(int(v))
    t = str(v)
    if t.startswith("Version("):
        t = "%d.%d.%d" % (v.major, v.minor, v.patch)
    return "(HStr %s)" % cstr(t if printable(t) else "?")


def _info_rows(mf):
    return clist([ctuple([cstr(str(i.Attribute)), _hval(i.Value)]) for i in mf.info()])


def _file_notes(mf, pp, cap):
    """the played notes of the file (line order) and the same notes of the loaded performance (by id)"""
    by = {}
    for n in pp.notes:
        by.setdefault(str(n["id"]), n)
    fns, got = [], []
    for ln in mf.notes:
        n = by.get(fmt_pid(str(ln.Id)))
        if n is None:
            return None
        fns.append(ctuple([cz(ln.MidiPitch), cz(ln.Velocity), cz(ln.Onset), cz(ln.Offset)]))
        got.append(ctuple([cz(n["note_on_tick"]), cz(n["note_off_tick"]), cq(fr_exact(n["note_on"])), cq(fr_exact(n["note_off"]))]))
        if cap and len(fns) >= cap:
            break
    return clist(fns), clist(got)


def fr_exact(x):
    return Fraction(float(x)).limit_denominator(10 ** 12)


def file_clock_term(path, zero, cap):
    """(info lines, clock of the loaded performance or None when load_match raises, played notes of the file, the
    same notes loaded, first_note_at_zero) for chk_file_clock; cap=0: all notes (needed when zero)"""
    from partitura.io.importmatch import load_match, load_matchfile
    with warnings.catch_warnings():
        warnings.simplefilter("ignore")
        mf = load_matchfile(path)
        try:
            perf, _ = load_match(path, first_note_at_zero=zero)
            pp = perf[0]
        except (TypeError, ValueError, AttributeError, ZeroDivisionError):
            pp = None
    if pp is None:
        return ctuple([_info_rows(mf), "None", "[]", "[]", cbool(zero)]), None
    fg = _file_notes(mf, pp, cap)
    if fg is None:
        return None, None
    return ctuple([_info_rows(mf), "(Some %s)" % ctuple([cz(int(pp.ppq)), cz(int(pp.mpq))]), fg[0], fg[1], cbool(zero)]), (int(pp.ppq), int(pp.mpq))


def header_stream(ctx, work, quick):
    """save_match with the optional texts given or not and the clock given (int / numpy int) or left out, on small
    generated inputs; returns the terms of the streams 'header' and 'file_clock' (with labels)."""
    from partitura.io.exportmatch import save_match
    from partitura.io.importmatch import load_match, load_matchfile
    import numpy as np
    rng = ctx.rng
    h_terms, h_cases, f_terms, f_cases, i_terms = [], [], [], [], []
    n = 36 if quick else 400
    path = os.path.join(work, "hdr.match")
    made = 0
    tries = 0
    while made < n and tries < 3 * n:
        tries += 1
        case = gen_case(rng, 0.25)
        try:
            part, ppart, al = build_objects(case)
        except Exception:
            continue
        kw, texts = {}, {}
        mode = rng.random()
        for k in HEADER_KEYS:
            if mode < 0.15:
                texts[k] = None
            elif mode < 0.30 or rng.random() < 0.55:
                texts[k] = rng.choice(HEADER_TEXTS)
            else:
                texts[k] = None
            if texts[k] is not None or rng.random() < 0.2:
                kw[k] = texts[k]          # None passed explicitly in 20 % of the not-given options
        r = rng.random()
        ppq, mpq = pick_clock(rng)
        if r < 0.25:
            giv = (None, None)
        elif r < 0.40:
            giv = (ppq, None)
        elif r < 0.55:
            giv = (None, mpq)
        else:
            giv = (ppq, mpq)
        kind = rng.choice(["int", "int", "np.int64", "np.int32"])
        conv = {"int": int, "np.int64": np.int64, "np.int32": np.int32}[kind]
        if giv[0] is not None:
            kw["ppq"] = conv(giv[0])
        if giv[1] is not None:
            kw["mpq"] = conv(giv[1])
        label = "header:%d texts=%s clock=%s kind=%s" % (made, json.dumps(texts, sort_keys=True), list(giv), kind)
        try:
            with warnings.catch_warnings():
                warnings.simplefilter("ignore")
                save_match(al, ppart, part, out=path, assume_unfolded=True, **kw)
        except Exception as e:
            ctx.count("header:save_raises(K1 or input)")
            continue
        made += 1
        ctx.evaluations += 1
        ctx.nontrivial(label)
        ctx.count("header:cases")
        ctx.count("header:texts_given_%d" % sum(1 for k in HEADER_KEYS if texts[k] is not None))
        ctx.count("header:clock_" + ("both_left_out" if giv == (None, None) else "ppq_only" if giv[1] is None else "mpq_only" if giv[0] is None else "both_given"))
        ctx.count("header:clock_kind_" + kind if giv != (None, None) else "header:clock_kind_none")
        if any(texts[k] in ("midiClockUnits", "midiClockRate", "matchFileVersion", "piece") for k in HEADER_KEYS):
            ctx.count("header:text_repeats_an_attribute_name")
        if any(k in kw and kw[k] is None for k in HEADER_KEYS):
            ctx.count("header:None_passed_explicitly")
        want = (giv[0] if giv[0] is not None else 480, giv[1] if giv[1] is not None else 500000)
        with open(path) as f:
            text = f.read().splitlines()
        try:
            with warnings.catch_warnings():
                warnings.simplefilter("ignore")
                mf = load_matchfile(path)
                perf, _ = load_match(path)
            pp = perf[0]
            got = (int(pp.ppq), int(pp.mpq))
        except Exception as e:
            ctx.violation("C08 clock: loading the file written by save_match(%s) raises %s: %s" % (label, type(e).__name__, str(e)[:200]),
                          dict(clause="header", label=label, file_text=text[:40], message="load raises %s" % type(e).__name__))
            continue
        # direct oracle: clock units and rate of the loaded performance are those asked for
        if got != want:
            ctx.violation("C08 clock: save_match(%s) then load_match: clock of the loaded performance %s, asked %s" % (label, got, want),
                          dict(clause="header", label=label, file_text=text[:40], message="clock loaded %s, asked %s" % (got, want)))
        fg = _file_notes(mf, pp, 4)
        if fg is not None and all(printable(str(i.Value)) or hasattr(i.Value, "major") for i in mf.info()):
            h_terms.append(ctuple([cstr("1.0.0"), ctuple([copt(texts[k], cstr) for k in HEADER_KEYS]),
                                   ctuple([copt(giv[0], cz), copt(giv[1], cz)]), _info_rows(mf),
                                   ctuple([cz(got[0]), cz(got[1])]), fg[0], fg[1]]))
            h_cases.append(label)
        # the same file with the header disturbed: a second clock line after the first (first wins), the clock
        # lines moved behind the notes, a clock line taken out (no clock: the loader cannot go on); and the
        # undisturbed file with first_note_at_zero
        var = rng.choice(["second_units", "second_rate", "moved", "no_units", "no_rate", "zero", "zero"])
        lines = list(text)
        iu = next(i for i, l in enumerate(lines) if l.startswith("info(midiClockUnits,"))
        ir = next(i for i, l in enumerate(lines) if l.startswith("info(midiClockRate,"))
        if var == "second_units":
            lines.insert(ir + 1, "info(midiClockUnits,%d)." % (want[0] + rng.randint(1, 500)))
        elif var == "second_rate":
            lines.insert(rng.randint(ir + 1, len(lines)), "info(midiClockRate,%d)." % (want[1] + rng.randint(1, 5000)))
        elif var == "moved":
            u, r_ = lines[iu], lines[ir]
            lines = [l for i, l in enumerate(lines) if i not in (iu, ir)] + [r_, u]
        elif var == "no_units":
            del lines[iu]
        elif var == "no_rate":
            del lines[ir]
        p2 = os.path.join(work, "hdr2.match")
        with open(p2, "w") as f:
            f.write("\n".join(lines) + "\n")
        try:
            t, clk = file_clock_term(p2, var == "zero", 0 if var == "zero" else 4)
        except Exception as e:
            ctx.violation("C08 clock: reading the file with the header variant %s raises %s: %s" % (var, type(e).__name__, str(e)[:200]),
                          dict(clause="header", label=label + " variant=" + var, file_text=lines[:40], message=str(e)[:200]))
            continue
        ctx.count("file_clock:variant_" + var)
        if var == "zero" and min([int(l_.Onset) for l_ in mf.notes] or [0]) > 0:
            ctx.count("file_clock:zero_shift_applies")
        if var in ("moved", "zero") and clk != want:
            ctx.violation("C08 clock: header variant %s of the file written by save_match(%s): clock loaded %s, first clock lines say %s" % (var, label, clk, want),
                          dict(clause="header", label=label + " variant=" + var, file_text=lines[:40], message="clock loaded %s, header %s" % (clk, want)))
        if t is not None and var in ("moved", "zero"):
            f_terms.append(t)
            f_cases.append(label + " variant=" + var)
        elif t is not None:
            # which of two clock lines counts / what happens without one is not named by the property: informational
            i_terms.append(t)
            if var.startswith("second") and clk != want:
                ctx.count("info:second_clock_line_wins")
    # the fixture files (all versions): clock found by the model in their info lines = clock of the loaded performance
    fx_dir = os.path.join(core.REPO, "tests", "data", "match")
    for fn in sorted(os.listdir(fx_dir)) if os.path.isdir(fx_dir) else []:
        if not fn.endswith(".match"):
            continue
        for zero in (False, True):
            try:
                t, clk = file_clock_term(os.path.join(fx_dir, fn), zero, 0 if zero else 40)
            except Exception:
                ctx.count("file_clock:fixture_unreadable")
                continue
            if t is not None and len(t) < 400000:
                f_terms.append(t)
                f_cases.append("fixture:%s zero=%s" % (fn, zero))
                ctx.count("file_clock:fixture_zero" if zero else "file_clock:fixture")
    try:
        for q in (path, os.path.join(work, "hdr2.match")):
            if os.path.exists(q):
                os.remove(q)
    except OSError:
        pass
    return h_terms, h_cases, f_terms, f_cases, i_terms


def run(ctx):
    ctx.rule = ("cases = generated HISTORIES: (single-part score with one divisions value and complete last measure, performed part "
                "with or without stored tick fields of the clock it was loaded with, alignment, ppq, mpq) -> save_match -> file -> "
                "load_match(create_score=True) [leg 1], then 0-2 further legs: what was loaded (performance, alignment and either the "
                "loaded or the generated score part) -> save_match with a clock drawn again from {(480,500000),(1000,600000),"
                "(96,600000),(4000,500000),(1,1000000)} (60 %), 7 other pairs or a random pair -> load_match; every clause of C08 is "
                "evaluated after every leg, the seconds handed to save_match being the original seconds of that leg. Score notes "
                "carry 0-3 articulations of partitura's vocabulary (16 names, look-alikes of staccato/accent weighted), ornaments, "
                "fermata, fingering; voices / staves all given, none, or missing on some notes, numbers up to 21 / 23; unisons; time and "
                "key signatures written again with the value in force, A-B-A time signatures, key signatures inside a bar; alignments "
                "with exactly one / no match of a note with a duration; 4 hand-written corpus histories first. non-trivial = "
                "distinct history with at least one of: pickup, time-signature change, non-quarter meter, key change, tie, grace note, "
                "non-match alignment label, pedal events, bar starting with a rest, stored ticks, a further leg; plus stressed copies of "
                "the written files (duplicated and conflicting lines) and the fixture match files of tests/data/match, each also "
                "saved again with other clocks and loaded (alignment, performance, clock, note ids); plus HISTORIES ON LIVE OBJECTS (state "
                "carried between calls): 4 hand-written + 50 (thorough 600) generated operation lists over one or two inputs -- save_match "
                "(Part / Score / list, PerformedPart / Performance / list, clock as int / numpy int; file or returned MatchFile), edits "
                "through the public API and in place (note times as float / numpy float64 / float32 / int, velocity, notes replaced / "
                "appended / deleted, controls, the part's clock attributes, alignment entries relabelled / moved, score note attributes, "
                "spelling, duration, notes added / removed, key signature, the part of ONE Score / Performance container replaced), "
                "going on with the loaded performance, and the readers load_matchfile / performed_part_from_match / part_from_matchfile / "
                "alignment_from_matchfile called repeatedly in generated order with MatchFile.lines and the returned objects written "
                "into in between; every observation is judged against the CURRENT state only (objects freshly built from the current "
                "description / a fresh load of the text the MatchFile holds), by the direct oracle, and by the state machines of "
                "Model/C08_Hist.v; a history is non-trivial when distinct")
    ctx.trusted = ["Coq 8.16.1 kernel incl. vm_compute", "harness/props/c08.py (generator, observers, Coq term printers, Python mirror of the documented id resolution)",
                   "partitura's line parser/formatter for single lines (property C07) and Part/PerformedPart constructors, note_array, beat_map, time_signature_map (C01, C02, C05, C10) used to build inputs and read results"]
    ctx.assumptions = ["score: one part, one divisions value, complete last measure, every measure has at least one note onset (only note lines carry measure numbers), a pickup measure starts with a note, reduced offset/duration fractions have numerator and denominator <= 1024 (larger ones are approximated by the line codec, C07)",
                       "performance: no two overlapping notes of one pitch (C14), times >= 0; tick values within 2^-20 of a rounding tie are skipped and counted",
                       "performance note ids not starting with 'n' are compared after the documented 'n' prefixing; an exact repetition of a pedal event (same tick and value) is one line of the file",
                       "alignment: every score note (chain head) appears once as match or deletion, every performed note once as match, insertion or ornament",
                       "signatures: at most one key signature per measure; a signature written inside a measure is expected at the start of that measure, one that repeats the value in force is expected on neither side; articulation / ornament names are those of partitura's vocabulary (Gen/C08_Vocab.v); voices >= 1; the staff / voice chosen by the importer for a note written without one is not compared",
                       "stored note_on_tick/note_off_tick of a performed note describe the clock the performance was loaded with; the seconds are the data (the property asks for the seconds rounded to the nearest tick of the clock of the file being written)"]
    ctx.matchers["C08-K1"] = k1_matcher
    ctx.matchers["C08-K2"] = k2_matcher
    gen()
    ok, why = ctx.coq_props(expect_min=67)
    quick = ctx.tier == "quick"
    ncases = 240 if quick else 3000
    work = ctx.work
    n_viol = 0
    # the boundary of the domain (known finding C08-K2): a duration above the line codec's bound
    bad, chain = run_guarded(K2_CASE, work, "k2")
    ctx.evaluations += 1
    ctx.count("corpus:K2_long_duration")
    if bad:
        ctx.violation("C08 %s: %s" % (bad[0][1], bad[0][2]),
                      dict(case=K2_CASE, status=chain[bad[0][0] - 1][1]["status"], clause=bad[0][1], message=bad[0][2], all=[b[2] for b in bad[:6]]))
    exp_terms, imp_terms, pf_terms, pd_terms, rd_terms, al_terms = [], [], [], [], [], []
    exp_cases, imp_cases, pf_cases, pd_cases, rd_labels = [], [], [], [], []
    ax_terms, ai_terms, ly_terms, ax_cases, ai_cases, ly_cases = [], [], [], [], [], []
    id_terms, df_terms, id_cases, df_cases = [], [], [], []
    sx_terms, sx_cases = [], []
    skipped = 0
    for i in range(-len(CORPUS), ncases):
        size = 1.0 if i % 5 else 2.0
        if i < 0:
            case = CORPUS[i][1]
            ctx.count("corpus:" + CORPUS[i][0])
        else:
            case = gen_case(ctx.rng, size)
        bad, chain = run_guarded(case, work, "c%d" % i)
        ctx.evaluations += len(chain)
        obs = chain[0][1]
        if obs["status"] == "build_error":
            ctx.count("input_rejected_by_constructors")
            continue
        for c, o in chain:  # every leg, failed saves included: does the model predict whether save_match can work?
            t = defined_term(c, o)
            if t is not None:
                df_terms.append(t)
                df_cases.append(case)
        feats = features(case)
        for f in feats:
            ctx.count(f)
        ctx.count("legs_run", len(chain))
        if feats:
            ctx.nontrivial(json.dumps(case, sort_keys=True))
        if bad:
            leg, clause, msg = bad[0]
            status = chain[leg - 1][1]["status"]
            if n_viol < 8:
                rep = dict(case=case, status=status, clause=clause, message=msg, all=[b[2] for b in bad[:6]])
                if leg == 1 and status == "save_error" and k1_matcher(rep):
                    ctx.violation(msg, rep)
                    ctx.count("known:K1")
                    continue
                if status == "save_error" and k1_matcher(dict(rep, case=chain[leg - 1][0])):
                    ctx.count("known:K1_later_leg")  # nothing but unmatched notes was loaded: same finding
                    ctx.violation(msg, dict(rep, case=chain[leg - 1][0]))
                    continue
                small = shrink(case, clause, work)
                sb, _ = run_guarded(small, work, "small")
                sb = [b for b in sb if b[1] == clause] or sb
                rep = dict(case=small, status=status, clause=clause, message=(sb or bad)[0][2], all=[b[2] for b in (sb or bad)[:6]])
                ctx.violation("C08 %s: %s" % (clause, rep["message"]), rep)
                n_viol += 1
            # self-test switch: feed the model streams with the legs of failing histories too (to see that a
            # change is caught by the correspondence on its own, not only by the direct oracle)
            if not (os.environ.get("C08_TERMS_ALWAYS") and all(o["status"] == "ok" for _, o in chain)):
                continue
        else:
            ctx.count("ok")
        if 0 <= i < 3:
            ctx.sample(dict(case=dict((k, case[k]) for k in ("divs", "tsigs", "ksigs", "bounds", "pickup", "ppq", "mpq", "pclock", "legs")),
                            n_notes=len(case["notes"]), n_pnotes=len(case["pnotes"]), n_controls=len(case["controls"]),
                            first_pnote=case["pnotes"][:1], file_head=obs["text_lines"][6:13],
                            last_leg_file_head=chain[-1][1]["text_lines"][6:9] if len(chain) > 1 else None))
        for c, o in chain:
            t = export_term(c, o)
            if t is not None:
                exp_terms.append(t)
                exp_cases.append(case)
            t = import_term(c, o)
            if t is not None:
                imp_terms.append(t)
                imp_cases.append(case)
            else:
                skipped += 1
            for t in perf_terms(c, o):
                pf_terms.append(t)
                pf_cases.append(case)
            t = pedal_term(c, o)
            if t is not None:
                pd_terms.append(t)
                pd_cases.append(case)
            for t in pid_terms(c, o):
                id_terms.append(t)
                id_cases.append(case)
            for t in attrs_export_terms(c, o):
                ax_terms.append(t)
                ax_cases.append(case)
            t = attrs_import_term(c, o)
            if t is not None:
                ai_terms.append(t)
                ai_cases.append(case)
            t = sig_export_term(c, o)
            if t is not None:
                sx_terms.append(t)
                sx_cases.append(case)
            else:
                ctx.count("sig_export_terms_skipped")
            t = layout_term(c, o)
            if t is not None:
                ly_terms.append(t)
                ly_cases.append(case)
            else:
                ctx.count("layout_terms_skipped")
        if i % 4 == 1:  # the older numeric performed-note ids
            c_last, o_last = chain[-1]
            r = unprefixed_load(c_last, o_last, work)
            if r is not None:
                ctx.evaluations += 1
                ctx.count("numeric_pid_files")
                for cl, msg in r[0][:1]:
                    if n_viol < 8:
                        ctx.violation("C08 %s: %s" % (cl, msg), dict(clause="reader", message=msg, file_text=r[1]))
                        n_viol += 1
        # O4 on the written file and on a stressed copy
        if i % (4 if quick else 6) == 0:
            path = os.path.join(work, "s%d.match" % i)
            text_lines = chain[-1][1]["text_lines"] if i % 2 else obs["text_lines"]
            with open(path, "w") as f:
                f.write("\n".join(text_lines) + "\n")
            b1, _, _ = check_reader(path, "written:%d" % i, ctx, rd_terms, al_terms, rd_labels)
            stress_file(ctx.rng, text_lines, path)
            b2, raw, got = check_reader(path, "stressed:%d" % i, ctx, rd_terms, al_terms, rd_labels)
            ctx.count("stressed_files")
            if len(raw) != len(got):
                ctx.nontrivial("stress:%d:%d:%d" % (i, len(raw), len(got)))
            # loading the stressed file still gives a performance and a score
            from partitura.io.importmatch import load_match
            try:
                with warnings.catch_warnings():
                    warnings.simplefilter("ignore")
                    perf, al2, scr = load_match(path, create_score=True)
                ids = [n["id"] for n in perf[0].notes]
                if len(ids) != len(set(ids)):
                    b2.append("performed notes duplicated after loading a file with duplicate lines")
                sids = [n.id for n in scr[0].notes_tied]
                if len(sids) != len(set(sids)):
                    b2.append("score notes duplicated after loading a file with duplicate lines")
            except Exception as e:
                b2.append("load_match fails on a file with duplicate lines: %s: %s" % (type(e).__name__, str(e)[:200]))
            for b in (b1 + b2)[:2]:
                if n_viol < 8:
                    with open(path) as f:
                        ctx.violation("C08 duplicate handling: " + b, dict(clause="reader", message=b, file_text=f.read().splitlines()))
                    n_viol += 1
            try:
                os.remove(path)
            except OSError:
                pass
    ctx.count("import_terms_skipped", skipped)
    ctx.log("generated cases done")
    # histories: state carried between calls (hand-written ones first)
    ph_terms, ph_cases, mh_terms, mh_cases = [], [], [], []
    hcorpus = _hist_corpus()
    nhist = 50 if quick else 600
    for i in range(-len(hcorpus), nhist):
        if i < 0:
            hist = hcorpus[i][1]
            ctx.count("history_corpus:" + hcorpus[i][0])
        else:
            hist = gen_history(ctx.rng)
        hbad, hterms, hcounts = history_guarded(hist, work, "h%d" % i)
        for k, v in sorted(hcounts.items()):
            ctx.count(k, v)
        ctx.evaluations += hcounts.get("h:save", 0) + hcounts.get("h:save_returned", 0) + len([o for o in hist["ops"] if o["op"] == "load"])
        ctx.count("histories")
        ctx.nontrivial("history:" + json.dumps(hist["ops"], sort_keys=True))
        if hbad:
            if n_viol < 8:
                oi, clause, msg = hbad[0]
                small = shrink_history(hist, clause, work)
                sb, _, _ = history_guarded(small, work, "hsmall")
                sb = [b for b in sb if b[1] == clause] or sb or hbad
                ctx.violation("C08 history (state carried between calls) %s at operation %d %s: %s" % (clause, sb[0][0], small["ops"][sb[0][0]] if sb[0][0] < len(small["ops"]) else "", sb[0][2]),
                              dict(small, clause=clause, message=sb[0][2], all=[b[2] for b in sb[:6]]))
                n_viol += 1
            if not os.environ.get("C08_TERMS_ALWAYS"):
                continue
        else:
            ctx.count("history_ok")
        for t in hterms["phist"]:
            ph_terms.append(t)
            ph_cases.append(hist)
        for t in hterms["mhist"]:
            mh_terms.append(t)
            mh_cases.append(hist)
    ctx.log("histories done")
    # fixtures of all historical versions
    fx_dir = os.path.join(core.REPO, "tests", "data", "match")
    for fn in sorted(os.listdir(fx_dir)):
        if not fn.endswith(".match"):
            continue
        path = os.path.join(fx_dir, fn)
        try:
            bad, raw, got = check_reader(path, "fixture:" + fn, ctx, rd_terms, al_terms, rd_labels)
            from partitura.io.importmatch import load_match
            with warnings.catch_warnings():
                warnings.simplefilter("ignore")
                perf, al2, scr = load_match(path, create_score=True)
            ids = [n["id"] for n in perf[0].notes]
            if len(ids) != len(set(ids)):
                bad.append("performed note ids duplicated in the loaded performance")
            want = {fmt_pid(c[2]) for c in got if c[2] is not None}
            if set(ids) != want:
                bad.append("loaded performance notes %d differ from played-note lines %d" % (len(set(ids)), len(want)))
            sids = [n.id for n in scr[0].notes_tied]
            if len(sids) != len(set(sids)):
                bad.append("score note ids duplicated in the loaded score")
            own = (int(perf[0].ppq), int(perf[0].mpq))
        except Exception as e:
            bad = ["loading fixture raises %s: %s" % (type(e).__name__, str(e)[:300])]
            own = None
        ctx.count("fixtures")
        ctx.nontrivial("fixture:" + fn)
        for b in bad[:2]:
            ctx.violation("C08 fixture %s: %s" % (fn, b), dict(clause="fixture", fixture=fn, message=b))
        if own is None:
            continue
        # the fixture saved again with other clocks and loaded
        clocks = fixture_clocks(ctx.rng, own, quick)
        try:
            res = fixture_resave(fn, path, clocks, work)
        except Exception as e:
            ctx.violation("C08 fixture %s: saving the loaded fixture again raises %s: %s" % (fn, type(e).__name__, str(e)[:300]),
                          dict(clause="fixture_resave", fixture=fn, clocks=clocks, message=str(e)[:300]))
            continue
        for (ppq, mpq), fbad, terms, pterm, text_lines in res:
            ctx.evaluations += 1
            ctx.count("fixture_resaved")
            ctx.count("fixture_resaved_other_clock" if (ppq, mpq) != own else "fixture_resaved_same_clock")
            ctx.nontrivial("fixture:%s:%d:%d" % (fn, ppq, mpq))
            for cl, msg in fbad[:2]:
                ctx.violation("C08 fixture %s (clock %d/%d) saved again with ppq=%d mpq=%d and loaded: %s: %s" % (fn, own[0], own[1], ppq, mpq, cl, msg),
                              dict(clause="fixture_resave", fixture=fn, clocks=[[ppq, mpq]], message=msg))
            if not fbad:
                step = max(1, len(terms) // (60 if quick else 400))
                for t in terms[::step]:
                    pf_terms.append(t)
                    pf_cases.append("fixture:%s:%d:%d" % (fn, ppq, mpq))
                if pterm is not None and (not quick or len(pterm) < 150000):
                    pd_terms.append(pterm)
                    pd_cases.append("fixture:%s:%d:%d" % (fn, ppq, mpq))
                if text_lines and (ppq, mpq) == clocks[0] and (not quick or len(text_lines) < 1000):
                    p2 = os.path.join(work, "fxw.match")
                    with open(p2, "w") as f:
                        f.write("\n".join(text_lines) + "\n")
                    b3, _, _ = check_reader(p2, "fixture_resaved:%s:%d:%d" % (fn, ppq, mpq), ctx, rd_terms, al_terms, rd_labels)
                    for b in b3[:1]:
                        ctx.violation("C08 fixture %s saved again: %s" % (fn, b), dict(clause="fixture_resave", fixture=fn, clocks=[[ppq, mpq]], message=b))
    ctx.log("fixtures done")
    hd_terms, hd_cases, fc_terms, fc_cases, fi_terms = header_stream(ctx, work, quick)
    ctx.log("header stream done: %d + %d terms" % (len(hd_terms), len(fc_terms)))
    if not ok:
        if not ctx.violations:
            ctx.violation("proof obligations of Props/C08.v no longer check: " + why, {"theorem_or_build": why}, no_input=True)
        return
    # correspondence
    def thin(terms, cases, cap):  # evenly spaced sample (exact dyadic rationals are large literals, slow to parse)
        if len(terms) <= cap:
            return terms, cases
        step = len(terms) / float(cap)
        idx = sorted({int(k * step) for k in range(cap)})
        return [terms[k] for k in idx], [cases[k] for k in idx]
    exp_terms, exp_cases = thin(exp_terms, exp_cases, 320 if quick else 5000)
    imp_terms, imp_cases = thin(imp_terms, imp_cases, 320 if quick else 5000)
    pf_terms, pf_cases = thin(pf_terms, pf_cases, 800 if quick else 12000)
    pd_terms, pd_cases = thin(pd_terms, pd_cases, 160 if quick else 2500)
    ax_terms, ax_cases = thin(ax_terms, ax_cases, 900 if quick else 12000)
    ai_terms, ai_cases = thin(ai_terms, ai_cases, 320 if quick else 4000)
    ly_terms, ly_cases = thin(ly_terms, ly_cases, 320 if quick else 4000)
    id_terms, id_cases = thin(id_terms, id_cases, 700 if quick else 10000)
    sx_terms, sx_cases = thin(sx_terms, sx_cases, 320 if quick else 4000)
    df_terms, df_cases = thin(df_terms, df_cases, 320 if quick else 4000)
    streams = [
            ("export", exp_terms, exp_cases, "chk_case_export", "model encode_pos/enc_dur = measure:beat, offset, duration written by matchfile_from_alignment (every leg; parts built by the generator and parts loaded from a match file)"),
            ("import", imp_terms, imp_cases, "chk_import", "model divisions/bar times/decode_divs/decode_dur = divisions, onsets and durations of the part loaded by part_from_matchfile (every leg)"),
            ("perf", pf_terms, pf_cases, "chk_pnote", "model leg (exp_note, imp_note) = pitch, velocity, ticks and seconds of the loaded performed notes for the notes given to save_match, with and without stored ticks (every leg, fixtures saved again)"),
            ("pedal", pd_terms, pd_cases, "chk_pedal", "model ped_roundtrip = controls of the loaded performance for the controls given to save_match (every leg, fixtures saved again)"),
            ("attrs_export", ax_terms, ax_cases, "chk_attrs_export", "model exp_attrs = attribute list of every score note line written by matchfile_from_alignment for the voice, staff, articulations, ornaments, fermata, fingerings, grace flag of the note given (every leg)"),
            ("attrs_import", ai_terms, ai_cases, "chk_attrs_import", "model imp_attrs on the attribute lists of the file = voice and staff (where written), staccato, accent, grace of the notes loaded by part_from_matchfile (every leg)"),
            ("layout", ly_terms, ly_cases, "chk_layout", "model sig_rows / place / spans on the signature rows and note lines of the file = time signatures, key signatures and measures (positions in divisions) of the part loaded by part_from_matchfile (every leg)"),
            ("sig_export", sx_terms, sx_cases, "chk_sig_export", "model sig_meas = measure number written on every timeSignature / keySignature line for the signatures of the part given to save_match (every leg)"),
            ("pids", id_terms, id_cases, "chk_pid", "model fmt_pid / pid_leg = performed-note id on the line of the file and in the loaded alignment for the id given in the alignment (every leg)"),
            ("defined", df_terms, df_cases, "chk_defined", "model save_defined (a match entry pairs a performed note with a score note that has a duration) = save_match succeeded (every leg; boundary of the known finding C08-K1)"),
            ("header", hd_terms, hd_cases, "chk_header", "model header_of / info / load_perf (Model/C08_file.v) = clock lines of the file written by save_match for the optional texts and the clock given or left out, clock of the loaded performance, ticks and seconds of the first notes read with the clock FOUND IN THE FILE"),
            ("file_clock", fc_terms, fc_cases, "chk_file_clock", "model clock_of / load_perf / first_at_zero on the info and note lines of a file = clock, ticks and seconds of the performance loaded from it (written files with the clock lines moved behind the notes; first_note_at_zero; fixture files)"),
            ("reader", rd_terms, rd_labels, "chk_reader", "model validate(unique_first(lines)) = note lines returned by load_matchfile (written, stressed and fixture files)"),
            ("alignment", al_terms, rd_labels, "chk_alignment", "model alignment_of = alignment_from_matchfile"),
            ("phist", ph_terms, ph_cases, "chk_phist", "state machine hobs (Model/C08_Hist.v: notes moved / replaced / appended / deleted, velocity and the part's clock attributes changed between saves with any clocks, notes with and without stored ticks) = played-note fields written by every save_match of a history on ONE live PerformedPart"),
            ("mhist", mh_terms, mh_cases, "chk_mhist", "state machine mobs (lines deleted from MatchFile.lines, validate_match_ids run again between the calls) = alignment_from_matchfile(mf) and the ids of mf.notes at every call of a history on ONE live MatchFile"),
            # informational: the staff / voice CHOSEN for notes written without one (not named by the property)
            ("attrs_fill", ai_terms[:120 if quick else 1500], ai_cases[:120 if quick else 1500], "chk_attrs_fill", None),
            # informational: the TEXTS of the header (performer, piece, ... "-" when not given; not named by the property)
            ("header_texts", hd_terms, hd_cases, "chk_header_texts", None),
            # informational: files with a second clock line (the model takes the first, as MatchFile.info does) or without one
            ("file_clock_info", fi_terms, [None] * len(fi_terms), "chk_file_clock", None)]
    # all streams are evaluated together: every case is the boolean  checker term ; the cases are dealt to
    # 2 * VERIF_JOBS files of about the same text size (parsing the literals is what costs)
    flat = [(len(t), si, k) for si, st in enumerate(streams) for k, t in enumerate(st[1])]
    flat.sort(key=lambda x: (-x[0], x[1], x[2]))
    nb = max(1, min(2 * max(1, core.NJOBS), len(flat)))
    if not quick:
        nb = max(nb, -(-len(flat) // 1500))
    buckets = [[] for _ in range(nb)]
    for n, (ln, si, k) in enumerate(flat):
        r, pos = divmod(n, nb)
        buckets[pos if r % 2 == 0 else nb - 1 - pos].append((si, k))  # boustrophedon: balanced sizes
    width = max(len(b) for b in buckets) if flat else 0
    order, bools = [], []
    for b in buckets:
        for si, k in b:
            order.append((si, k))
            bools.append("(%s %s)" % (streams[si][3], streams[si][1][k]))
        for _ in range(width - len(b)):
            order.append(None)
            bools.append("true")
    failing_by = {si: [] for si in range(len(streams))}
    try:
        for idx in (ctx.coq_failing("all", IMPORTS, DEFS, bools, "(fun b : bool => b)", shard=max(1, width)) if bools else []):
            if order[idx] is not None:
                failing_by[order[idx][0]].append(order[idx][1])
        machinery = None
    except RuntimeError as e:
        machinery = str(e)
    for si, (name, terms, cases, checker, what) in enumerate(streams):
        failing = sorted(failing_by[si])
        if what is None:
            if machinery is None and name == "attrs_fill":
                ctx.count("info:files_where_chosen_voice_or_staff_differs_from_model", len(failing))
                ctx.count("info:files_compared_for_chosen_voice_or_staff", len(terms))
            elif machinery is None and name == "file_clock_info":
                ctx.count("info:disturbed_headers_where_loader_differs_from_model", len(failing))
                ctx.count("info:disturbed_headers_compared", len(terms))
            elif machinery is None:
                ctx.count("info:files_where_header_texts_differ_from_model", len(failing))
                ctx.count("info:files_compared_for_header_texts", len(terms))
            continue
        if machinery is not None:
            ctx.obligation("correspondence: %s" % what, False, machinery[-800:])
            if si == 0:
                ctx.violation("correspondence machinery failed: %s" % machinery[-600:], {"name": "all"}, no_input=True)
            continue
        ctx.obligation("correspondence: %s (%d terms)" % (what, len(terms)), not failing, failing[:5])
        ctx.log("correspondence %s: %d terms, %d failing" % (name, len(terms), len(failing)))
        for k in failing[:3]:
            c = cases[k]
            ctx.violation("model and implementation disagree (%s): %s" % (name, what),
                          dict(clause="correspondence:" + name, case=c if isinstance(c, dict) else None, label=None if isinstance(c, dict) else c,
                               term=terms[k][:3000]))
    ctx.extra["exhaustive"] = False


def replay(obj):
    r = obj.get("replay", obj)
    print(json.dumps({k: v for k, v in obj.items() if k != "replay"}, indent=1, default=str)[:2000])
    if isinstance(r, dict) and r.get("case") and r["case"].get("kind") == "history":
        r = r["case"]
    if isinstance(r, dict) and r.get("kind") == "history":
        wd = os.path.join(core.WORKROOT, "C08_replay")
        bad, _, counts = history_guarded(r, wd, "replay")
        for s_ in ("A", "B"):
            c = r.get(s_)
            if c:
                print("slot %s: divs=%s tsigs=%s ksigs=%s bounds=%s pclock=%s notes=%s pnotes=%s alignment=%s controls=%d" % (
                    s_, c["divs"], c["tsigs"], c["ksigs"], c["bounds"], c.get("pclock"),
                    [(n["id"], n["on"], n["dur"], n["voice"], n["staff"], n["arts"]) for n in c["notes"]][:12],
                    [(p["id"], p["pitch"], float(Fraction(p["on"])), float(Fraction(p["off"])), p.get("on_tick")) for p in c["pnotes"]][:12],
                    [(a["label"], a.get("score_id"), a.get("performance_id")) for a in c["alignment"]][:12], len(c["controls"])))
        for k, op in enumerate(r["ops"]):
            print("op %d: %s" % (k, json.dumps(op, sort_keys=True)[:400]))
            for b in bad:
                if b[0] == k:
                    print("   VIOLATED %s: %s" % (b[1], b[2]))
        import shutil
        shutil.rmtree(wd, ignore_errors=True)
    elif isinstance(r, dict) and r.get("case"):
        case = r["case"]
        wd = os.path.join(core.WORKROOT, "C08_replay")
        bad, chain = run_guarded(case, wd, "replay")
        print("case: divs=%s tsigs=%s ksigs=%s bounds=%s pickup=%s ppq=%s mpq=%s pclock=%s legs=%s notes=%d pnotes=%d" % (
            case["divs"], case["tsigs"], case["ksigs"], case["bounds"], case["pickup"], case["ppq"], case["mpq"],
            case.get("pclock"), case.get("legs"), len(case["notes"]), len(case["pnotes"])))
        for k, (c, obs) in enumerate(chain):
            print("leg %d: save_match(ppq=%s, mpq=%s) status: %s %s" % (k + 1, c["ppq"], c["mpq"], obs["status"], obs.get("error", "")))
            for p in c["pnotes"][:8]:
                print("  given note", p)
            for ln in obs.get("text_lines", [])[:60]:
                print("  |", ln)
            for n in (obs.get("perf") or {}).get("notes", [])[:8]:
                print("  loaded note", dict(n, on=float(Fraction(n["on"])), off=float(Fraction(n["off"]))))
        for b in bad:
            print("VIOLATED leg %d %s: %s" % b)
        import shutil
        shutil.rmtree(wd, ignore_errors=True)
    elif isinstance(r, dict) and r.get("clause") == "fixture_resave":
        wd = os.path.join(core.WORKROOT, "C08_replay")
        path = os.path.join(core.REPO, "tests", "data", "match", r["fixture"])
        for clock, fbad, _, _, text_lines in fixture_resave(r["fixture"], path, [tuple(c) for c in r["clocks"]], wd, want_terms=False):
            print("fixture %s saved again with ppq=%d mpq=%d:" % ((r["fixture"],) + tuple(clock)))
            for ln in text_lines[:14]:
                print("  |", ln)
            for b in fbad[:10]:
                print("VIOLATED %s: %s" % b)
        import shutil
        shutil.rmtree(wd, ignore_errors=True)
    elif isinstance(r, dict) and r.get("file_text"):
        print("\n".join(r["file_text"][:80]))
        print(r.get("message"))
    else:
        print(json.dumps(r, indent=1, default=str)[:3000])
    return 0
