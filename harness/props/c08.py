"""C08 -- saving an alignment as a match file and loading it returns the same data.

Structure (CONVENTIONS section 2):
  gen_case(rng, size)      structured generator of (score, performance, alignment, ppq, mpq) cases
  build_objects(case)      -> partitura Part, PerformedPart, alignment list
  run_impl(case, workdir)  save_match -> file -> load_match(create_score=True); collects observables
  oracle(case, obs)        direct oracle: the statement of C08 on the observables (pure Python)
  model terms              the same numbers printed as Coq terms, checked by Model/C08.v (correspondence)
  fixtures                 every match file under tests/data/match: no note line lost / duplicated,
                           documented duplicate-id resolution, model's reading of the id table
"""
import json
import math
import os
import warnings
from fractions import Fraction

import core
from core import cz, cq, cstr, clist, ctuple, copt, cbool

# ----------------------------------------------------------------------------
# generator

DIVS_GRIDS = [  # (divisions per quarter, admissible grid steps) -- reduced offsets keep denominators <= 1024
    (1, [1]), (2, [1]), (3, [1]), (4, [1, 2]), (6, [1, 2, 3]), (8, [1, 2]), (12, [1, 2, 3, 4]),
    (16, [1, 2, 4]), (24, [1, 2, 3, 4, 6]), (48, [2, 3, 4, 6, 12]), (96, [3, 4, 6, 12, 24]),
    (480, [10, 20, 30, 40, 60, 120]),
]
METERS = [(2, 4), (3, 4), (4, 4), (5, 4), (3, 8), (6, 8), (9, 8), (12, 8), (2, 2), (7, 8), (6, 4), (3, 2), (5, 8)]
PAIRS = [(480, 500000), (96, 600000), (1000, 333333), (384, 250000), (960, 1000000), (220, 428571), (480, 461538)]
STEPS = ["C", "D", "E", "F", "G", "A", "B"]
BASE = {"C": 0, "D": 2, "E": 4, "F": 5, "G": 7, "A": 9, "B": 11}
ARTS = ["staccato", "accent", "tenuto", "marcato", "breath-mark"]
SUPPORTED_ARTS = ("staccato", "accent")


def measure_len(divs, num, den):
    x = Fraction(num * 4 * divs, den)
    return int(x) if x.denominator == 1 else None


def gen_case(rng, size=1.0):
    """One case as a JSON-serialisable dict (times in divisions / seconds as exact fractions 'a/b')."""
    divs, grids = rng.choice(DIVS_GRIDS)
    g = rng.choice(grids)
    meters = [m for m in METERS if measure_len(divs, *m) is not None and measure_len(divs, *m) % g == 0]
    if not meters:
        g = 1
        meters = [m for m in METERS if measure_len(divs, *m) is not None]
    nmeas = rng.randint(1, max(1, int(6 * size)))
    # time signatures: (measure index, num, den)
    tsigs = [[0] + list(rng.choice(meters))]
    r = rng.random()
    nchg = 0 if r < 0.45 else 1 if r < 0.8 else 2
    for mi in sorted(rng.sample(range(1, nmeas), min(nchg, nmeas - 1))) if nmeas > 1 else []:
        cand = [m for m in meters if list(m) != tsigs[-1][1:]]
        if cand:
            tsigs.append([mi] + list(rng.choice(cand)))
    # measure table
    starts, tsm = [], []
    t = 0
    cur = None
    pickup = 0
    for mi in range(nmeas):
        for ts in tsigs:
            if ts[0] == mi:
                cur = ts
        full = measure_len(divs, cur[1], cur[2])
        ln = full
        if mi == 0 and nmeas > 1 and rng.random() < 0.35 and full // g >= 2:
            ln = g * rng.randint(1, full // g - 1)
            pickup = ln
        starts.append(t)
        tsm.append((cur[1], cur[2]))
        t += ln
    end = t
    bounds = starts + [end]
    # key signatures (measure index, fifths, mode)
    ksigs = []
    if rng.random() < 0.85:
        ksigs.append([0, rng.randint(-7, 7), rng.choice(["major", "minor"])])
    for mi in range(1, nmeas):
        if rng.random() < 0.2:
            k = [mi, rng.randint(-7, 7), rng.choice(["major", "minor"])]
            if not ksigs or ksigs[-1][1:] != k[1:]:
                ksigs.append(k)
    # notes
    id_style = rng.choice(["n", "s", "m", "n"])
    with_vs = rng.random() < 0.9  # voices and staves given
    notes = []
    nid = 0
    used = set()  # (onset, midi pitch) -> avoid accidental unisons except on purpose
    for mi in range(nmeas):
        ms, me = bounds[mi], bounds[mi + 1]
        slots = (me - ms) // g
        nev = rng.randint(1, max(1, min(slots, int(1 + 4 * size))))
        first_on_bar = (mi == 0 and pickup) or rng.random() < 0.65
        offs = sorted(rng.sample(range(slots), min(nev, slots)))
        if first_on_bar:
            offs[0] = 0
            offs = sorted(set(offs))
        for k in offs:
            on = ms + k * g
            chord = 1 if rng.random() < 0.7 else rng.randint(2, 3)
            voice = rng.randint(1, 4)
            if rng.random() < 0.12:  # a grace note in front of the event
                st = rng.choice(STEPS)
                notes.append(dict(id=nid, step=st, alter=rng.choice([0, 0, 1, -1]), octave=rng.randint(2, 6), on=on, dur=0,
                                  voice=voice, staff=1 if voice <= 2 else 2, grace=True, arts=[], tie=[]))
                nid += 1
            for c in range(chord):
                for _try in range(6):
                    st, al, oc = rng.choice(STEPS), rng.choice([0, 0, 0, 1, -1, 2, -2, None]), rng.randint(1, 7)
                    mp = 12 * (oc + 1) + BASE[st] + (al or 0)
                    if (on, mp) not in used or rng.random() < 0.05:
                        break
                used.add((on, mp))
                maxd = (end - on) // g
                r = rng.random()
                if r < 0.75:
                    d = g * rng.randint(1, max(1, min(maxd, max(1, (me - on) // g))))
                else:
                    d = g * rng.randint(1, max(1, min(maxd, 2 * max(1, (bounds[min(mi + 1, nmeas - 1) + 1] - ms) // g))))
                d = min(d, end - on)
                # split at barlines (tied chain), sometimes an extra tie inside the bar
                cuts = [b for b in bounds if on < b < on + d]
                if not cuts and d >= 2 * g and rng.random() < 0.1:
                    cuts = [on + g * rng.randint(1, d // g - 1)]
                arts = [a for a in ARTS if rng.random() < 0.12]
                v = voice if c == 0 or rng.random() < 0.8 else rng.randint(1, 4)
                notes.append(dict(id=nid, step=st, alter=al, octave=oc, on=on, dur=d, voice=v, staff=1 if v <= 2 else 2,
                                  grace=False, arts=arts, tie=cuts))
                nid += 1
    if not with_vs:
        for n in notes:
            n["voice"] = None
            n["staff"] = None
    elif rng.random() < 0.2:
        for n in notes:
            n["staff"] = rng.randint(1, 3)

    def sid(k):
        return {"n": "n%d" % k, "s": "s%d" % k, "m": "P1-m%d" % k}[id_style]
    for n in notes:
        n["id"] = sid(n["id"])
    # performance
    ppq, mpq = rng.choice(PAIRS) if rng.random() < 0.8 else (rng.randint(24, 2000), rng.randint(200000, 1500000))
    tick = Fraction(mpq, 10 ** 6 * ppq)  # seconds per tick
    spq = Fraction(rng.randint(250, 1200), 1000)  # seconds per score quarter
    on_grid = rng.random() < 0.7
    pid_style = "n" if rng.random() < 0.85 else rng.choice(["p", "int"])
    pnotes, alignment = [], []
    pk = [0]
    busy = {}  # pitch -> list of (on, off) to avoid overlapping notes of one pitch (that is C14's subject)

    def q_time(x):
        """seconds (Fraction): on the tick grid, on an exact half tick, or a dyadic float off the grid"""
        x = max(Fraction(0), x)
        k = int(x / tick)
        if on_grid:
            return Fraction(float(k * tick))  # the float a MIDI loader would produce
        r = rng.random()
        if r < 0.15 and (mpq * (2 * k + 1)) % 1 == 0:
            return Fraction(float((k + Fraction(1, 2)) * tick))
        return Fraction(float(x))

    def new_pnote(pitch, t_on, length):
        on = q_time(t_on)
        off = q_time(on + max(length, 2 * tick))
        if off <= on:
            off = on + Fraction(float(2 * tick))
        for _ in range(40):
            if all(off <= a or on >= b for a, b in busy.get(pitch, [])):
                break
            pitch = 21 + (pitch - 21 + 1) % 88
        busy.setdefault(pitch, []).append((on, off))
        k = pk[0]
        pk[0] += 1
        pid = {"n": "n%d" % k, "p": "p%d" % k, "int": k}[pid_style]
        pnotes.append(dict(id=pid, pitch=pitch, on=str(on), off=str(off), vel=rng.randint(1, 127)))
        return pid

    r_non = rng.choice([0.0, 0.1, 0.2, 0.4])
    lead = Fraction(rng.randint(0, 2000), 1000)
    for n in notes:
        tq = Fraction(n["on"], divs) * spq + lead
        mp = 12 * (n["octave"] + 1) + BASE[n["step"]] + (n["alter"] or 0)
        mp = min(108, max(21, mp))
        if rng.random() < r_non * 0.6:
            alignment.append(dict(label="deletion", score_id=n["id"]))
        else:
            jit = Fraction(rng.randint(-30, 30), 1000)
            pid = new_pnote(mp, tq + jit, Fraction(max(n["dur"], 1), divs) * spq * Fraction(rng.randint(50, 110), 100))
            alignment.append(dict(label="match", score_id=n["id"], performance_id=pid))
        if rng.random() < r_non * 0.25:  # ornament notes anchored here
            for j in range(rng.randint(1, 3)):
                pid = new_pnote(min(108, mp + 1 + j % 2), tq + Fraction(20 * (j + 1), 1000), Fraction(15, 1000))
                alignment.append(dict(label="ornament", score_id=n["id"], performance_id=pid, type="trill"))
        if rng.random() < r_non * 0.4:
            pid = new_pnote(rng.randint(21, 108), tq + Fraction(rng.randint(0, 400), 1000), Fraction(rng.randint(20, 600), 1000))
            alignment.append(dict(label="insertion", performance_id=pid))
    rng.shuffle(alignment) if rng.random() < 0.5 else None
    # pedals
    total = Fraction(end, divs) * spq + lead + 1
    nped = rng.choice([0, 0, 1, 2, 5, 10, 25, 50])
    controls = []
    for i in range(nped):
        t = q_time(Fraction(rng.randint(0, int(total * 1000)), 1000))
        controls.append(dict(number=rng.choice([64, 64, 64, 67, 67, 1, 7]), time=str(t), value=rng.choice([0, 127, 64, 63, rng.randint(0, 127)])))
    return dict(divs=divs, grid=g, tsigs=tsigs, ksigs=ksigs, bounds=bounds, pickup=pickup, notes=notes,
                pnotes=pnotes, alignment=alignment, controls=controls, ppq=ppq, mpq=mpq)


# ----------------------------------------------------------------------------
# building partitura objects, running the implementation


def fmt_pid(pid):
    s = str(pid)
    return s if s.startswith("n") else "n" + s


def build_objects(case):
    from partitura import score
    from partitura.performance import PerformedPart

    divs = case["divs"]
    part = score.Part("P0", "generated", quarter_duration=divs)
    b = case["bounds"]
    for mi, num, den in case["tsigs"]:
        part.add(score.TimeSignature(num, den), b[mi])
    for mi, f, mode in case["ksigs"]:
        part.add(score.KeySignature(f, mode), b[mi])
    for mi in range(len(b) - 1):
        part.add(score.Measure(number=mi + 1), b[mi], b[mi + 1])
    for n in case["notes"]:
        kw = dict(step=n["step"], alter=n["alter"], octave=n["octave"], voice=n["voice"], staff=n["staff"])
        if n["grace"]:
            part.add(score.GraceNote(grace_type="acciaccatura", id=n["id"], **kw), n["on"], n["on"])
            continue
        pts = [n["on"]] + list(n["tie"]) + [n["on"] + n["dur"]]
        prev = None
        for i in range(len(pts) - 1):
            nid = n["id"] if i == 0 else "%s_t%d" % (n["id"], i)
            o = score.Note(id=nid, articulations=set(n["arts"]) if n["arts"] else None, **kw)
            part.add(o, pts[i], pts[i + 1])
            if prev is not None:
                prev.tie_next = o
                o.tie_prev = prev
            prev = o
    pn = [dict(id=p["id"], midi_pitch=p["pitch"], note_on=float(Fraction(p["on"])), note_off=float(Fraction(p["off"])),
               velocity=p["vel"]) for p in case["pnotes"]]
    ctrl = [dict(number=c["number"], time=float(Fraction(c["time"])), value=c["value"]) for c in case["controls"]]
    ppart = PerformedPart(notes=pn, id="PP", controls=ctrl, ppq=case["ppq"], mpq=case["mpq"])
    alignment = [dict(a) for a in case["alignment"]]
    return part, ppart, alignment


def fr(x):
    """float/np number -> exact Fraction string"""
    return str(Fraction(float(x)))


def observe_part(part):
    """Observables of a score part named by C08 (positions in beats as exact fractions of the float)."""
    from partitura import score

    bm = part.beat_map
    na = part.note_array(include_pitch_spelling=True, include_staff=True, include_grace_notes=True)
    notes = {}
    objs = {n.id: n for n in part.notes_tied}
    for r in na:
        o = objs[str(r["id"])]
        notes[str(r["id"])] = dict(
            onset_beat=fr(r["onset_beat"]), duration_beat=fr(r["duration_beat"]),
            onset_div=int(r["onset_div"]), duration_div=int(r["duration_div"]),
            step=str(r["step"]), alter=int(r["alter"]), octave=int(r["octave"]), pitch=int(r["pitch"]),
            voice=int(r["voice"]), staff=int(r["staff"]), grace=bool(r["is_grace"]),
            arts=sorted(a for a in (o.articulations or []) if a in SUPPORTED_ARTS))
    def by_pos(rows):
        rows = sorted(rows, key=lambda r: (float(r[0]),) + tuple(r[1:]))
        return [(fr(r[0]),) + tuple(r[1:]) for r in rows]
    meas = by_pos((bm(m.start.t), float(bm(m.end.t))) for m in part.iter_all(score.Measure))
    ts = by_pos((bm(t.start.t), int(t.beats), int(t.beat_type)) for t in part.iter_all(score.TimeSignature))
    ks = by_pos((bm(k.start.t), int(k.fifths), str(k.mode)) for k in part.iter_all(score.KeySignature))
    q = sorted(set(int(x) for x in part._quarter_durations))
    return dict(notes=notes, measures=meas, tsigs=ts, ksigs=ks, quarter_durations=q)


def observe_file(path):
    """The written file read back through the library's line parser (file-level view; line text is C07)."""
    from partitura.io.importmatch import load_matchfile
    from partitura.io.matchfile_base import BaseSnoteNoteLine, BaseDeletionLine, BaseInsertionLine, BaseOrnamentLine

    with warnings.catch_warnings():
        warnings.simplefilter("ignore")
        mf = load_matchfile(path)
    lines = []
    for ln in mf.lines:
        if isinstance(ln, BaseSnoteNoteLine):
            lines.append(("match", ln.snote, ln.note))
        elif isinstance(ln, BaseDeletionLine):
            lines.append(("deletion", ln.snote, None))
        elif isinstance(ln, BaseInsertionLine):
            lines.append(("insertion", None, ln.note))
        elif isinstance(ln, BaseOrnamentLine):
            lines.append(("ornament", ln.Anchor, ln.note))
    out = []
    for kind, s, n in lines:
        d = dict(kind=kind)
        if kind == "ornament":
            d["sid"] = str(s)
        elif s is not None:
            d.update(sid=str(s.Anchor), measure=int(s.Measure), beat=int(s.Beat),
                     off=[int(s.Offset.numerator), int(s.Offset.denominator), s.Offset.tuple_div],
                     dur=[int(s.Duration.numerator), int(s.Duration.denominator), s.Duration.tuple_div],
                     dur_add=s.Duration.add_components, oib=fr(s.OnsetInBeats), offib=fr(s.OffsetInBeats))
        if n is not None:
            d.update(pid=str(n.Id), pitch=int(n.MidiPitch), on=int(n.Onset), off_t=int(n.Offset), vel=int(n.Velocity))
        out.append(d)
    sp = []
    for ln in mf.lines:
        if getattr(ln, "Attribute", None) in ("timeSignature", "keySignature") and hasattr(ln, "Measure"):
            sp.append(dict(attr=ln.Attribute, measure=int(ln.Measure), beat=int(ln.Beat),
                           off=[int(ln.Offset.numerator), int(ln.Offset.denominator)], tib=fr(ln.TimeInBeats)))
    ped = [dict(number=64 if "ustain" in type(ln).__name__ else 67, time=int(ln.Time), value=int(ln.Value))
           for ln in mf.lines if hasattr(ln, "Time") and hasattr(ln, "Value") and not hasattr(ln, "Attribute")]
    return dict(lines=out, scoreprops=sp, pedals=ped, ppq=mf.info("midiClockUnits"), mpq=mf.info("midiClockRate"))


def run_impl(case, workdir, name="case"):
    """save_match -> file -> load_match(create_score=True).  Returns dict(status=..., ...)."""
    from partitura.io.exportmatch import save_match
    from partitura.io.importmatch import load_match

    os.makedirs(workdir, exist_ok=True)
    path = os.path.join(workdir, name + ".match")
    obs = dict(status="ok")
    with warnings.catch_warnings():
        warnings.simplefilter("ignore")
        try:
            part, ppart, alignment = build_objects(case)
            obs["orig"] = observe_part(part)
        except Exception as e:  # not the subject of C08 (construction of the inputs)
            return dict(status="build_error", error="%s: %s" % (type(e).__name__, e))
        try:
            save_match(alignment, ppart, part, out=path, mpq=case["mpq"], ppq=case["ppq"], assume_unfolded=True)
        except Exception as e:
            return dict(status="save_error", error="%s: %s" % (type(e).__name__, str(e)[:300]), orig=obs["orig"])
        with open(path) as f:
            obs["text_lines"] = f.read().splitlines()
        try:
            obs["file"] = observe_file(path)
        except Exception as e:
            return dict(status="load_error", error="load_matchfile %s: %s" % (type(e).__name__, str(e)[:300]), orig=obs["orig"])
        try:
            perf, al2, scr = load_match(path, create_score=True)
        except Exception as e:
            import traceback
            return dict(status="load_error", error="%s: %s | %s" % (type(e).__name__, str(e)[:300], traceback.format_exc()[-400:]),
                        orig=obs["orig"], file=obs["file"])
        obs["alignment"] = [dict((k, (v if isinstance(v, (str, int)) else [str(x) for x in v])) for k, v in a.items()) for a in al2]
        pp = perf[0]
        obs["perf"] = dict(
            ppq=int(pp.ppq), mpq=int(pp.mpq),
            notes=[dict(id=str(n["id"]), pitch=int(n["midi_pitch"]), vel=int(n["velocity"]),
                        on_tick=int(n["note_on_tick"]), off_tick=int(n["note_off_tick"]),
                        on=fr(n["note_on"]), off=fr(n["note_off"])) for n in pp.notes],
            controls=[dict(number=int(c["number"]), time=fr(c["time"]), value=int(c["value"])) for c in pp.controls])
        try:
            obs["loaded"] = observe_part(scr[0])
        except Exception as e:
            return dict(status="load_error", error="observing loaded part %s: %s" % (type(e).__name__, str(e)[:300]), orig=obs["orig"])
    try:
        os.remove(path)
    except OSError:
        pass
    return obs


# ----------------------------------------------------------------------------
# direct oracle


def rhe(x):
    f = math.floor(x)
    r = x - f
    if r < Fraction(1, 2):
        return f
    if r > Fraction(1, 2):
        return f + 1
    return f if f % 2 == 0 else f + 1


def near_tie(case, t):
    """exact tick value within 2^-20 of .5 but not on it, or an exact tie whose float product is inexact"""
    ppq, mpq = case["ppq"], case["mpq"]
    exact = Fraction(10 ** 6) * ppq * t / mpq
    frac = exact - math.floor(exact)
    d = abs(frac - Fraction(1, 2))
    if d != 0 and d < Fraction(1, 2 ** 20):
        return True
    fl = Fraction(1e6 * ppq * float(t) / mpq)
    return fl != exact and abs(fl - exact) >= d / 2 and d < Fraction(1, 2 ** 20)


def to_tick(case, t):
    return rhe(Fraction(10 ** 6) * case["ppq"] * t / case["mpq"])


def close(a, b, rel=Fraction(1, 10 ** 9), ab=Fraction(1, 10 ** 9)):
    a, b = Fraction(a), Fraction(b)
    return abs(a - b) <= ab + rel * abs(b)


def expected_alignment(case):
    out = []
    for a in case["alignment"]:
        if a["label"] == "match":
            out.append(("match", a["score_id"], fmt_pid(a["performance_id"])))
        elif a["label"] == "deletion":
            out.append(("deletion", a["score_id"], None))
        elif a["label"] == "insertion":
            out.append(("insertion", None, fmt_pid(a["performance_id"])))
        else:
            out.append(("ornament", a["score_id"], fmt_pid(a["performance_id"])))
    return sorted(out, key=str)


def oracle(case, obs):
    """Return a list of (clause, message) for every clause of C08 the observables violate."""
    bad = []
    if obs["status"] != "ok":
        return [(obs["status"], obs.get("error", ""))]
    # O1 alignment
    got = sorted(((a["label"], a.get("score_id"), a.get("performance_id")) for a in obs["alignment"]), key=str)
    exp = expected_alignment(case)
    if got != exp:
        miss = [x for x in exp if x not in got][:3]
        extra = [x for x in got if x not in exp][:3]
        bad.append(("alignment", "alignment differs: missing %s extra %s (%d vs %d entries)" % (miss, extra, len(exp), len(got))))
    # O2 performance
    P = obs["perf"]
    if P["ppq"] != case["ppq"] or P["mpq"] != case["mpq"]:
        bad.append(("clock", "loaded performed part has ppq=%s mpq=%s, written with ppq=%s mpq=%s" % (P["ppq"], P["mpq"], case["ppq"], case["mpq"])))
    tick = Fraction(case["mpq"], 10 ** 6 * case["ppq"])
    lp = {}
    for n in P["notes"]:
        if n["id"] in lp:
            bad.append(("perf_dup", "performed note %s loaded twice" % n["id"]))
        lp[n["id"]] = n
    for p in case["pnotes"]:
        pid = fmt_pid(p["id"])
        n = lp.pop(pid, None)
        if n is None:
            bad.append(("perf_lost", "performed note %s is not in the loaded performance" % pid))
            continue
        if n["pitch"] != p["pitch"] or n["vel"] != p["vel"]:
            bad.append(("perf_note", "note %s pitch/velocity %s/%s, written %s/%s" % (pid, n["pitch"], n["vel"], p["pitch"], p["vel"])))
        for key, tk, sk in (("on", "on_tick", "on"), ("off", "off_tick", "off")):
            t = Fraction(p[key])
            if near_tie(case, t):
                continue
            et = to_tick(case, t)
            if n[tk] != et:
                bad.append(("perf_tick", "note %s %s tick %d, expected %d (t=%s s)" % (pid, key, n[tk], et, float(t))))
            elif not close(n[sk], et * tick):
                bad.append(("perf_sec", "note %s %s = %s s, expected tick %d = %s s" % (pid, key, float(Fraction(n[sk])), et, float(et * tick))))
            elif abs(Fraction(n[sk]) - t) > tick / 2 + Fraction(1, 10 ** 9):
                bad.append(("perf_sec", "note %s %s = %s s is more than half a tick from the written %s s" % (pid, key, float(Fraction(n[sk])), float(t))))
    for pid in sorted(lp):
        bad.append(("perf_extra", "loaded performance has an extra note %s" % pid))
    for num in (64, 67):
        exp_c, seen = [], set()
        for c in case["controls"]:
            if c["number"] != num:
                continue
            t = Fraction(c["time"])
            if near_tie(case, t):
                exp_c = None
                break
            key = (to_tick(case, t), c["value"])
            if key not in seen:  # an exact repetition of an event is one line of the file
                seen.add(key)
                exp_c.append(key)
        if exp_c is None:
            continue
        exp_c.sort(key=lambda x: x[0])
        got_c = [(c["time"], c["value"]) for c in P["controls"] if c["number"] == num]
        if len(got_c) != len(exp_c) or any(v != ev or not close(t, et * tick) for (t, v), (et, ev) in zip(got_c, exp_c)):
            bad.append(("pedal", "controller %d events differ: got %s expected (tick,value) %s" % (num, [(float(Fraction(t)), v) for t, v in got_c][:6], exp_c[:6])))
    others = [c for c in P["controls"] if c["number"] not in (64, 67)]
    if others:
        bad.append(("pedal", "loaded performance has controls other than 64/67: %s" % others[:3]))
    # O3 score
    O, L = obs["orig"], obs["loaded"]
    if len(L["quarter_durations"]) != 1:
        bad.append(("score_divs", "loaded part has quarter durations %s" % L["quarter_durations"]))
    on = dict(O["notes"])
    for nid in sorted(L["notes"]):
        ln = L["notes"][nid]
        o = on.pop(nid, None)
        if o is None:
            bad.append(("score_extra", "loaded score has a note %s that was not written" % nid))
            continue
        for k in ("onset_beat", "duration_beat"):
            if not close(ln[k], o[k], rel=0, ab=Fraction(1, 10 ** 6)):
                bad.append(("score_" + k, "note %s %s = %s, written %s" % (nid, k, float(Fraction(ln[k])), float(Fraction(o[k])))))
        for k in ("step", "alter", "octave", "grace", "arts"):
            if ln[k] != o[k]:
                bad.append(("score_" + k, "note %s %s = %r, written %r" % (nid, k, ln[k], o[k])))
    for nid in sorted(on):
        bad.append(("score_lost", "score note %s is not in the loaded score" % nid))
    given = {n["id"]: n for n in case["notes"]}
    for nid, ln in L["notes"].items():
        g = given.get(nid)
        if g is None:
            continue
        if g["voice"] is not None and ln["voice"] != g["voice"]:
            bad.append(("score_voice", "note %s voice %s, written %s" % (nid, ln["voice"], g["voice"])))
        if g["staff"] is not None and ln["staff"] != g["staff"]:
            bad.append(("score_staff", "note %s staff %s, written %s" % (nid, ln["staff"], g["staff"])))

    def same_pos(a, b):
        return len(a) == len(b) and all(close(x[0], y[0], rel=0, ab=Fraction(1, 10 ** 6)) and tuple(x[1:]) == tuple(y[1:]) for x, y in zip(a, b))

    def fl(rows):
        return [tuple([float(Fraction(r[0]))] + list(r[1:])) for r in rows]
    om = [(a, float(b)) for a, b in O["measures"]]
    lm = [(a, float(b)) for a, b in L["measures"]]
    if not (len(om) == len(lm) and all(close(x[0], y[0], rel=0, ab=Fraction(1, 10 ** 6)) and abs(x[1] - y[1]) < 1e-6 for x, y in zip(lm, om))):
        bad.append(("measures", "measures (start,end in beats) loaded %s, written %s" % (fl(lm), fl(om))))
    if not same_pos(L["tsigs"], O["tsigs"]):
        bad.append(("tsigs", "time signatures loaded %s, written %s" % (fl(L["tsigs"]), fl(O["tsigs"]))))
    if not same_pos([k[:1] for k in L["ksigs"]], [k[:1] for k in O["ksigs"]]):
        bad.append(("ksig_pos", "key signatures loaded at %s, written at %s" % (fl(L["ksigs"]), fl(O["ksigs"]))))
    elif not same_pos(L["ksigs"], O["ksigs"]):
        bad.append(("ksig_value", "key signatures loaded %s, written %s" % (fl(L["ksigs"]), fl(O["ksigs"]))))
    return bad
