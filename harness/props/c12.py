"""C12 -- pitch, key, duration and time-unit conversions are mutually consistent.

Tie to the source: T2 (complete tabulation of the real functions on the finite
domains the property names, regenerated into coq/Gen/C12_Tab.v on every run and
re-checked in the kernel by Proofs/C12.v) + reflected constant tables
(Gen/C12_Tables.v) + correspondence of the hand model of the seconds<->ticks
conversion on sampled (ppq, mpq, time) triples, scalars and numpy arrays.
"""
import itertools
import math
from fractions import Fraction

import core
from core import cz, cq, cstr, clist, ctuple, copt

STEPS7 = ["C", "D", "E", "F", "G", "A", "B"]
MODES = [("major", '"major"'), ("minor", '"minor"'), (None, "None"), ("none", '"none"'),
         (1, "1"), (-1, "-1"), ("dorian", '"dorian"'), (0, "0"), ("Major", '"Major"')]
QUALS = ["dd", "d", "m", "M", "P", "A", "AA"]
ALT_SPELL = [("", 0), ("#", 1), ("##", 2), ("x", 2), ("###", 3), ("b", -1), ("bb", -2), ("bbb", -3)]


def _try(f, *a, **k):
    try:
        return ("ok", f(*a, **k))
    except Exception as e:  # any rejection counts as "rejected"
        return ("err", type(e).__name__)


def tabulate():
    """Run the real functions over the whole finite domains.  Returns a dict of tables."""
    import numpy as np
    import partitura.utils.music as M
    import partitura.utils.globals as G
    import partitura.score as S

    T = {}
    # O1 ---------------------------------------------------------------
    rows = []
    for st, al, oc in itertools.product(STEPS7, range(-3, 4), range(-1, 10)):
        rows.append(((st, al, oc), _try(M.pitch_spelling_to_midi_pitch, st, al, oc)))
    # lower-case steps and alter None are accepted too
    for st in STEPS7:
        rows.append(((st.lower(), 0, 4), _try(M.pitch_spelling_to_midi_pitch, st.lower(), 0, 4)))
    T["ps_to_midi"] = rows
    T["ps_to_midi_none"] = [((st, oc), _try(M.pitch_spelling_to_midi_pitch, st, None, oc)) for st in STEPS7 for oc in (-1, 4, 9)]
    T["midi_to_ps"] = [(m, _try(M.midi_pitch_to_pitch_spelling, m)) for m in range(0, 128)]
    T["note_name"] = [((st, al, oc), _try(M.pitch_spelling_to_note_name, st, al, oc))
                      for st, al, oc in itertools.product(STEPS7, range(-3, 4), range(-1, 10))]
    names = sorted({r[1] for _, r in T["note_name"] if r[0] == "ok"})
    T["name_parse"] = [(n, _try(M.note_name_to_pitch_spelling, n), _try(M.note_name_to_midi_pitch, n)) for n in names]
    # every accidental spelling the grammar [A-G][xb#]*digits admits with a defined meaning, multi-digit octaves too
    T["name_alt"] = [((st, ai, oc), _try(M.note_name_to_pitch_spelling, st + ALT_SPELL[ai][0] + str(oc)),
                      _try(M.note_name_to_midi_pitch, st + ALT_SPELL[ai][0] + str(oc)))
                     for st, ai, oc in itertools.product(STEPS7, range(len(ALT_SPELL)), [0, 1, 4, 9, 10, 12])]
    # O2 ---------------------------------------------------------------
    T["key_name"] = [((f, mi), _try(M.fifths_mode_to_key_name, f, MODES[mi][0]))
                     for f in range(-12, 13) for mi in range(len(MODES))]
    keynames = sorted({r[1] for (f, mi), r in T["key_name"] if r[0] == "ok" and -7 <= f <= 7})
    T["key_parse"] = [(n, _try(M.key_name_to_fifths_mode, n)) for n in keynames]
    # O6 ---------------------------------------------------------------
    T["mode_int"] = [(mi, _try(M.key_mode_to_int, MODES[mi][0])) for mi in range(len(MODES))]
    T["int_mode"] = [(mi, _try(M.key_int_to_mode, MODES[mi][0])) for mi in range(len(MODES))]
    T["clef"] = [(s, _try(M.clef_sign_to_int, s)) for s in list(G.CLEF_TO_INT.keys()) + ["X"]]
    T["clef_back"] = [(i, _try(M.clef_int_to_sign, i)) for i in range(-1, len(G.CLEF_TO_INT) + 1)]
    # O3 ---------------------------------------------------------------
    T["interval"] = []
    for num, q, d in itertools.product(range(1, 9), QUALS, ("up", "down")):
        def sem(num=num, q=q, d=d):
            return S.Interval(num, q, d).semitones
        T["interval"].append(((num, q, d), _try(sem)))
    T["intervalclasses"] = list(G.INTERVALCLASSES)
    units = list(G.LABEL_DURS.keys())
    T["tempo"] = [((u, k), _try(M.to_quarter_tempo, u + "." * k, 1)) for u in units for k in range(0, 4)]
    tup = [(None, None), (3, 2), (5, 4), (6, 4), (7, 4), (2, 3), (7, 8)]
    T["symdur"] = []
    for u, k, (an, nn) in itertools.product(units, range(0, 4), tup):
        sd = {"type": u, "dots": k}
        if an:
            sd["actual_notes"], sd["normal_notes"] = an, nn
        for divs in (1, 12, 480):
            T["symdur"].append(((u, k, an or 1, nn or 1, divs), _try(M.symbolic_to_numeric_duration, sd, divs)))
    T["label_durs"] = [(u, G.LABEL_DURS[u]) for u in units]
    T["dot_mult"] = list(G.DOT_MULTIPLIERS)
    # O5 ---------------------------------------------------------------
    def rt(m, a4):
        return int(M.frequency_to_midi_pitch(M.midi_pitch_to_frequency(m, a4), a4))
    T["freq"] = [((m, a4), _try(rt, m, a4)) for m in range(0, 128) for a4 in (440.0, 415.0, 442.0)]
    # value of the frequency itself (equal temperament: a4/32 * 2^((m-9)/12)) and nearest-semitone rounding
    T["freq_val"] = [((m, a4), _try(lambda m=m, a4=a4: float(M.midi_pitch_to_frequency(m, a4)))) for m in range(0, 128) for a4 in (440.0, 415.0)]
    def off(m, k):
        f = M.midi_pitch_to_frequency(m) * 2.0 ** (k / 120.0)
        return int(M.frequency_to_midi_pitch(f))
    T["freq_off"] = [((m, k), _try(off, m, k)) for m in range(0, 128) for k in (-4, 4)]
    T["freq_a4"] = _try(M.midi_pitch_to_frequency, 69)
    T["freq_arr"] = _try(lambda: [int(x) for x in M.frequency_to_midi_pitch(M.midi_pitch_to_frequency(np.arange(128)))])
    return T


def _res(r, pr):
    return "(Some %s)" % pr(r[1]) if r[0] == "ok" else "None"


def _ps(t):
    st, al, oc = t
    return ctuple([cstr(str(st)), copt(al, cz), copt(oc, cz)])


def _ps3(t):
    st, al, oc = t
    return ctuple([cstr(str(st)), cz(al), cz(oc)])


def gen(T=None):
    """Write Gen/C12_Tab.v (function graphs) from the live implementation."""
    core.setup_import_path()
    if T is None:
        T = tabulate()
    L = ["(* GENERATED by harness/props/c12.py from the working tree -- do not edit *)",
         "From Coq Require Import ZArith QArith List String.", "Import ListNotations.", "Open Scope Z_scope.", ""]

    def deff(name, ty, items):
        L.append("Definition %s : list (%s) := [\n  %s\n]." % (name, ty, ";\n  ".join(items) if items else ""))

    deff("tab_ps_to_midi", "(string * Z * Z) * option Z",
         [ctuple([_ps3(k), _res(r, cz)]) for k, r in T["ps_to_midi"]])
    deff("tab_ps_to_midi_none", "(string * Z) * option Z",
         [ctuple([ctuple([cstr(k[0]), cz(k[1])]), _res(r, cz)]) for k, r in T["ps_to_midi_none"]])
    deff("tab_midi_to_ps", "Z * option (string * option Z * option Z)",
         [ctuple([cz(k), _res(r, _ps)]) for k, r in T["midi_to_ps"]])
    deff("tab_note_name", "(string * Z * Z) * option string",
         [ctuple([_ps3(k), _res(r, cstr)]) for k, r in T["note_name"]])
    deff("tab_name_parse", "string * option (string * option Z * option Z) * option Z",
         [ctuple([cstr(n), _res(r, _ps), _res(m, cz)]) for n, r, m in T["name_parse"]])
    deff("tab_name_alt", "(string * Z * Z) * (option (string * option Z * option Z) * option Z)",
         [ctuple([ctuple([cstr(st), cz(ALT_SPELL[ai][1]), cz(oc)]), ctuple([_res(r, _ps), _res(m, cz)])]) for (st, ai, oc), r, m in T["name_alt"]])
    deff("tab_key_name", "(Z * Z) * option string",
         [ctuple([ctuple([cz(f), cz(mi)]), _res(r, cstr)]) for (f, mi), r in T["key_name"]])
    deff("tab_key_parse", "string * option (Z * string)",
         [ctuple([cstr(n), _res(r, lambda v: ctuple([cz(v[0]), cstr(v[1])]))]) for n, r in T["key_parse"]])
    deff("tab_mode_int", "Z * option Z", [ctuple([cz(mi), _res(r, cz)]) for mi, r in T["mode_int"]])
    deff("tab_int_mode", "Z * option string", [ctuple([cz(mi), _res(r, cstr)]) for mi, r in T["int_mode"]])
    deff("tab_clef", "string * option Z", [ctuple([cstr(s), _res(r, cz)]) for s, r in T["clef"]])
    deff("tab_clef_back", "Z * option string", [ctuple([cz(i), _res(r, cstr)]) for i, r in T["clef_back"]])
    deff("tab_interval", "(Z * string * bool) * option Z",
         [ctuple([ctuple([cz(n), cstr(q), "true" if d == "up" else "false"]), _res(r, cz)]) for (n, q, d), r in T["interval"]])
    deff("tab_intervalclasses", "string", [cstr(s) for s in T["intervalclasses"]])
    deff("tab_tempo", "(string * Z) * option Q",
         [ctuple([ctuple([cstr(u), cz(k)]), _res(r, lambda v: cq(Fraction(v)))]) for (u, k), r in T["tempo"]])
    deff("tab_symdur", "(string * Z * Z * Z * Z) * option Q",
         [ctuple([ctuple([cstr(u), cz(k), cz(an), cz(nn), cz(dv)]), _res(r, lambda v: cq(Fraction(v)))])
          for (u, k, an, nn, dv), r in T["symdur"]])
    deff("tab_label_durs", "string * Q", [ctuple([cstr(u), cq(Fraction(v))]) for u, v in T["label_durs"]])
    deff("tab_dot_mult", "Q", [cq(Fraction(v)) for v in T["dot_mult"]])
    deff("tab_freq", "(Z * Z) * option Z",
         [ctuple([ctuple([cz(m), cz(int(a4))]), _res(r, cz)]) for (m, a4), r in T["freq"]])
    deff("tab_freq_off", "(Z * Z) * option Z",
         [ctuple([ctuple([cz(m), cz(k)]), _res(r, cz)]) for (m, k), r in T["freq_off"]])
    L.append("Definition mode_spellings : list (Z * string) := [%s]." %
             "; ".join(ctuple([cz(i), cstr(str(MODES[i][1]).strip('"'))]) for i in range(len(MODES))))
    core.write_gen("C12_Tab", "\n".join(L) + "\n")
    return T


# ----------------------------------------------------------------------------
# Python mirror of the table predicates (used to name a concrete failing input)

BASE = {"C": 0, "D": 2, "E": 4, "F": 5, "G": 7, "A": 9, "B": 11}
MAJ = ["Cb", "Gb", "Db", "Ab", "Eb", "Bb", "F", "C", "G", "D", "A", "E", "B", "F#", "C#"]
MIN = ["Ab", "Eb", "Bb", "F", "C", "G", "D", "A", "E", "B", "F#", "C#", "G#", "D#", "A#"]
LAB = {"long": 16, "breve": 8, "whole": 4, "half": 2, "h": 2, "quarter": 1, "q": 1, "eighth": Fraction(1, 2),
       "e": Fraction(1, 2), "16th": Fraction(1, 4), "32nd": Fraction(1, 8), "64th": Fraction(1, 16),
       "128th": Fraction(1, 32), "256th": Fraction(1, 64)}


def interval_semitones_spec(num, q):
    """Defined size of interval class q+num (num 1..7), None when not a class."""
    perfect = num in (1, 4, 5)
    major = {1: 0, 2: 2, 3: 4, 4: 5, 5: 7, 6: 9, 7: 11}[num]
    if perfect:
        off = {"dd": -2, "d": -1, "P": 0, "A": 1, "AA": 2}.get(q)
    else:
        off = {"dd": -3, "d": -2, "m": -1, "M": 0, "A": 1, "AA": 2}.get(q)
    return None if off is None else major + off


def oracle(T):
    """Yield (function, input, got, expected) for every table row violating C12."""
    bad = []
    for (st, al, oc), r in T["ps_to_midi"]:
        exp = ("ok", 12 * (oc + 1) + BASE[st.upper()] + al)
        if r != exp:
            bad.append(("pitch_spelling_to_midi_pitch", (st, al, oc), r, exp))
    for (st, oc), r in T["ps_to_midi_none"]:
        exp = ("ok", 12 * (oc + 1) + BASE[st] + 0)
        if r != exp:
            bad.append(("pitch_spelling_to_midi_pitch", (st, None, oc), r, exp))
    for m, r in T["midi_to_ps"]:
        ok = r[0] == "ok" and r[1][0] in BASE and r[1][1] in (0, 1) and 12 * (r[1][2] + 1) + BASE[r[1][0]] + r[1][1] == m
        if not ok:
            bad.append(("midi_pitch_to_pitch_spelling", m, r, "a spelling sounding %d" % m))
    nn = dict(T["note_name"])
    parse = {n: (r, m) for n, r, m in T["name_parse"]}
    seen = {}
    for (st, al, oc), r in T["note_name"]:
        if r[0] != "ok":
            bad.append(("pitch_spelling_to_note_name", (st, al, oc), r, "a name"))
            continue
        if r[1] in seen:
            bad.append(("pitch_spelling_to_note_name", (st, al, oc), r, "injective (also %s)" % (seen[r[1]],)))
        seen[r[1]] = (st, al, oc)
        if oc >= 0:  # the documented grammar has no sign: an inverse exists for octave >= 0
            pr, pm = parse[r[1]]
            if pr != ("ok", (st, al, oc)):
                bad.append(("note_name_to_pitch_spelling", r[1], pr, ("ok", (st, al, oc))))
            if pm != ("ok", 12 * (oc + 1) + BASE[st] + al):
                bad.append(("note_name_to_midi_pitch", r[1], pm, 12 * (oc + 1) + BASE[st] + al))
    for (st, ai, oc), r, m in T["name_alt"]:
        al = ALT_SPELL[ai][1]
        nm = st + ALT_SPELL[ai][0] + str(oc)
        if r != ("ok", (st, al, oc)):
            bad.append(("note_name_to_pitch_spelling", nm, r, ("ok", (st, al, oc))))
        if m != ("ok", 12 * (oc + 1) + BASE[st] + al):
            bad.append(("note_name_to_midi_pitch", nm, m, 12 * (oc + 1) + BASE[st] + al))
    for (f, mi), r in T["key_name"]:
        mode = MODES[mi][0]
        if mode in ("minor", -1):
            lst, suf = MIN, "m"
        elif mode in ("major", None, "none", 1):
            lst, suf = MAJ, ""
        else:
            lst = None
        if lst is None or not (-7 <= f <= 7):
            exp = "rejected"
            if r[0] == "ok":
                bad.append(("fifths_mode_to_key_name", (f, mode), r, exp))
        else:
            exp = ("ok", lst[f + 7] + suf)
            if r != exp:
                bad.append(("fifths_mode_to_key_name", (f, mode), r, exp))
    kp = dict(T["key_parse"])
    for f in range(-7, 8):
        for lst, suf, mode in ((MAJ, "", "major"), (MIN, "m", "minor")):
            n = lst[f + 7] + suf
            if kp.get(n) != ("ok", (f, mode)):
                bad.append(("key_name_to_fifths_mode", n, kp.get(n), ("ok", (f, mode))))
    for tab, fn, mn, mj in (("mode_int", "key_mode_to_int", -1, 1), ("int_mode", "key_int_to_mode", "minor", "major")):
        for mi, r in T[tab]:
            mode = MODES[mi][0]
            exp = ("ok", mn) if mode in ("minor", -1) else ("ok", mj) if mode in ("major", None, "none", 1) else None
            if (exp is None and r[0] == "ok") or (exp is not None and r != exp):
                bad.append((fn, mode, r, exp or "rejected"))
    cl = dict(T["clef"])
    cb = dict(T["clef_back"])
    codes = set()
    for s, r in T["clef"]:
        if s == "X":
            if r[0] == "ok":
                bad.append(("clef_sign_to_int", s, r, "rejected"))
            continue
        if r[0] != "ok" or r[1] in codes or cb.get(r[1]) != ("ok", s):
            bad.append(("clef_int_to_sign(clef_sign_to_int)", s, (r, cb.get(r[1]) if r[0] == "ok" else None), s))
        if r[0] == "ok":
            codes.add(r[1])
    for i, r in T["clef_back"]:
        if r[0] == "ok" and cl.get(r[1]) != ("ok", i):
            bad.append(("clef_sign_to_int(clef_int_to_sign)", i, r, i))
    classes = set(T["intervalclasses"])
    exp_classes = {q + str(n) for n in range(1, 8) for q in QUALS if interval_semitones_spec(n, q) is not None}
    if classes != exp_classes or len(T["intervalclasses"]) != 39:
        bad.append(("INTERVALCLASSES", None, sorted(classes ^ exp_classes), "the 39 classes"))
    for (num, q, d), r in T["interval"]:
        if num <= 7:
            e = interval_semitones_spec(num, q)
            if e is None:
                if r[0] == "ok":
                    bad.append(("Interval.semitones", (num, q, d), r, "rejected"))
            elif r != ("ok", e):
                bad.append(("Interval.semitones", (num, q, d), r, e))
        else:
            # an octave class is accepted by validate (8 % 7 = 1); its size must then be defined: 12 + size(q1)
            e = interval_semitones_spec(1, q)
            if e is not None and r[0] == "ok" and r[1] != 12 + e:
                bad.append(("Interval.semitones", (num, q, d), r, 12 + e))
    for (u, k), r in T["tempo"]:
        e = LAB[u] * (2 - Fraction(1, 2 ** k))
        if r[0] != "ok" or Fraction(r[1]) != e:
            bad.append(("to_quarter_tempo", (u + "." * k, 1), r, float(e)))
    for (u, k, an, nn, dv), r in T["symdur"]:
        e = dv * LAB[u] * (2 - Fraction(1, 2 ** k)) * Fraction(nn, an)
        if r[0] != "ok" or abs(Fraction(r[1]) - e) > Fraction(1, 10 ** 9) * e:
            bad.append(("symbolic_to_numeric_duration", (u, k, an, nn, dv), r, float(e)))
    for (m, a4), r in T["freq"]:
        if r != ("ok", m):
            bad.append(("frequency_to_midi_pitch(midi_pitch_to_frequency)", (m, a4), r, m))
    for (m, a4), r in T["freq_val"]:
        e = a4 / 32.0 * 2.0 ** ((m - 9) / 12.0)
        if r[0] != "ok" or abs(r[1] - e) > 1e-9 * e:
            bad.append(("midi_pitch_to_frequency", (m, a4), r, e))
    for (m, k), r in T["freq_off"]:
        if r != ("ok", m):
            bad.append(("frequency_to_midi_pitch(freq(m) detuned by %d/10 semitone)" % k, m, r, m))
    if T["freq_a4"] != ("ok", 440.0):
        bad.append(("midi_pitch_to_frequency", 69, T["freq_a4"], 440.0))
    if T["freq_arr"] != ("ok", list(range(128))):
        bad.append(("frequency_to_midi_pitch(array)", "arange(128)", T["freq_arr"][0], "identity"))
    return bad


# ----------------------------------------------------------------------------
# correspondence for seconds <-> ticks (O4)


def rhe(fr):
    f = math.floor(fr)
    r = fr - f
    if r < Fraction(1, 2):
        return f
    if r > Fraction(1, 2):
        return f + 1
    return f if f % 2 == 0 else f + 1


def gen_ticks_cases(ctx, n):
    rng = ctx.rng
    cases = []
    pairs = [(480, 500000), (96, 600000), (1000, 333333), (1, 10 ** 6), (384, 250000), (960, 1000000)]
    for i in range(n):
        ppq, mpq = rng.choice(pairs) if rng.random() < 0.7 else (rng.randint(1, 2000), rng.randint(1000, 2 * 10 ** 6))
        kind = rng.random()
        if kind < 0.3:  # exact tick multiples and half ticks (dyadic when ppq/mpq allow)
            k = rng.randint(0, 100000)
            t = (k + rng.choice([0, 0.5, 0.25, 0.75])) * mpq / (1e6 * ppq)
        elif kind < 0.6:
            t = rng.randint(0, 1 << 20) / 1024.0
        elif kind < 0.7:
            t = -rng.randint(0, 1 << 12) / 64.0
        else:
            t = rng.random() * rng.choice([1, 10, 1000])
        cases.append((ppq, mpq, float(t)))
    return cases


def run_ticks(ctx):
    import numpy as np
    import partitura.utils.music as M

    n = 1500 if ctx.tier == "quick" else 20000
    cases = gen_ticks_cases(ctx, n)
    terms, kept = [], []
    near = 0
    for ppq, mpq, t in cases:
        if len(ctx.violations) >= 5:
            break
        exact = Fraction(10 ** 6) * ppq * Fraction(t) / mpq
        frac = exact - math.floor(exact)
        # near-tie rule (DESIGN 2.4): float evaluation of 1e6*ppq*t/mpq may land on the other side
        if frac != Fraction(1, 2) and abs(frac - Fraction(1, 2)) < Fraction(1, 2 ** 20):
            near += 1
            continue
        # an exact tie is only comparable if the float product is exact as well
        fl = 1e6 * ppq * t / mpq
        if Fraction(fl) != exact and abs(Fraction(fl) - exact) > abs(frac - Fraction(1, 2)) / 2:
            near += 1
            continue
        r = _try(M.seconds_to_midi_ticks, t, mpq, ppq)
        ra = _try(lambda: [int(x) for x in M.seconds_to_midi_ticks(np.array([t, t]), mpq, ppq)])
        back = _try(M.midi_ticks_to_seconds, r[1] if r[0] == "ok" else 0, mpq, ppq)
        backa = _try(lambda: [float(x) for x in M.midi_ticks_to_seconds(np.array([r[1] if r[0] == "ok" else 0]), mpq, ppq)])
        ctx.evaluations += 1
        spec = rhe(exact)
        case = {"ppq": ppq, "mpq": mpq, "t": t.hex(), "scalar": r, "array": ra, "back": back, "back_array": backa}
        if r != ("ok", spec) or ra != ("ok", [spec, spec]):
            ctx.violation("seconds_to_midi_ticks(%r, mpq=%d, ppq=%d): scalar %r array %r, expected round(1e6*ppq*t/mpq) = %d"
                          % (t, mpq, ppq, r, ra, spec), case)
            continue
        bexp = Fraction(mpq) * spec / (10 ** 6 * ppq)
        okb = back[0] == "ok" and abs(Fraction(back[1]) - bexp) <= abs(bexp) * Fraction(1, 10 ** 12)
        okba = backa[0] == "ok" and abs(Fraction(backa[1][0]) - bexp) <= abs(bexp) * Fraction(1, 10 ** 12)
        if not (okb and okba):
            ctx.violation("midi_ticks_to_seconds(%d, mpq=%d, ppq=%d) = %r / %r, expected %s" % (spec, mpq, ppq, back, backa, float(bexp)), case)
            continue
        if frac != 0:
            ctx.nontrivial(("ticks", ppq, mpq, t.hex()))
        ctx.count("ticks:" + ("tie" if frac == Fraction(1, 2) else "int" if frac == 0 else "other"))
        terms.append("(%s, %s, %s, %s)" % (cz(ppq), cz(mpq), core.cfloat_q(t), cz(r[1])))
        kept.append(case)
    ctx.count("ticks:near_tie_skipped", near)
    ctx.sample({"seconds_to_ticks_case": kept[0]} if kept else "none")
    failing = ctx.coq_failing("ticks", "From PV Require Import Model.C12.", "",
                              terms, "fun c => match c with (ppq, mpq, t, k) => Z.eqb (sec_to_tick ppq mpq t) k end")
    ctx.obligation("correspondence: model sec_to_tick = seconds_to_midi_ticks on %d sampled triples (scalar and array)" % len(terms),
                   not failing, failing[:5])
    for i in failing[:5]:
        ctx.violation("model/implementation disagree on seconds_to_midi_ticks case", kept[i])


def run_beyond(ctx):
    """Sampled correspondence BEYOND the tabulated domains: the unbounded theorems are about the
    hand model; this ties the model to the code also outside octaves -1..9 / pitches 0..127."""
    import partitura.utils.music as M
    rng = ctx.rng
    n = 600 if ctx.tier == "quick" else 6000
    terms, kept = [], []
    for i in range(n):
        st = rng.choice(STEPS7 + [s.lower() for s in STEPS7])
        al, oc = rng.randint(-12, 12), rng.randint(-60, 120)
        r = _try(M.pitch_spelling_to_midi_pitch, st, al, oc)
        m = rng.randint(-600, 1500)
        r2 = _try(M.midi_pitch_to_pitch_spelling, m)
        ctx.evaluations += 2
        exp = 12 * (oc + 1) + BASE[st.upper()] + al
        if r != ("ok", exp):
            ctx.violation("pitch_spelling_to_midi_pitch(%r,%d,%d) = %r, expected %d" % (st, al, oc, r, exp),
                          {"function": "pitch_spelling_to_midi_pitch", "args": [st, al, oc], "got": r, "expected": exp})
            continue
        ok2 = r2[0] == "ok" and r2[1][0] in BASE and r2[1][1] in (0, 1) and 12 * (r2[1][2] + 1) + BASE[r2[1][0]] + r2[1][1] == m
        if not ok2:
            ctx.violation("midi_pitch_to_pitch_spelling(%d) = %r does not sound %d" % (m, r2, m),
                          {"function": "midi_pitch_to_pitch_spelling", "args": [m], "got": r2, "expected": "a spelling sounding %d" % m})
            continue
        ctx.nontrivial(("beyond", st, al, oc, m))
        terms.append("(%s, %s, %s, %s, %s, (%s, %s, %s))" % (cstr(st), cz(al), cz(oc), cz(r[1]), cz(m), cstr(r2[1][0]), cz(r2[1][1]), cz(r2[1][2])))
        kept.append({"ps": [st, al, oc], "midi": r[1], "m": m, "spelling": r2[1]})
    ctx.count("beyond_domain_cases", len(terms))
    failing = ctx.coq_failing("beyond", "From PV Require Import Lib.Base Model.C12.", "", terms,
                              "fun c => match c with (s, a, o, r, m, (s2, a2, o2)) => zopt_eqb (ps_to_midi s a o) (Some r) && "
                              "(let '(ms, ma, mo) := midi_to_ps m in String.eqb ms s2 && Z.eqb ma a2 && Z.eqb mo o2) end")
    ctx.obligation("correspondence: model ps_to_midi / midi_to_ps = implementation on %d sampled inputs beyond the tabulated domain" % len(terms),
                   not failing, failing[:5])
    for i in failing[:5]:
        ctx.violation("model/implementation disagree beyond the tabulated domain", kept[i])


def run(ctx):
    ctx.rule = ("T2: every function named by C12 is executed on its whole finite domain (539 spellings, 128 MIDI pitches, "
                "25x9 fifths/mode spellings, 30 key names, 8x7x2 intervals, 14 units x 4 dots x 7 tuplet ratios x 3 divisions, "
                "128x3 frequencies) and the resulting graph is re-proved in the Coq kernel; sampled (ppq,mpq,t) triples for "
                "seconds<->ticks.  Non-trivial = table rows with alter<>0 or octave<>4 or an out-of-range/rejected argument, "
                "and tick cases with a fractional tick.")
    ctx.trusted = ["Coq 8.16.1 kernel incl. vm_compute", "T2 tabulator harness/props/c12.py (runs the real functions, prints Coq literals)",
                   "Python-side oracle used only to name the failing row", "determinism of the tabulated pure functions"]
    ctx.assumptions = ["floats in tables are converted to the exact rationals they denote",
                       "near-tie tick cases (exact value within 2^-20 of .5 but not on it) are counted and skipped"]
    T = gen()
    n_rows = 0
    for k, v in T.items():
        if isinstance(v, list):
            n_rows += len(v)
            ctx.count("rows:" + k, len(v))
    ctx.evaluations += n_rows
    for (st, al, oc), r in T["ps_to_midi"]:
        if al != 0 or oc != 4:
            ctx.nontrivial(("ps", st, al, oc))
    for (f, mi), r in T["key_name"]:
        if abs(f) > 7 or mi >= 6:
            ctx.nontrivial(("key", f, mi))
    ctx.sample({"table": "key_name", "row": [T["key_name"][0][0], T["key_name"][0][1]]})
    ctx.sample({"table": "ps_to_midi", "row": [T["ps_to_midi"][5][0], T["ps_to_midi"][5][1]]})
    bad = oracle(T)
    ok, why = ctx.coq_props(expect_min=10)
    for fn, arg, got, exp in bad[:10]:
        ctx.violation("%s(%r) = %r, expected %r" % (fn, arg, got, exp), {"function": fn, "args": arg, "got": got, "expected": exp})
    if not ok and not bad:
        ctx.violation("proof obligations of Props/C12.v no longer check: " + why, {"theorem_or_build": why}, no_input=True)
    if ok:
        run_ticks(ctx)
        run_beyond(ctx)
    ctx.extra["exhaustive"] = True
    ctx.extra["exhaustive_note"] = "finite domains named by the property are enumerated completely; the ticks stream is sampled"


def replay(obj):
    import partitura.utils.music as M
    import partitura.score as S
    print(json_dumps(obj))
    r = obj.get("replay", {})
    if "function" in r:
        print("re-run the named function on args:", r["function"], r["args"], "->", "expected", r["expected"])
    return 0


def json_dumps(o):
    import json
    return json.dumps(o, indent=1, default=str)
