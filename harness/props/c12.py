"""C12 -- pitch, key, duration and time-unit conversions are mutually consistent.

Tie to the source: T2 (complete tabulation of the real functions on the finite
domains the property names + reflection of the constant tables it lists, regenerated
into coq/Gen/C12_Tab.v on every run and re-checked in the kernel by Proofs/C12.v)
+ vm_compute correspondence of the hand model on sampled inputs beyond those domains
(seconds<->ticks with scalars and numpy arrays, spellings / MIDI pitches / note names /
fifths outside the tabulated ranges, Tempo.microseconds_per_quarter).

Every comparison is at the level of the property text: a conversion must AGREE WITH
TWELVE-TONE ARITHMETIC and INVERT its partner; the particular spelling chosen for a
MIDI pitch, the particular accidental signs printed in a note name, integer codes of
modes/clefs are not prescribed (only that they decode to what was encoded).
"""
import itertools
import os
import math
from fractions import Fraction

import core
import t1
from core import cz, cq, cstr, clist, ctuple, copt

STEPS7 = ["C", "D", "E", "F", "G", "A", "B"]
MODES = [("major", '"major"'), ("minor", '"minor"'), (None, "None"), ("none", '"none"'),
         (1, "1"), (-1, "-1"), ("dorian", '"dorian"'), (0, "0"), ("Major", '"Major"')]
QUALS = ["dd", "d", "m", "M", "P", "A", "AA"]
# accidental strings with a documented meaning (SIGN_TO_ALTER restricted to the grammar's alphabet x b #)
DOC_ACC = ["", "#", "x", "##", "###", "b", "bb", "bbb"]
ACC_ALPHABET = "xb#"
OCT_STRINGS = ["0", "1", "4", "9", "10", "12"]
SIGN_VAL = {"#": 1, "s": 1, "b": -1, "f": -1, "-": -1, "x": 2, "n": 0}
BPMS = [1, 30, 40, 60, 66, 88, 100, 120, 144, 180, 208, 240, 333, 72.5, 59.75]
TEMPI = [1, 60, 100, 72.5, 0.5]
TUPLETS = [(3, 2), (5, 4), (6, 4), (7, 4), (2, 3), (7, 8)]


def _try(f, *a, **k):
    try:
        return ("ok", f(*a, **k))
    except Exception as e:  # any rejection counts as "rejected"
        return ("err", type(e).__name__)


def sign_value(s):
    """one semitone per sign; None when a character is no accidental sign"""
    if any(c not in SIGN_VAL for c in s):
        return None
    return sum(SIGN_VAL[c] for c in s)


def all_acc_strings(maxlen=3):
    out = [""]
    for n in range(1, maxlen + 1):
        out += ["".join(p) for p in itertools.product(ACC_ALPHABET, repeat=n)]
    return out


def _py(v):
    """numpy scalars -> Python numbers (so that results compare and serialise plainly)"""
    try:
        import numpy as np
        if isinstance(v, np.generic):
            return v.item()
    except Exception:
        pass
    return v


def _ps_norm(r):
    """normalise a (step, alter, octave) result"""
    if r[0] != "ok":
        return r
    try:
        st, al, oc = r[1]
        return ("ok", (str(st), _py(al), _py(oc)))
    except Exception:
        return ("err", "malformed:%r" % (r[1],))


def _int_norm(r):
    if r[0] != "ok":
        return r
    v = _py(r[1])
    if isinstance(v, bool) or not isinstance(v, int):
        if isinstance(v, float) and v == int(v):
            return ("ok", int(v))
        return ("err", "not-an-integer:%r" % (v,))
    return ("ok", v)


def tabulate():
    """Run the real functions over the whole finite domains.  Returns a dict of tables."""
    import numpy as np
    import partitura.utils.music as M
    import partitura.utils.globals as G
    import partitura.score as S

    T = {}
    dom_ps = list(itertools.product(STEPS7, range(-3, 4), range(-1, 10)))
    # O1 ---------------------------------------------------------------
    T["ps_to_midi"] = [((st, al, oc), _int_norm(_try(M.pitch_spelling_to_midi_pitch, st, al, oc))) for st, al, oc in dom_ps]
    # lower-case steps: accepted by the code; the property does not ask for it (if accepted: same arithmetic)
    T["ps_to_midi_lower"] = [((st.lower(), al, oc), _int_norm(_try(M.pitch_spelling_to_midi_pitch, st.lower(), al, oc)))
                             for st in STEPS7 for al, oc in ((0, 4), (-2, 0), (3, 9))]
    # alter None = unaltered (documented for Note)
    T["ps_to_midi_none"] = [((st, oc), _int_norm(_try(M.pitch_spelling_to_midi_pitch, st, None, oc))) for st in STEPS7 for oc in (-1, 4, 9)]
    T["midi_to_ps"] = [(m, _ps_norm(_try(M.midi_pitch_to_pitch_spelling, m))) for m in range(0, 128)]
    dummy = getattr(G, "DUMMY_PS_BASE_CLASS", None)
    if isinstance(dummy, dict) and all(pc in dummy for pc in range(12)):
        T["dummy_ps"] = [(pc, (str(dummy[pc][0]), int(dummy[pc][1]))) for pc in range(12)]
        T["dummy_ps_source"] = "globals.DUMMY_PS_BASE_CLASS"
    else:  # the table is gone: take the pitch-class spellings from the function itself (octave -1)
        T["dummy_ps"] = [(pc, (r[1][0], r[1][1])) for pc, r in T["midi_to_ps"][:12] if r[0] == "ok"]
        T["dummy_ps_source"] = "midi_pitch_to_pitch_spelling(0..11)"
    T["step2pc"] = [((st, al), _int_norm(_try(M.step2pc, st, al))) for st in STEPS7 for al in range(-3, 4)]
    T["note_name"] = [((st, al, oc), _try(M.pitch_spelling_to_note_name, st, al, oc)) for st, al, oc in dom_ps]
    names = sorted({r[1] for _, r in T["note_name"] if r[0] == "ok" and isinstance(r[1], str)})
    T["name_parse"] = [(n, _ps_norm(_try(M.note_name_to_pitch_spelling, n)), _int_norm(_try(M.note_name_to_midi_pitch, n))) for n in names]
    # the grammar [A-G][xb#]*digits: every documented accidental string x several (multi-digit) octaves,
    # every other accidental string up to three signs at octave 4 and with a leading-zero octave
    gram = [st + a + o for st in STEPS7 for a in DOC_ACC for o in OCT_STRINGS]
    gram += [st + a + "4" for st in STEPS7 for a in all_acc_strings(3) if a not in DOC_ACC]
    gram += [st + a + "007" for st in ("C", "B") for a in ("", "#", "bb")]
    T["name_grammar"] = [(n, _ps_norm(_try(M.note_name_to_pitch_spelling, n)), _int_norm(_try(M.note_name_to_midi_pitch, n))) for n in gram]
    # ensure_pitch_spelling_format: step in either case, every sign of SIGN_TO_ALTER with a value, int and str octave
    signs = sorted(k for k, v in M.SIGN_TO_ALTER.items() if v is not None)
    T["ensure_sign"] = [((st, sg), _ps_norm(_try(M.ensure_pitch_spelling_format, st, sg, oc)))
                        for st in STEPS7 + [s.lower() for s in STEPS7] for sg in signs for oc in (4,)]
    T["ensure_int"] = [((st, al, oc), _ps_norm(_try(M.ensure_pitch_spelling_format, st, al, oc)))
                       for st in ("C", "f", "B") for al in range(-3, 4) for oc in (-1, 4, 11)]
    # Note.midi_pitch / Note.alter_sign (partitura/score.py)
    def note_midi(st, oc, al):
        return S.Note(step=st, octave=oc, alter=al).midi_pitch
    T["note_midi"] = [((st, al, oc), _int_norm(_try(note_midi, st, oc, al))) for st, al, oc in dom_ps]
    T["note_midi"] += [((st, None, oc), _int_norm(_try(note_midi, st, oc, None))) for st in STEPS7 for oc in (-1, 4, 9)]
    T["note_midi_lower"] = [((st.lower(), al, 4), _int_norm(_try(note_midi, st.lower(), 4, al))) for st in STEPS7 for al in (0, 1, -2)]
    def alter_sign(al):
        return S.Note(step="C", octave=4, alter=al).alter_sign
    T["note_alter_sign"] = [(al, _try(alter_sign, al)) for al in [None, -3, -2, -1, 0, 1, 2, 3]]
    # constant tables the property lists (reflected)
    T["base_pc"] = [(k, int(v)) for k, v in sorted(G.BASE_PC.items())]
    T["midi_base_class"] = [(k, int(v)) for k, v in sorted(G.MIDI_BASE_CLASS.items())]
    T["steps_idx"] = [(k, int(v)) for k, v in G.STEPS.items() if isinstance(k, str)]
    T["steps_letter"] = [(int(k), str(v)) for k, v in G.STEPS.items() if not isinstance(k, str)]
    T["alt_to_int"] = [(k, int(v)) for k, v in sorted(G.ALT_TO_INT.items())]
    T["int_to_alt"] = [(int(k), str(v)) for k, v in sorted(G.INT_TO_ALT.items())]
    T["sign_to_alter"] = [(k, None if v is None else int(v)) for k, v in sorted(M.SIGN_TO_ALTER.items())]
    T["interval_to_semitones"] = [(k, int(v)) for k, v in sorted(G.INTERVAL_TO_SEMITONES.items())]
    # O2 ---------------------------------------------------------------
    T["key_name"] = [((f, mi), _try(M.fifths_mode_to_key_name, f, MODES[mi][0]))
                     for f in range(-12, 13) for mi in range(len(MODES))]
    def ks_name(f, mode):
        return S.KeySignature(f, mode).name
    T["keysig_name"] = [((f, mi), _try(ks_name, f, MODES[mi][0])) for f in range(-12, 13) for mi in range(len(MODES))]
    keynames = sorted({r[1] for (f, mi), r in T["key_name"] if r[0] == "ok" and -7 <= f <= 7 and isinstance(r[1], str)})
    T["key_parse"] = [(n, _try(M.key_name_to_fifths_mode, n)) for n in keynames]
    # O6 ---------------------------------------------------------------
    T["mode_int"] = [(mi, _int_norm(_try(M.key_mode_to_int, MODES[mi][0]))) for mi in range(len(MODES))]
    T["int_mode"] = [(mi, _try(M.key_int_to_mode, MODES[mi][0])) for mi in range(len(MODES))]
    T["mode_rt"] = [(mi, _try(lambda mi=mi: M.key_int_to_mode(M.key_mode_to_int(MODES[mi][0])))) for mi in range(len(MODES))]
    T["clef"] = [(s, _int_norm(_try(M.clef_sign_to_int, s))) for s in list(G.CLEF_TO_INT.keys()) + ["X"]]
    codes = sorted({r[1] for _, r in T["clef"] if r[0] == "ok"})
    lo, hi = (min(codes), max(codes)) if codes else (0, 0)
    T["clef_back"] = [(i, _try(M.clef_int_to_sign, i)) for i in range(lo - 1, hi + 2)]
    # O3 ---------------------------------------------------------------
    T["interval"] = []
    for num, q, d in itertools.product(range(1, 9), QUALS, ("up", "down")):
        def sem(num=num, q=q, d=d):
            return S.Interval(num, q, d).semitones
        T["interval"].append(((num, q, d), _int_norm(_try(sem))))
    T["intervalclasses"] = list(G.INTERVALCLASSES)
    units = list(G.LABEL_DURS.keys())
    T["tempo"] = [((u, k, tp), _try(M.to_quarter_tempo, u + "." * k, tp)) for u in units for k in range(0, 4) for tp in TEMPI]
    def mpq(bpm, unit):
        return S.Tempo(bpm, unit).microseconds_per_quarter
    T["mpq"] = [((u, k, bpm), _int_norm(_try(mpq, bpm, u + "." * k))) for u in units for k in range(0, 4) for bpm in BPMS]
    T["mpq"] += [(("", 0, bpm), _int_norm(_try(mpq, bpm, None))) for bpm in BPMS]
    tup = [(None, None)] + TUPLETS
    T["symdur"] = []
    for u, k, (an, nn) in itertools.product(units, range(0, 4), tup):
        sd = {"type": u, "dots": k}
        if an:
            sd["actual_notes"], sd["normal_notes"] = an, nn
        for divs in (1, 12, 480):
            T["symdur"].append(((u, k, an or 1, nn or 1, divs), _try(M.symbolic_to_numeric_duration, sd, divs)))
    def tmult(an, nn, at, nt):
        return S.Tuplet(actual_notes=an, normal_notes=nn, actual_type=at, normal_type=nt).duration_multiplier
    T["tuplet"] = [((an, nn, at, nt), _try(tmult, an, nn, at, nt)) for (an, nn) in TUPLETS for at in units for nt in units]
    T["tuplet"] += [((an, nn, "", ""), _try(tmult, an, nn, None, None)) for (an, nn) in TUPLETS]
    T["label_durs"] = [(u, G.LABEL_DURS[u]) for u in units]
    T["dot_mult"] = list(G.DOT_MULTIPLIERS)
    # O5 ---------------------------------------------------------------
    def rt(m, a4):
        return int(M.frequency_to_midi_pitch(M.midi_pitch_to_frequency(m, a4), a4))
    T["freq"] = [((m, a4), _try(rt, m, a4)) for m in range(0, 128) for a4 in (440.0, 415.0, 442.0)]
    # value of the frequency itself (equal temperament: a4 * 2^((m-69)/12)) and nearest-semitone rounding
    T["freq_val"] = [((m, a4), _try(lambda m=m, a4=a4: float(M.midi_pitch_to_frequency(m, a4)))) for m in range(0, 128) for a4 in (440.0, 415.0)]
    def off(m, k):
        f = M.midi_pitch_to_frequency(m) * 2.0 ** (k / 120.0)
        return int(M.frequency_to_midi_pitch(f))
    T["freq_off"] = [((m, k), _try(off, m, k)) for m in range(0, 128) for k in (-4, 4)]
    T["freq_arr"] = _try(lambda: [int(x) for x in M.frequency_to_midi_pitch(M.midi_pitch_to_frequency(np.arange(128)))])
    return T


def _res(r, pr):
    return "(Some %s)" % pr(r[1]) if r[0] == "ok" else "None"


def _ps(t):
    st, al, oc = t
    return ctuple([cstr(str(st)), copt(al, cz), copt(oc, cz)])


def _ps3(t):
    st, al, oc = t
    return ctuple([cstr(str(st)), cz(al), cz(oc)])


def _sres(r):
    """a result that should be a printable string"""
    if r[0] == "ok" and isinstance(r[1], str) and all(32 <= ord(c) < 127 for c in r[1]):
        return "(Some %s)" % cstr(r[1])
    return "None"


def _qres(r):
    if r[0] != "ok":
        return "None"
    try:
        return "(Some %s)" % cq(Fraction(r[1]))
    except Exception:
        return "None"


def gen(T=None):
    """Write Gen/C12_Tab.v (function graphs + reflected tables) from the live implementation."""
    core.setup_import_path()
    if T is None:
        T = tabulate()
    L = ["(* GENERATED by harness/props/c12.py from the working tree -- do not edit *)",
         "From Coq Require Import ZArith QArith List String.", "Import ListNotations.", "Open Scope Z_scope.", ""]

    def deff(name, ty, items):
        L.append("Definition %s : list (%s) := [\n  %s\n]." % (name, ty, ";\n  ".join(items) if items else ""))

    PS = "option (string * option Z * option Z)"
    deff("tab_ps_to_midi", "(string * Z * Z) * option Z", [ctuple([_ps3(k), _res(r, cz)]) for k, r in T["ps_to_midi"]])
    deff("tab_ps_to_midi_lower", "(string * Z * Z) * option Z", [ctuple([_ps3(k), _res(r, cz)]) for k, r in T["ps_to_midi_lower"]])
    deff("tab_ps_to_midi_none", "(string * Z) * option Z",
         [ctuple([ctuple([cstr(k[0]), cz(k[1])]), _res(r, cz)]) for k, r in T["ps_to_midi_none"]])
    deff("tab_midi_to_ps", "Z * " + PS, [ctuple([cz(k), _res(r, _ps)]) for k, r in T["midi_to_ps"]])
    deff("tab_dummy_ps", "Z * (string * Z)", [ctuple([cz(pc), ctuple([cstr(s), cz(a)])]) for pc, (s, a) in T["dummy_ps"]])
    deff("tab_step2pc", "(string * Z) * option Z", [ctuple([ctuple([cstr(s), cz(a)]), _res(r, cz)]) for (s, a), r in T["step2pc"]])
    deff("tab_note_name", "(string * Z * Z) * option string", [ctuple([_ps3(k), _sres(r)]) for k, r in T["note_name"]])
    deff("tab_name_parse", "string * %s * option Z" % PS, [ctuple([cstr(n), _res(r, _ps), _res(m, cz)]) for n, r, m in T["name_parse"]])
    deff("tab_name_grammar", "string * (%s * option Z)" % PS,
         [ctuple([cstr(n), ctuple([_res(r, _ps), _res(m, cz)])]) for n, r, m in T["name_grammar"]])
    deff("tab_ensure_sign", "(string * string) * " + PS, [ctuple([ctuple([cstr(s), cstr(g)]), _res(r, _ps)]) for (s, g), r in T["ensure_sign"]])
    deff("tab_ensure_int", "(string * Z * Z) * " + PS, [ctuple([_ps3(k), _res(r, _ps)]) for k, r in T["ensure_int"]])
    deff("tab_note_midi", "(string * option Z * Z) * option Z",
         [ctuple([ctuple([cstr(s), copt(a, cz), cz(o)]), _res(r, cz)]) for (s, a, o), r in T["note_midi"]])
    deff("tab_note_midi_lower", "(string * Z * Z) * option Z", [ctuple([_ps3(k), _res(r, cz)]) for k, r in T["note_midi_lower"]])
    deff("tab_note_alter_sign", "option Z * option string", [ctuple([copt(a, cz), _sres(r)]) for a, r in T["note_alter_sign"]])
    deff("tab_base_pc", "string * Z", [ctuple([cstr(k), cz(v)]) for k, v in T["base_pc"]])
    deff("tab_midi_base_class", "string * Z", [ctuple([cstr(k), cz(v)]) for k, v in T["midi_base_class"]])
    deff("tab_steps_idx", "string * Z", [ctuple([cstr(k), cz(v)]) for k, v in T["steps_idx"]])
    deff("tab_steps_letter", "Z * string", [ctuple([cz(k), cstr(v)]) for k, v in T["steps_letter"]])
    deff("tab_alt_to_int", "string * Z", [ctuple([cstr(k), cz(v)]) for k, v in T["alt_to_int"]])
    deff("tab_int_to_alt", "Z * string", [ctuple([cz(k), cstr(v)]) for k, v in T["int_to_alt"]])
    deff("tab_sign_to_alter", "string * option Z", [ctuple([cstr(k), copt(v, cz)]) for k, v in T["sign_to_alter"]])
    deff("tab_interval_to_semitones", "string * Z", [ctuple([cstr(k), cz(v)]) for k, v in T["interval_to_semitones"]])
    deff("tab_key_name", "(Z * Z) * option string", [ctuple([ctuple([cz(f), cz(mi)]), _sres(r)]) for (f, mi), r in T["key_name"]])
    deff("tab_keysig_name", "(Z * Z) * option string", [ctuple([ctuple([cz(f), cz(mi)]), _sres(r)]) for (f, mi), r in T["keysig_name"]])
    def kp(r):
        try:
            if r[0] == "ok" and isinstance(r[1][1], str):
                return "(Some %s)" % ctuple([cz(r[1][0]), cstr(r[1][1])])
        except Exception:
            pass
        return "None"
    deff("tab_key_parse", "string * option (Z * string)", [ctuple([cstr(n), kp(r)]) for n, r in T["key_parse"]])
    deff("tab_mode_int", "Z * option Z", [ctuple([cz(mi), _res(r, cz)]) for mi, r in T["mode_int"]])
    deff("tab_int_mode", "Z * option string", [ctuple([cz(mi), _sres(r)]) for mi, r in T["int_mode"]])
    deff("tab_mode_rt", "Z * option string", [ctuple([cz(mi), _sres(r)]) for mi, r in T["mode_rt"]])
    deff("tab_clef", "string * option Z", [ctuple([cstr(s), _res(r, cz)]) for s, r in T["clef"]])
    deff("tab_clef_back", "Z * option string", [ctuple([cz(i), _sres(r)]) for i, r in T["clef_back"]])
    deff("tab_interval", "(Z * string * bool) * option Z",
         [ctuple([ctuple([cz(n), cstr(q), "true" if d == "up" else "false"]), _res(r, cz)]) for (n, q, d), r in T["interval"]])
    deff("tab_intervalclasses", "string", [cstr(s) for s in T["intervalclasses"]])
    deff("tab_tempo", "(string * Z * Q) * option Q",
         [ctuple([ctuple([cstr(u), cz(k), cq(Fraction(tp))]), _qres(r)]) for (u, k, tp), r in T["tempo"]])
    deff("tab_mpq", "(string * Z * Q) * option Z",
         [ctuple([ctuple([cstr(u), cz(k), cq(Fraction(b))]), _res(r, cz)]) for (u, k, b), r in T["mpq"]])
    deff("tab_symdur", "(string * Z * Z * Z * Z) * option Q",
         [ctuple([ctuple([cstr(u), cz(k), cz(an), cz(nn), cz(dv)]), _qres(r)]) for (u, k, an, nn, dv), r in T["symdur"]])
    deff("tab_tuplet", "(Z * Z * string * string) * option Q",
         [ctuple([ctuple([cz(an), cz(nn), cstr(at), cstr(nt)]), _qres(r)]) for (an, nn, at, nt), r in T["tuplet"]])
    deff("tab_label_durs", "string * Q", [ctuple([cstr(u), cq(Fraction(v))]) for u, v in T["label_durs"]])
    deff("tab_dot_mult", "Q", [cq(Fraction(v)) for v in T["dot_mult"]])
    deff("tab_freq", "(Z * Z) * option Z", [ctuple([ctuple([cz(m), cz(int(a4))]), _res(r, cz)]) for (m, a4), r in T["freq"]])
    deff("tab_freq_off", "(Z * Z) * option Z", [ctuple([ctuple([cz(m), cz(k)]), _res(r, cz)]) for (m, k), r in T["freq_off"]])
    L.append("Definition mode_spellings : list (Z * string) := [%s]." %
             "; ".join(ctuple([cz(i), cstr(str(MODES[i][1]).strip('"'))]) for i in range(len(MODES))))
    core.write_gen("C12_Tab", "\n".join(L) + "\n")
    t1.gen()   # T1: Gen/T1_music.v, Gen/T1_score.v -- definitions translated from the current source text
    return T


# ----------------------------------------------------------------------------
# Direct oracle: the property statement evaluated on the tabulated results (Python mirror of
# the table predicates of Proofs/C12.v; this is what names a concrete failing input)

BASE = {"C": 0, "D": 2, "E": 4, "F": 5, "G": 7, "A": 9, "B": 11}
MAJ = ["Cb", "Gb", "Db", "Ab", "Eb", "Bb", "F", "C", "G", "D", "A", "E", "B", "F#", "C#"]
MIN = ["Ab", "Eb", "Bb", "F", "C", "G", "D", "A", "E", "B", "F#", "C#", "G#", "D#", "A#"]
LAB = {"long": 16, "breve": 8, "whole": 4, "half": 2, "h": 2, "quarter": 1, "q": 1, "eighth": Fraction(1, 2),
       "e": Fraction(1, 2), "16th": Fraction(1, 4), "32nd": Fraction(1, 8), "64th": Fraction(1, 16),
       "128th": Fraction(1, 32), "256th": Fraction(1, 64)}


def midi_of(st, al, oc):
    """twelve-tone arithmetic, C4 = 60; None when the step is no letter A-G (either case)"""
    b = BASE.get(str(st).upper()) if isinstance(st, str) and len(st) == 1 else None
    if b is None or not isinstance(al, int) or not isinstance(oc, int):
        return None
    return 12 * (oc + 1) + b + al


def parse_spec(n):
    """reading of a string of the grammar [A-G][xb#]*digits: (step, one semitone per sign, octave)"""
    i = 1
    while i < len(n) and n[i] in ACC_ALPHABET:
        i += 1
    return (n[0], sign_value(n[1:i]), int(n[i:])), n[1:i] in DOC_ACC


def dot_mult(k):
    return 2 - Fraction(1, 2 ** k)


def interval_semitones_spec(num, q):
    """Defined size of interval class q+num (num 1..7), None when not a class."""
    perfect = num in (1, 4, 5)
    major = {1: 0, 2: 2, 3: 4, 4: 5, 5: 7, 6: 9, 7: 11}[num]
    if perfect:
        off = {"dd": -2, "d": -1, "P": 0, "A": 1, "AA": 2}.get(q)
    else:
        off = {"dd": -3, "d": -2, "m": -1, "M": 0, "A": 1, "AA": 2}.get(q)
    return None if off is None else major + off


def mode_class(mode):
    if mode in ("minor", -1):
        return "minor"
    if mode in ("major", None, "none", 1):
        return "major"
    return None


def key_expect(f, mode):
    mc = mode_class(mode)
    if mc is None or not (-7 <= f <= 7):
        return None
    return (MIN[f + 7] + "m") if mc == "minor" else MAJ[f + 7]


def close(v, e, rel=Fraction(1, 10 ** 9)):
    try:
        return abs(Fraction(v) - e) <= rel * abs(e)
    except Exception:
        return False


def oracle(T):
    """Return [(function, input, got, expected)] for every table row violating C12."""
    bad = []
    # --- spelling -> MIDI pitch
    for (st, al, oc), r in T["ps_to_midi"]:
        exp = ("ok", midi_of(st, al, oc))
        if r != exp:
            bad.append(("pitch_spelling_to_midi_pitch", (st, al, oc), r, exp))
    for (st, al, oc), r in T["ps_to_midi_lower"]:
        if r[0] == "ok" and r[1] != midi_of(st, al, oc):
            bad.append(("pitch_spelling_to_midi_pitch", (st, al, oc), r, ("ok", midi_of(st, al, oc))))
    for (st, oc), r in T["ps_to_midi_none"]:
        exp = ("ok", midi_of(st, 0, oc))
        if r != exp:
            bad.append(("pitch_spelling_to_midi_pitch", (st, None, oc), r, exp))
    for (st, al, oc), r in T["note_midi"]:
        exp = ("ok", midi_of(st, al or 0, oc))
        if r != exp:
            bad.append(("Note(step, octave, alter).midi_pitch", (st, oc, al), r, exp))
    for (st, al, oc), r in T["note_midi_lower"]:
        if r[0] == "ok" and r[1] != midi_of(st, al, oc):
            bad.append(("Note(step, octave, alter).midi_pitch", (st, oc, al), r, ("ok", midi_of(st, al, oc))))
    # --- MIDI pitch -> spelling: any well-formed spelling that sounds the pitch (the inverse direction)
    for m, r in T["midi_to_ps"]:
        if not (r[0] == "ok" and r[1][0] in BASE and midi_of(*r[1]) == m):
            bad.append(("midi_pitch_to_pitch_spelling", m, r, "a spelling (step A-G, alter, octave) sounding %d" % m))
    for (st, al), r in T["step2pc"]:
        exp = ("ok", (BASE[st] + al) % 12)
        if r != exp:
            bad.append(("step2pc", (st, al), r, exp))
    # --- note names: printing then reading gives the spelling back (octave >= 0: the grammar has no sign)
    parse = {n: (r, m) for n, r, m in T["name_parse"]}
    for (st, al, oc), r in T["note_name"]:
        if r[0] != "ok" or not isinstance(r[1], str):
            bad.append(("pitch_spelling_to_note_name", (st, al, oc), r, "a name"))
            continue
        if oc >= 0:
            pr, pm = parse[r[1]]
            if pr != ("ok", (st, al, oc)):
                bad.append(("note_name_to_pitch_spelling(pitch_spelling_to_note_name(%r,%d,%d))" % (st, al, oc), r[1], pr, ("ok", (st, al, oc))))
            if pm != ("ok", midi_of(st, al, oc)):
                bad.append(("note_name_to_midi_pitch(pitch_spelling_to_note_name(%r,%d,%d))" % (st, al, oc), r[1], pm, ("ok", midi_of(st, al, oc))))
    for n, r, m in T["name_grammar"]:
        (st, al, oc), documented = parse_spec(n)
        if r[0] != "ok":
            if documented:
                bad.append(("note_name_to_pitch_spelling", n, r, ("ok", (st, al, oc))))
            continue
        if r != ("ok", (st, al, oc)):
            bad.append(("note_name_to_pitch_spelling", n, r, ("ok", (st, al, oc))))
        if m != ("ok", midi_of(st, al, oc)):
            bad.append(("note_name_to_midi_pitch", n, m, ("ok", midi_of(st, al, oc))))
    for (st, sg), r in T["ensure_sign"]:
        exp = ("ok", (st.upper(), sign_value(sg), 4))
        if r != exp:
            bad.append(("ensure_pitch_spelling_format", (st, sg, 4), r, exp))
    for (st, al, oc), r in T["ensure_int"]:
        exp = ("ok", (st.upper(), al, oc))
        if r != exp:
            bad.append(("ensure_pitch_spelling_format", (st, al, oc), r, exp))
    for al, r in T["note_alter_sign"]:
        # the sign must read back as the alteration; alterations -2..2 and None are documented for Note
        if r[0] == "ok":
            if not isinstance(r[1], str) or any(c not in ACC_ALPHABET for c in r[1]) or sign_value(r[1]) != (al or 0):
                bad.append(("Note('C', 4, alter).alter_sign", al, r, "signs worth %d semitone(s)" % (al or 0)))
        elif al is None or -2 <= al <= 2:
            bad.append(("Note('C', 4, alter).alter_sign", al, r, "a sign"))
    # --- constant tables agree with each other
    bp, mb = dict(T["base_pc"]), dict(T["midi_base_class"])
    for st in STEPS7:
        if bp.get(st) != BASE[st]:
            bad.append(("BASE_PC", st, bp.get(st), BASE[st]))
        if mb.get(st.lower()) != BASE[st]:
            bad.append(("MIDI_BASE_CLASS", st.lower(), mb.get(st.lower()), BASE[st]))
    si, sl = dict(T["steps_idx"]), dict(T["steps_letter"])
    for st in STEPS7:
        if st not in si or sl.get(si[st]) != st:
            bad.append(("STEPS[STEPS[step]]", st, sl.get(si.get(st)), st))
    for i in range(7):
        if i not in sl or si.get(sl[i]) != i:
            bad.append(("STEPS[STEPS[index]]", i, si.get(sl.get(i)), i))
    for n in range(1, 8):  # step order x base pitch classes x interval sizes: the n-th step above C lies a major/perfect n above it
        e = interval_semitones_spec(n, "P" if n in (1, 4, 5) else "M")
        got = bp.get(sl.get(n - 1))
        if got != e:
            bad.append(("BASE_PC[STEPS[%d]] vs size of the major/perfect %d" % (n - 1, n), n, got, e))
    a2i, i2a = dict(T["alt_to_int"]), dict(T["int_to_alt"])
    for k, v in T["alt_to_int"]:
        if sign_value(k) != v:
            bad.append(("ALT_TO_INT", k, v, sign_value(k)))
    for i, s in T["int_to_alt"]:
        if a2i.get(s) != i:
            bad.append(("ALT_TO_INT[INT_TO_ALT[i]]", i, a2i.get(s), i))
    for k, v in T["sign_to_alter"]:
        if v is not None and sign_value(k) != v:
            bad.append(("SIGN_TO_ALTER", k, v, sign_value(k)))
    its = dict(T["interval_to_semitones"])
    for n in range(1, 8):
        for q in QUALS:
            e = interval_semitones_spec(n, q)
            if e is not None and its.get(q + str(n)) != e:
                bad.append(("INTERVAL_TO_SEMITONES", q + str(n), its.get(q + str(n)), e))
    # --- keys
    for tab, fn in (("key_name", "fifths_mode_to_key_name"), ("keysig_name", "KeySignature(fifths, mode).name")):
        for (f, mi), r in T[tab]:
            mode = MODES[mi][0]
            e = key_expect(f, mode)
            if e is None:
                if r[0] == "ok":
                    bad.append((fn, (f, mode), r, "rejected"))
            elif r != ("ok", e):
                bad.append((fn, (f, mode), r, ("ok", e)))
    kp = dict(T["key_parse"])
    for f in range(-7, 8):
        for mode in ("major", "minor"):
            n = key_expect(f, mode)
            if kp.get(n) != ("ok", (f, mode)):
                bad.append(("key_name_to_fifths_mode", n, kp.get(n), ("ok", (f, mode))))
    # --- mode and clef codes decode to what was encoded
    mint, mstr, mrt = dict(T["mode_int"]), dict(T["int_mode"]), dict(T["mode_rt"])
    canon = {"major": mint[0], "minor": mint[1]}  # codes of the spellings "major" / "minor"
    if canon["major"][0] != "ok" or canon["minor"][0] != "ok" or canon["major"] == canon["minor"]:
        bad.append(("key_mode_to_int", ("major", "minor"), (canon["major"], canon["minor"]), "two different codes"))
    for mi, (mode, _) in enumerate(MODES):
        mc = mode_class(mode)
        if mc is None:
            for tab, fn in ((mint, "key_mode_to_int"), (mstr, "key_int_to_mode")):
                if tab[mi][0] == "ok":
                    bad.append((fn, mode, tab[mi], "rejected"))
            continue
        if mstr[mi] != ("ok", mc):
            bad.append(("key_int_to_mode", mode, mstr[mi], ("ok", mc)))
        if mint[mi] != canon[mc]:
            bad.append(("key_mode_to_int", mode, mint[mi], "the code of %r: %r" % (mc, canon[mc])))
        if mrt[mi] != ("ok", mc):
            bad.append(("key_int_to_mode(key_mode_to_int(mode))", mode, mrt[mi], ("ok", mc)))
    cl = dict(T["clef"])
    cb = dict(T["clef_back"])
    codes = set()
    for s, r in T["clef"]:
        if s == "X":
            if r[0] == "ok":
                bad.append(("clef_sign_to_int", s, r, "rejected"))
            continue
        if r[0] != "ok" or r[1] in codes or cb.get(r[1]) != ("ok", s):
            bad.append(("clef_int_to_sign(clef_sign_to_int)", s, (r, cb.get(r[1]) if r[0] == "ok" else None), s))
        if r[0] == "ok":
            codes.add(r[1])
    for i, r in T["clef_back"]:
        if r[0] == "ok" and cl.get(r[1]) != ("ok", i):
            bad.append(("clef_sign_to_int(clef_int_to_sign)", i, r, i))
    # --- intervals
    classes = set(T["intervalclasses"])
    exp_classes = {q + str(n) for n in range(1, 8) for q in QUALS if interval_semitones_spec(n, q) is not None}
    if classes != exp_classes or len(T["intervalclasses"]) != 39:
        bad.append(("INTERVALCLASSES", None, sorted(classes ^ exp_classes), "the 39 classes"))
    for (num, q, d), r in T["interval"]:
        if num <= 7:
            e = interval_semitones_spec(num, q)
            if e is None:
                if r[0] == "ok":
                    bad.append(("Interval.semitones", (num, q, d), r, "rejected"))
            elif r != ("ok", e):
                bad.append(("Interval.semitones", (num, q, d), r, e))
        else:
            # an octave class is accepted by validate (8 % 7 = 1); where a size is given it is 12 + size(q1)
            e = interval_semitones_spec(1, q)
            if e is not None and r[0] == "ok" and r[1] != 12 + e:
                bad.append(("Interval.semitones", (num, q, d), r, 12 + e))
    # --- tempo units, dotted units, durations
    for u, v in T["label_durs"]:
        if not close(v, LAB.get(u, 0), 0):
            bad.append(("LABEL_DURS", u, v, float(LAB.get(u, 0))))
    if len(T["dot_mult"]) < 4 or any(Fraction(v) != dot_mult(k) for k, v in enumerate(T["dot_mult"][:4])):
        bad.append(("DOT_MULTIPLIERS", None, list(T["dot_mult"]), [float(dot_mult(k)) for k in range(4)]))
    for (u, k, tp), r in T["tempo"]:
        e = Fraction(tp) * LAB[u] * dot_mult(k)
        if r[0] != "ok" or not close(r[1], e):
            bad.append(("to_quarter_tempo", (u + "." * k, tp), r, float(e)))
    for (u, k, bpm), r in T["mpq"]:
        e = Fraction(60 * 10 ** 6) / (Fraction(bpm) * LAB[u or "q"] * dot_mult(k))
        if r[0] != "ok" or abs(e - r[1]) > Fraction(1, 2) + Fraction(1, 10 ** 6):
            bad.append(("Tempo(bpm, unit).microseconds_per_quarter", (bpm, (u + "." * k) or None), r, "nearest integer to %s" % float(e)))
    for (u, k, an, nn, dv), r in T["symdur"]:
        e = dv * LAB[u] * dot_mult(k) * Fraction(nn, an)
        if r[0] != "ok" or not close(r[1], e):
            bad.append(("symbolic_to_numeric_duration", (u, k, an, nn, dv), r, float(e)))
    for (an, nn, at, nt), r in T["tuplet"]:
        e = Fraction(nn, an) if at == nt else Fraction(nn, an) * LAB[nt] / LAB[at]
        if r[0] != "ok" or not close(r[1], e):
            bad.append(("Tuplet(actual_notes, normal_notes, actual_type, normal_type).duration_multiplier", (an, nn, at or None, nt or None), r, str(e)))
    # --- frequency
    for (m, a4), r in T["freq"]:
        if r != ("ok", m):
            bad.append(("frequency_to_midi_pitch(midi_pitch_to_frequency)", (m, a4), r, m))
    for (m, a4), r in T["freq_val"]:
        e = a4 * 2.0 ** ((m - 69) / 12.0)
        if r[0] != "ok" or abs(r[1] - e) > 1e-9 * e:
            bad.append(("midi_pitch_to_frequency", (m, a4), r, e))
    for (m, k), r in T["freq_off"]:
        if r != ("ok", m):
            bad.append(("frequency_to_midi_pitch(freq(m) detuned by %d/10 semitone)" % k, m, r, m))
    if T["freq_arr"] != ("ok", list(range(128))):
        bad.append(("frequency_to_midi_pitch(array)", "arange(128)", T["freq_arr"][0], "identity"))
    return bad


# ----------------------------------------------------------------------------
# correspondence for seconds <-> ticks (O4)


def rhe(fr):
    f = math.floor(fr)
    r = fr - f
    if r < Fraction(1, 2):
        return f
    if r > Fraction(1, 2):
        return f + 1
    return f if f % 2 == 0 else f + 1


# (ppq, mpq, s): 10^6*ppq/mpq is an integer R = 2^(s-1) * odd, so t = odd / 2^s is an EXACT half tick
TIE_PAIRS = [(480, 500000, 7), (96, 600000, 6), (1, 10 ** 6, 1), (384, 250000, 10), (960, 1000000, 7), (24, 750000, 6)]
PAIRS = [(480, 500000), (96, 600000), (1000, 333333), (1, 10 ** 6), (384, 250000), (960, 1000000)]


def gen_ticks_cases(ctx, n):
    """(ppq, mpq, t, kind).  Weights: 20% constructed exact half ticks (even and odd floor, a quarter of
    them negative), 15% k + {0,.25,.5,.75} ticks, 25% dyadic seconds, 10% negative, 10% integer seconds
    (Python int), 20% uniform floats."""
    rng = ctx.rng
    cases = []
    for i in range(n):
        kind = rng.random()
        if kind < 0.20:
            ppq, mpq, s = rng.choice(TIE_PAIRS)
            odd = 2 * rng.randint(0, 1 << rng.choice([3, 8, 14])) + 1
            t = odd / float(1 << s)
            if rng.random() < 0.25:
                t = -t
            cases.append((ppq, mpq, float(t), "tie"))
            continue
        ppq, mpq = rng.choice(PAIRS) if rng.random() < 0.7 else (rng.randint(1, 2000), rng.randint(1000, 2 * 10 ** 6))
        if kind < 0.35:
            k = rng.randint(0, 100000)
            t = (k + rng.choice([0, 0.5, 0.25, 0.75])) * mpq / (1e6 * ppq)
        elif kind < 0.60:
            t = rng.randint(0, 1 << 20) / 1024.0
        elif kind < 0.70:
            t = -rng.randint(0, 1 << 12) / 64.0
        elif kind < 0.80:
            cases.append((ppq, mpq, rng.randint(0, 4000), "int"))
            continue
        else:
            t = rng.random() * rng.choice([1, 10, 1000])
        cases.append((ppq, mpq, float(t), "float"))
    return cases


def comparable(ppq, mpq, t):
    """near-tie rule (DESIGN 2.4): the float evaluation of 1e6*ppq*t/mpq may land on the other side of a
    half tick; such cases are counted and skipped.  Exact ties are compared when the float product is exact."""
    exact = Fraction(10 ** 6) * ppq * Fraction(t) / mpq
    frac = exact - math.floor(exact)
    if frac != Fraction(1, 2) and abs(frac - Fraction(1, 2)) < Fraction(1, 2 ** 20):
        return False, exact, frac
    fl = 1e6 * ppq * t / mpq
    if Fraction(fl) != exact and abs(Fraction(fl) - exact) > abs(frac - Fraction(1, 2)) / 2:
        return False, exact, frac
    return True, exact, frac


def run_ticks(ctx):
    import numpy as np
    import partitura.utils.music as M

    rng = ctx.rng
    n = 1500 if ctx.tier == "quick" else 20000
    cases = gen_ticks_cases(ctx, n)
    terms, kept = [], []
    near = 0
    groups = {}
    for ppq, mpq, t, kind in cases:
        if len(ctx.violations) >= 5:
            break
        ok, exact, frac = comparable(ppq, mpq, t)
        if not ok:
            near += 1
            continue
        r = _int_norm(_try(M.seconds_to_midi_ticks, t, mpq, ppq))
        # the array path: a 1-d float array, and (for Python ints) an integer array
        arr = np.array([t, t]) if isinstance(t, float) else np.array([t, t], dtype=rng.choice(["i8", "i4"]))
        ra = _try(lambda: [int(x) for x in M.seconds_to_midi_ticks(arr, mpq, ppq)])
        rs = _int_norm(_try(M.seconds_to_midi_ticks, np.float64(t), mpq, ppq))  # numpy scalar = scalar path
        k0 = r[1] if r[0] == "ok" else 0
        back = _try(lambda: float(M.midi_ticks_to_seconds(k0, mpq, ppq)))
        # ticks come as Python ints, int64 arrays and -- in partitura's own note arrays -- int32 arrays
        bdt = rng.choice(["i8", "i4", "f8"]) if abs(k0) < 2 ** 31 else "i8"
        backa = _try(lambda: [float(x) for x in M.midi_ticks_to_seconds(np.array([k0], dtype=bdt), mpq, ppq)])
        ctx.evaluations += 1
        spec = rhe(exact)
        case = {"ppq": ppq, "mpq": mpq, "t": t.hex() if isinstance(t, float) else t, "scalar": r, "numpy_scalar": rs,
                "array": ra, "array_dtype": str(arr.dtype), "back": back, "back_array": backa, "back_array_dtype": bdt}
        if r != ("ok", spec) or ra != ("ok", [spec, spec]) or rs != ("ok", spec):
            ctx.violation("seconds_to_midi_ticks(%r, mpq=%d, ppq=%d): scalar %r numpy scalar %r array %r, expected round(1e6*ppq*t/mpq) = %d"
                          % (t, mpq, ppq, r, rs, ra, spec), case)
            continue
        bexp = Fraction(mpq) * spec / (10 ** 6 * ppq)
        okb = back[0] == "ok" and abs(Fraction(back[1]) - bexp) <= abs(bexp) * Fraction(1, 10 ** 12)
        okba = backa[0] == "ok" and abs(Fraction(backa[1][0]) - bexp) <= abs(bexp) * Fraction(1, 10 ** 12)
        if not (okb and okba):
            ctx.violation("midi_ticks_to_seconds(%d, mpq=%d, ppq=%d) = %r, with a %s array %r, expected %s" % (spec, mpq, ppq, back, bdt, backa, float(bexp)), case)
            continue
        if frac != 0:
            ctx.nontrivial(("ticks", ppq, mpq, case["t"]))
        tie = frac == Fraction(1, 2)
        ctx.count("ticks:back_array_" + bdt)
        ctx.count("ticks:" + ("tie_even_floor" if tie and math.floor(exact) % 2 == 0 else "tie_odd_floor" if tie else "int" if frac == 0 else "other")
                  + ("_negative" if t < 0 else ""))
        terms.append("(%s, %s, %s, %s, %s, %s)" % (cz(ppq), cz(mpq), cq(Fraction(t)), cz(r[1]), cq(Fraction(back[1])), cq(Fraction(backa[1][0]))))
        kept.append(case)
        groups.setdefault((ppq, mpq), []).append((float(t), spec))
    # one array holding all the (mixed-sign) times of a (ppq, mpq) pair: element-wise the same ticks
    for (ppq, mpq), lst in sorted(groups.items()):
        if len(lst) < 2 or len(ctx.violations) >= 5:
            continue
        ts = np.array([t for t, _ in lst], dtype=float)
        for shape in (ts.shape, (1, len(lst))):
            ra = _try(lambda: [int(x) for x in np.asarray(M.seconds_to_midi_ticks(ts.reshape(shape), mpq, ppq)).ravel()])
            ctx.evaluations += 1
            if ra != ("ok", [s for _, s in lst]):
                got = ra[1] if ra[0] == "ok" else [None] * len(lst)
                j = next((j for j, (x, (_, s)) in enumerate(zip(got, lst)) if x != s), 0)
                ctx.violation("seconds_to_midi_ticks(array of %d times, mpq=%d, ppq=%d): element %d (t=%r) is %r, expected %d"
                              % (len(lst), mpq, ppq, j, lst[j][0], got[j] if ra[0] == "ok" else ra, lst[j][1]),
                              {"ppq": ppq, "mpq": mpq, "times": [t.hex() for t, _ in lst], "shape": list(shape), "array": ra,
                               "expected": [s for _, s in lst]})
                break
        ctx.count("ticks:whole_group_arrays")
    # single-precision times (the dtype of partitura's performance note arrays): the tick of the value the
    # float32 denotes, as an array, as a numpy scalar and as the Python float of the same value
    n32 = 0
    for ppq, mpq, t, kind in cases[: max(200, n // 4)]:
        if len(ctx.violations) >= 5:
            break
        t32 = np.float32(t * rng.choice([1, 1, 30, 300]))
        ok, exact, frac = comparable(ppq, mpq, float(t32))
        if not ok:
            near += 1
            continue
        spec = rhe(exact)
        ra = _try(lambda: [int(x) for x in M.seconds_to_midi_ticks(np.array([t32, t32], dtype="f4"), mpq, ppq)])
        rf = _int_norm(_try(M.seconds_to_midi_ticks, float(t32), mpq, ppq))
        ctx.evaluations += 1
        n32 += 1
        if ra != ("ok", [spec, spec]) or rf != ("ok", spec):
            ctx.violation("seconds_to_midi_ticks(float32 %r, mpq=%d, ppq=%d): as float32 array %r, as Python float %r, expected round(1e6*ppq*t/mpq) = %d"
                          % (float(t32), mpq, ppq, ra, rf, spec),
                          {"ppq": ppq, "mpq": mpq, "t": float(t32).hex(), "dtype": "f4", "array": ra, "scalar": rf, "expected": spec})
            continue
        terms.append("(%s, %s, %s, %s, %s, %s)" % (cz(ppq), cz(mpq), cq(Fraction(float(t32))), cz(spec), cq(Fraction(0)), cq(Fraction(0))))
        kept.append({"ppq": ppq, "mpq": mpq, "t": float(t32).hex(), "dtype": "f4", "array": ra})
    ctx.count("ticks:float32_arrays", n32)
    ctx.count("ticks:near_tie_skipped", near)
    ctx.sample({"seconds_to_ticks_case": kept[0]} if kept else "none")
    failing = ctx.coq_failing("ticks", "From PV Require Import Model.C12.", "",
                              terms, "fun c => match c with (ppq, mpq, t, k, b, ba) => Z.eqb (sec_to_tick ppq mpq t) k && "
                              "(Qeq_bool b 0 || q_close b (tick_to_sec ppq mpq k)) && (Qeq_bool ba 0 || q_close ba (tick_to_sec ppq mpq k)) end")
    ctx.obligation("correspondence: model sec_to_tick = seconds_to_midi_ticks and tick_to_sec = midi_ticks_to_seconds (rel. 1e-9) on %d sampled triples "
                   "(Python float/int, numpy scalar, arrays)" % len(terms),
                   not failing, failing[:5])
    for i in failing[:5]:
        ctx.violation("model/implementation disagree on seconds_to_midi_ticks case", kept[i])


def run_beyond(ctx):
    """Sampled correspondence BEYOND the tabulated domains: the unbounded theorems are about the
    hand model; this ties the model to the code also outside octaves -1..9 / pitches 0..127 /
    alterations -3..3 / one-digit octaves / fifths -12..12."""
    import partitura.utils.music as M
    import partitura.score as S
    rng = ctx.rng
    n = 600 if ctx.tier == "quick" else 6000
    terms, kept = [], []

    def viol(what, obj):
        if len(ctx.violations) < 10:
            ctx.violation(what, obj)

    for i in range(n):
        st = rng.choice(STEPS7)
        al, oc = rng.randint(-12, 12), rng.randint(-60, 120)
        r = _int_norm(_try(M.pitch_spelling_to_midi_pitch, st, al, oc))
        rn = _int_norm(_try(lambda: S.Note(step=st, octave=oc, alter=al).midi_pitch))
        pc = _int_norm(_try(M.step2pc, st, al))
        m = rng.randint(-600, 1500)
        r2 = _ps_norm(_try(M.midi_pitch_to_pitch_spelling, m))
        ctx.evaluations += 4
        exp = midi_of(st, al, oc)
        if r != ("ok", exp) or rn != ("ok", exp):
            viol("pitch_spelling_to_midi_pitch(%r,%d,%d) = %r, Note.midi_pitch = %r, expected %d" % (st, al, oc, r, rn, exp),
                 {"function": "pitch_spelling_to_midi_pitch", "args": [st, al, oc], "got": [r, rn], "expected": exp})
            continue
        if pc != ("ok", exp % 12):
            viol("step2pc(%r,%d) = %r, expected %d" % (st, al, pc, exp % 12),
                 {"function": "step2pc", "args": [st, al], "got": pc, "expected": exp % 12})
            continue
        if not (r2[0] == "ok" and r2[1][0] in BASE and midi_of(*r2[1]) == m):
            viol("midi_pitch_to_pitch_spelling(%d) = %r does not sound %d" % (m, r2, m),
                 {"function": "midi_pitch_to_pitch_spelling", "args": [m], "got": r2, "expected": "a spelling sounding %d" % m})
            continue
        ctx.nontrivial(("beyond", st, al, oc, m))
        terms.append("(%s, %s, %s, %s, %s, %s, (%s, %s, %s))" % (cstr(st), cz(al), cz(oc), cz(r[1]), cz(pc[1]), cz(m),
                                                                   cstr(r2[1][0]), cz(r2[1][1]), cz(r2[1][2])))
        kept.append({"ps": [st, al, oc], "midi": r[1], "pc": pc[1], "m": m, "spelling": r2[1]})
    ctx.count("beyond:spelling_and_midi_cases", len(terms))
    failing = ctx.coq_failing("beyond", "From PV Require Import Lib.Base Model.C12 Gen.C12_Tab.", "", terms,
                              "fun c => match c with (s, a, o, r, pc, m, sp) => zopt_eqb (ps_to_midi s a o) (Some r) && "
                              "zopt_eqb (step2pc s a) (Some pc) && sounds m sp && psopt_eqb (midi_to_ps_with tab_dummy_ps m) (Some sp) end")
    ctx.obligation("correspondence: model ps_to_midi / step2pc / midi_to_ps_with (the code's own table) = implementation on %d sampled inputs beyond the tabulated domain" % len(terms),
                   not failing, failing[:5])
    for i in failing[:5]:
        ctx.violation("model/implementation disagree beyond the tabulated domain", kept[i])

    # note names beyond one-digit octaves / the tabulated accidental strings
    terms, kept = [], []
    accs = all_acc_strings(3)
    for i in range(n):
        st = rng.choice(STEPS7)
        if rng.random() < 0.5:  # print then read
            al, oc = rng.randint(-3, 3), rng.choice([rng.randint(0, 12), rng.randint(10, 10 ** 6)])
            rn = _try(M.pitch_spelling_to_note_name, st, al, oc)
            ctx.evaluations += 1
            if rn[0] != "ok" or not isinstance(rn[1], str):
                viol("pitch_spelling_to_note_name(%r,%d,%d) = %r" % (st, al, oc, rn),
                     {"function": "pitch_spelling_to_note_name", "args": [st, al, oc], "got": rn, "expected": "a name"})
                continue
            name, want = rn[1], (st, al, oc)
        else:  # a string of the grammar
            acc = rng.choice(DOC_ACC) if rng.random() < 0.6 else rng.choice(accs)
            octs = str(rng.choice([rng.randint(0, 12), rng.randint(10, 10 ** 6)]))
            if rng.random() < 0.1:
                octs = "0" * rng.randint(1, 2) + octs
            name, want = st + acc + octs, None
        rp = _ps_norm(_try(M.note_name_to_pitch_spelling, name))
        rm = _int_norm(_try(M.note_name_to_midi_pitch, name))
        ctx.evaluations += 2
        try:
            (pst, pal, poc), documented = parse_spec(name)
        except Exception:
            pst = None
        if pst is None or pal is None:
            if want is not None:
                viol("pitch_spelling_to_note_name%r = %r is not a string of the grammar [A-G][xb#]*digits" % (want, name),
                     {"function": "pitch_spelling_to_note_name", "args": list(want), "got": name, "expected": "step, signs, octave"})
            continue
        if want is not None and (rp != ("ok", want) or rm != ("ok", midi_of(*want))):
            viol("note_name_to_pitch_spelling(pitch_spelling_to_note_name%r = %r) = %r, MIDI pitch %r" % (want, name, rp, rm),
                 {"function": "note_name_to_pitch_spelling", "args": [name], "got": [rp, rm], "expected": [list(want), midi_of(*want)]})
            continue
        if rp[0] == "ok" and (rp != ("ok", (pst, pal, poc)) or rm != ("ok", midi_of(pst, pal, poc))):
            viol("note_name_to_pitch_spelling(%r) = %r, MIDI pitch %r; by twelve-tone arithmetic %r" % (name, rp, rm, (pst, pal, poc)),
                 {"function": "note_name_to_pitch_spelling", "args": [name], "got": [rp, rm], "expected": [[pst, pal, poc], midi_of(pst, pal, poc)]})
            continue
        if rp[0] != "ok" and documented:
            viol("note_name_to_pitch_spelling(%r) rejected: %r" % (name, rp),
                 {"function": "note_name_to_pitch_spelling", "args": [name], "got": rp, "expected": [pst, pal, poc]})
            continue
        ctx.nontrivial(("name", name))
        ctx.count("beyond:name_" + ("printed" if want is not None else "documented" if documented else "undocumented_signs"))
        terms.append("(%s, %s, %s)" % (cstr(name), _res(rp, _ps3) if rp[0] == "ok" else "None", _res(rm, cz)))
        kept.append({"name": name, "spelling": rp, "midi": rm})
    failing = ctx.coq_failing("names", "From PV Require Import Lib.Base Model.C12.", "", terms,
                              "fun c => match c with (n, r, m) => parse_agrees n r && "
                              "match r with Some (s, a, o) => zopt_eqb m (ps_to_midi s a o) | None => true end end")
    ctx.obligation("correspondence: model parse_name = note_name_to_pitch_spelling / note_name_to_midi_pitch on %d names beyond the tabulated ones "
                   "(printed names with octaves up to 10^6, strings of the grammar)" % len(terms), not failing, failing[:5])
    for i in failing[:5]:
        ctx.violation("model/implementation disagree on a note name", kept[i])

    # fifths outside -12..12 are rejected as well (function and KeySignature.name)
    terms, kept = [], []
    for i in range(n // 3):
        f = rng.choice([-1, 1]) * rng.choice([rng.randint(8, 40), rng.randint(13, 10 ** 4)]) if rng.random() < 0.8 else rng.randint(-7, 7)
        mi = rng.randrange(len(MODES))
        mode = MODES[mi][0]
        r = _try(M.fifths_mode_to_key_name, f, mode)
        rk = _try(lambda: S.KeySignature(f, mode).name)
        ctx.evaluations += 2
        e = key_expect(f, mode)
        if (e is None and (r[0] == "ok" or rk[0] == "ok")) or (e is not None and (r != ("ok", e) or rk != ("ok", e))):
            viol("fifths_mode_to_key_name(%d, %r) = %r, KeySignature.name = %r, expected %s" % (f, mode, r, rk, e or "rejected"),
                 {"function": "fifths_mode_to_key_name", "args": [f, MODES[mi][1]], "got": [r, rk], "expected": e or "rejected"})
            continue
        ctx.nontrivial(("fifths", f, mi))
        terms.append("(%s, %s, %s)" % (cz(f), cz(mi), _sres(r)))
        kept.append({"fifths": f, "mode": MODES[mi][1], "name": r})
    ctx.count("beyond:fifths_cases", len(terms))
    failing = ctx.coq_failing("fifths", "From PV Require Import Lib.Base Lib.Tab Model.C12.", "", terms,
                              "fun c => match c with (f, mi, r) => sopt_eqb r (key_name_sp f mi) end")
    ctx.obligation("correspondence: model key_name_sp = fifths_mode_to_key_name on %d sampled (fifths, mode spelling) incl. |fifths| up to 10^4" % len(terms),
                   not failing, failing[:5])
    for i in failing[:5]:
        ctx.violation("model/implementation disagree on fifths_mode_to_key_name", kept[i])

    # Tempo.microseconds_per_quarter on sampled tempi
    terms, kept = [], []
    units = sorted(LAB)
    for i in range(n):
        u, k = rng.choice(units), rng.randint(0, 3)
        bpm = rng.choice([rng.randint(10, 400), rng.randint(10 * 64, 400 * 64) / 64.0, round(rng.uniform(10, 400), 2)])
        r = _int_norm(_try(lambda: S.Tempo(bpm, u + "." * k).microseconds_per_quarter))
        ctx.evaluations += 1
        e = Fraction(60 * 10 ** 6) / (Fraction(bpm) * LAB[u] * dot_mult(k))
        if r[0] != "ok" or abs(e - r[1]) > Fraction(1, 2) + Fraction(1, 10 ** 6):
            viol("Tempo(%r, %r).microseconds_per_quarter = %r, expected the integer nearest to %s" % (bpm, u + "." * k, r, float(e)),
                 {"function": "Tempo.microseconds_per_quarter", "args": [bpm, u + "." * k], "got": r, "expected": float(e)})
            continue
        ctx.nontrivial(("mpq", u, k, bpm))
        terms.append("(%s, %s, %s, %s)" % (cstr(u), cz(k), cq(Fraction(bpm)), cz(r[1])))
        kept.append({"unit": u + "." * k, "bpm": bpm, "mpq": r[1]})
    ctx.count("beyond:mpq_cases", len(terms))
    failing = ctx.coq_failing("mpq", "From PV Require Import Lib.Base Model.C12.", "", terms,
                              "fun c => match c with (u, k, bpm, x) => match mpq_exact u k bpm with Some e => mpq_nearest x e | None => false end end")
    ctx.obligation("correspondence: Tempo.microseconds_per_quarter is the integer nearest to the model's mpq_exact on %d sampled (unit, dots, bpm)" % len(terms),
                   not failing, failing[:5])
    for i in failing[:5]:
        ctx.violation("model/implementation disagree on Tempo.microseconds_per_quarter", kept[i])


# ----------------------------------------------------------------------------
# Round j: note names AS THE CODE READS THEM (Model/C12_NoteName.v): the pattern applied with .search on texts that are
# not whole strings of the grammar, the greedy groups, the sign table lookup, int() of the digit group

NS_JUNK = " _=;:.,+/|()acdeghrsyz#bxHIKRnf-0123456789"
NS_JUNK_NOSTEP_NODIGIT = " _=;:.,+/|()acdeghrsyz#bxHIKRnf-"


def nn_scan(n):
    """independent reading of a text: the first position that holds letter A-G, signs over x b #, at least one digit"""
    for i, ch in enumerate(n):
        if ch not in "ABCDEFG":
            continue
        j = i + 1
        while j < len(n) and n[j] in ACC_ALPHABET:
            j += 1
        k = j
        while k < len(n) and n[k] in "0123456789":
            k += 1
        if k > j:
            return ch, n[i + 1:j], n[j:k], i, k
    return None


def gen_namesearch(rng, M):
    """one text + its kind"""
    def name(doc=None):
        st = rng.choice(STEPS7)
        if doc is None:
            doc = rng.random() < 0.7
        acc = rng.choice(DOC_ACC) if doc else "".join(rng.choice(ACC_ALPHABET) for _ in range(rng.randint(2, 4)))
        octs = str(rng.choice([rng.randint(0, 9), rng.randint(0, 12), rng.randint(10, 10 ** 5)]))
        if rng.random() < 0.12:
            octs = "0" * rng.randint(1, 2) + octs
        return st + acc + octs

    def junk(alphabet, lo, hi):
        return "".join(rng.choice(alphabet) for _ in range(rng.randint(lo, hi)))

    u = rng.random()
    if u < 0.12:
        return name(True), "whole_documented"
    if u < 0.22:
        return name(False), "whole_other_signs"
    if u < 0.36:
        st, al, oc = rng.choice(STEPS7), rng.randint(-3, 3), rng.choice([rng.randint(0, 9), rng.randint(10, 10 ** 4)])
        r = _try(M.pitch_spelling_to_note_name, st, al, oc)
        nm = r[1] if r[0] == "ok" and isinstance(r[1], str) else st + str(oc)
        return junk(NS_JUNK_NOSTEP_NODIGIT, 1, 5) + nm + (junk(NS_JUNK_NOSTEP_NODIGIT, 0, 4)), "printed_embedded"
    if u < 0.50:
        pre = junk(NS_JUNK + "ABCDEFG", 1, 6)
        return pre + name() + junk(NS_JUNK + "ABCDEFG", 0, 5), "embedded_any_text"
    if u < 0.60:
        return name() + rng.choice([" ", ",", "/", "-", "", "_"]) + name(), "two_names"
    if u < 0.72:
        # a letter (with or without signs) that no digit follows, directly in front of a name
        head = rng.choice(STEPS7) + rng.choice(["", "b", "#", "x", "bb", "#b"])
        return head + name(), "failed_attempt_then_name"
    if u < 0.80:
        # digits directly behind the name's digits / a sign directly behind
        return name() + rng.choice(["#", "b", "x", ".5", "th", "A", " 7"]), "name_then_text"
    if u < 0.90:
        st = rng.choice(STEPS7)
        return rng.choice([
            "", st, st + "#", st + "bb", st.lower() + "4", "H4", "4" + st, st + "n4", st + "s4", st + "f3", st + "-1",
            st + "#-2", st + " 4", st + "# 4", "r4", "R", st + "b" + st + "#", junk(NS_JUNK_NOSTEP_NODIGIT, 1, 6),
            junk("0123456789 ", 1, 5), st + "#" + "." + "4"]), "nameless"
    return junk(NS_JUNK + "ABCDEFG", 0, 9), "random_text"


def run_namesearch(ctx):
    """note_name_to_pitch_spelling / note_name_to_midi_pitch on texts around and beside the grammar: direct oracle
    (independent scan, one semitone per sign, twelve-tone arithmetic) + correspondence with nn_spelling_with /
    nn_midi_with over the code's own SIGN_TO_ALTER (Model/C12_NoteName.nn_agrees)"""
    import partitura.utils.music as M
    rng = ctx.rng
    n = 420 if ctx.tier == "quick" else 6000
    terms, kept = [], []
    seen = set()

    def viol(what, obj):
        if len(ctx.violations) < 10:
            ctx.violation(what, obj)

    for i in range(n):
        text, kind = gen_namesearch(rng, M)
        rp = _ps_norm(_try(M.note_name_to_pitch_spelling, text))
        rm = _int_norm(_try(M.note_name_to_midi_pitch, text))
        ctx.evaluations += 2
        sc = nn_scan(text)
        ctx.count("namesearch:kind_" + kind)
        if sc is None:
            ctx.count("namesearch:no_name_in_text")
            if rp[0] == "ok" or rm[0] == "ok":
                viol("note_name_to_pitch_spelling(%r) = %r, note_name_to_midi_pitch = %r: the text holds no letter A-G followed by "
                     "signs and an octave number, any value is invented" % (text, rp, rm),
                     {"function": "note_name_to_pitch_spelling", "args": [text], "got": [rp, rm], "expected": "rejected"})
                continue
        else:
            st, acc, digs, i0, i1 = sc
            al = sign_value(acc)
            whole = i0 == 0 and i1 == len(text)
            ctx.count("namesearch:name_at_%s" % ("start" if i0 == 0 else "offset"))
            ctx.count("namesearch:signs_%s" % ("documented" if acc in DOC_ACC else "other"))
            if len(digs) > 1:
                ctx.count("namesearch:multi_digit_octave")
            if any(c in "ABCDEFG" for c in text[:i0]):
                ctx.count("namesearch:failed_attempt_before_name")
            if nn_scan(text[i1:]) is not None:
                ctx.count("namesearch:second_name_behind")
            exp = (st, al, int(digs))
            if rp[0] == "ok":
                ctx.count("namesearch:accepted")
                if rp != ("ok", exp) or rm != ("ok", midi_of(*exp)):
                    viol("note_name_to_pitch_spelling(%r) = %r, note_name_to_midi_pitch = %r; the first name in the text is %r: by twelve-tone "
                         "arithmetic %r, MIDI pitch %r" % (text, rp, rm, st + acc + digs, exp, midi_of(*exp)),
                         {"function": "note_name_to_pitch_spelling", "args": [text], "got": [rp, rm], "expected": [list(exp), midi_of(*exp)]})
                    continue
            else:
                ctx.count("namesearch:rejected_with_name_in_text")
                if rm[0] == "ok":
                    viol("note_name_to_midi_pitch(%r) = %r although note_name_to_pitch_spelling rejects the text (%r)" % (text, rm, rp),
                         {"function": "note_name_to_midi_pitch", "args": [text], "got": [rp, rm], "expected": "both or neither"})
                    continue
                if whole and acc in DOC_ACC:
                    viol("note_name_to_pitch_spelling(%r) rejected: %r" % (text, rp),
                         {"function": "note_name_to_pitch_spelling", "args": [text], "got": rp, "expected": list(exp)})
                    continue
        if text not in seen:
            seen.add(text)
            ctx.nontrivial(("namesearch", text))
        terms.append("(%s, %s, %s)" % (cstr(text), _res(rp, _ps3) if rp[0] == "ok" else "None", _res(rm, cz)))
        kept.append({"function": "note_name_to_pitch_spelling", "args": [text], "got": [rp, rm],
                     "expected": "Model/C12_NoteName.nn_spelling_with / nn_midi_with over the code's SIGN_TO_ALTER"})
    ctx.count("namesearch:cases", len(terms))
    ctx.count("namesearch:distinct_texts", len(seen))
    ctx.sample({"stream": "namesearch", "cases": [k["args"][0] for k in kept[:6]]})
    failing = ctx.coq_failing("namesearch", "From PV Require Import Lib.Base Model.C12 Model.C12_NoteName Gen.C12_Tab.", "", terms,
                              "fun c : string * option (string * Z * Z) * option Z => match c with (n, r, m) => nn_agrees tab_sign_to_alter n r m end",
                              ty="string * option (string * Z * Z) * option Z")
    ctx.obligation("correspondence: model nn_spelling_with / nn_midi_with (leftmost successful attempt of the pattern, greedy groups, the code's own "
                   "SIGN_TO_ALTER, int of the digit group) = note_name_to_pitch_spelling / note_name_to_midi_pitch on %d texts (whole names, names "
                   "inside other text, two names, failed attempts in front of a name, texts without a name)" % len(terms), not failing, failing[:5])
    for i in failing[:5]:
        ctx.violation("model/implementation disagree on reading a note name out of a text", kept[i])


# ----------------------------------------------------------------------------
# HISTORIES: state carried on an argument object between calls.
# A real partitura.score.Interval (Note, Tuplet, KeySignature, Tempo) is constructed the way users
# construct it, then a generated sequence of operations is applied to THAT object; after every
# operation its observation and the object's public fields are judged against an oracle computed
# from the object's CURRENT fields only, through an independent table (never through the object):
# "derived values are recomputed from the current fields".  A table over fresh objects cannot see
# a memo, a cache keyed too coarsely or a derived attribute that is stored once.

LADDER_P = ["dd", "d", "P", "A", "AA"]
LADDER_I = ["dd", "d", "m", "M", "A", "AA"]
H_STEP_IDX = {s: i for i, s in enumerate(STEPS7)}
H_BASE = [0, 2, 4, 5, 7, 9, 11]
H_IMPORTS = ("From PV Require Import Lib.Base Lib.Py Model.T1_spec Model.C12_Interval.\n"
             "From PV Require Model.C12 Gen.T1_music.\nFrom Coq Require Import QArith.\nOpen Scope Z_scope.")


def iv_size(n, q):
    """TABLE (independent of Interval.semitones): the defined size of the interval CLASS q+n, n in 1..7;
    None = not one of the 39 classes"""
    if isinstance(n, bool) or not isinstance(n, int) or not isinstance(q, str) or not 1 <= n <= 7:
        return None
    return interval_semitones_spec(n, q)


def simple_no(n):
    return (n - 1) % 7 + 1


def cq_judged(n):
    """numbers on which change_quality is exercised and judged: the simple intervals, the octave, and
    compound intervals whose simple number is imperfect.  (For 11, 12, 15, ... the method takes the
    major/minor ladder -- d11 -> 'm11', no interval class; change_quality is not among the anchors of
    C12 / C16 and such objects are not generated; recorded in design.d/C12.md.)"""
    return isinstance(n, int) and not isinstance(n, bool) and (1 <= n <= 8 or (n > 8 and simple_no(n) in (2, 3, 6, 7)))


def h_transpose(i, a, o, n, sem, up):
    """diatonic arithmetic: step index +-(n-1), octave by floor division, alter such that MIDI moves by +-sem"""
    D = 7 * o + i + (n - 1 if up else -(n - 1))
    i2, o2 = D % 7, D // 7
    m2 = 12 * (o + 1) + H_BASE[i] + a + (sem if up else -sem)
    return (i2, m2 - (12 * (o2 + 1) + H_BASE[i2]), o2)


def tr_emitted(notes):
    """the Note objects a 'tr' operation puts into the part, in id order: a tie is two tied notes"""
    out = []
    for st, al, oc, kind in notes:
        out += [(st, al, oc)] * (2 if kind == "tie" else 1)
    return out


def iv_expect(f, op):
    """What `op` must return on an Interval whose CURRENT fields are f = (number, quality, direction), and
    the fields afterwards.  Judgement: ('ok', v) | ('err',) | ('ok_or_err', v) | ('any',)."""
    n, q, d = f
    k = op[0]
    if k == "read":
        if n < 1:
            return ("any",), f
        if n <= 7:
            s = iv_size(n, q)
            return (("ok", s) if s is not None else ("err",)), f
        # compound numbers are accepted by validate; Interval.semitones has no entry for them (KeyError):
        # an exception is not a wrong value; where a size IS given it is the simple size plus the octaves
        s = iv_size(simple_no(n), q)
        return (("ok_or_err", 12 * ((n - 1) // 7) + s) if s is not None else ("err",)), f
    if k == "tn":
        st, al = op[1], op[2]
        i = H_STEP_IDX.get(st.capitalize())
        sem = iv_size(n, q)
        if d == "up" and -2 <= al <= 2 and n < 8 and i is not None and sem is not None:
            i2, a2, _ = h_transpose(i, al, 4, n, sem, True)
            return (("ok", [STEPS7[i2], a2]) if -2 <= a2 <= 2 else ("err",)), f
        return ("err",), f
    if k == "tr":
        sem = iv_size(n, q)
        if sem is None or d not in ("up", "down"):
            return ("any",), f
        out = []
        for st, al, oc in tr_emitted(op[1]):
            i2, a2, o2 = h_transpose(H_STEP_IDX[st], al or 0, oc, n, sem, d == "up")
            out.append([STEPS7[i2], a2, o2])
        return ("ok", out), f
    if k == "cq":
        num = op[1]
        if num == 0:
            return ("ok", None), f
        if not cq_judged(n):
            return ("any",), f
        lad = LADDER_P if simple_no(n) in (1, 4, 5) else LADDER_I
        if q not in lad or not 0 <= lad.index(q) + num < len(lad):
            return ("err",), f
        return ("ok", None), (n, lad[lad.index(q) + num], d)
    if k == "setq":
        return ("ok", None), (n, op[1], d)
    if k == "setn":
        return ("ok", None), (op[1], q, d)
    if k == "setd":
        return ("ok", None), (n, q, op[1])
    if k == "validate":
        return (("ok", None) if iv_size(simple_no(n), q) is not None and d in ("up", "down") else ("err",)), f
    if k == "str":
        return ("ok", "%d%s" % (n, q)), f
    raise ValueError(op)


def h_judge(exp, got):
    if exp[0] == "any":
        return True
    if exp[0] == "err":
        return got[0] == "err"
    if exp[0] == "ok_or_err":
        return got[0] == "err" or got == ("ok", exp[1])
    if exp[0] == "ok":
        if got[0] == "ok" and isinstance(exp[1], list) and exp[1] and isinstance(exp[1][0], list) and isinstance(got[1], list):
            return [[p[0], p[1] or 0, p[2]] for p in got[1]] == exp[1]   # spellings: alter None reads as 0
        return got == exp
    raise ValueError(exp)


def h_same(a, b):
    """two observations of the same call agree (exceptions: both raised, whatever the class)"""
    return (a[0] != "ok" and b[0] != "ok") or a == b


def iv_build_part(S, notes):
    p = S.Part("H", part_name="history", quarter_duration=4)
    p.add(S.TimeSignature(4, 4), 0)
    t, k = 0, 0
    for st, al, oc, kind in notes:
        if kind == "grace":
            p.add(S.GraceNote("acciaccatura", st, oc, al, id="h%03d" % k, voice=1), t, t)
            k += 1
        elif kind == "tie":
            a = S.Note(st, oc, al, id="h%03d" % k, voice=1)
            b = S.Note(st, oc, al, id="h%03d" % (k + 1), voice=1)
            p.add(a, t, t + 2)
            p.add(b, t + 2, t + 4)
            a.tie_next, b.tie_prev = b, a
            k += 2
        else:
            p.add(S.Note(st, oc, al, id="h%03d" % k, voice=1), t, t + 4)
            k += 1
        t += 4
    return p


def _part_pitches(p):
    return [[str(n.step), _py(n.alter), _py(n.octave)] for n in sorted(p.notes, key=lambda n: n.id)]


def iv_fields(iv):
    try:
        return (_py(iv.number), _py(iv.quality), _py(iv.direction))
    except Exception as e:
        return ("unreadable", type(e).__name__, "")


def iv_apply(iv, op, S, M):
    """one operation on the real object -> its observation"""
    import re
    k = op[0]
    if k == "read":
        return _int_norm(_try(lambda: iv.semitones))
    if k == "tn":
        r = _try(M.transpose_note, op[1], op[2], iv)
        if r[0] != "ok":
            return r
        try:
            st, al = r[1]
            al = _py(al)
            if not isinstance(st, str) or isinstance(al, bool) or not isinstance(al, int):
                raise TypeError
            return ("ok", [st, al])
        except Exception:
            return ("bad", "malformed result %r" % (r[1],))
    if k == "tr":
        part = iv_build_part(S, op[1])
        before = _part_pitches(part)
        r = _try(M.transpose, part, iv)
        if r[0] != "ok":
            return r
        if _part_pitches(part) != before:
            return ("bad", "transpose modified its argument: %r -> %r" % (before, _part_pitches(part)))
        try:
            out = _part_pitches(r[1])
        except Exception:
            return ("bad", "malformed result %r" % (r[1],))
        if len(out) != len(before) or r[1] is part:
            return ("bad", "result is not a new part with the notes of the argument")
        return ("ok", out)
    if k == "cq":
        r = _try(iv.change_quality, op[1])
        if r[0] != "ok":
            return r
        # "Returns the interval with the new quality": the object, or an interval denoting the same
        if r[1] is iv or iv_fields(r[1]) == iv_fields(iv):
            return ("ok", None)
        return ("bad", "returned %r" % (r[1],))
    if k in ("setq", "setn", "setd"):
        r = _try(setattr, iv, {"setq": "quality", "setn": "number", "setd": "direction"}[k], op[1])
        return ("ok", None) if r[0] == "ok" else r
    if k == "validate":
        r = _try(iv.validate)
        return ("ok", None) if r[0] == "ok" else r
    if k == "str":
        r = _try(str, iv)
        if r[0] != "ok":
            return r
        m = re.search(r'"([^"]*)"\s*$', r[1])
        return ("ok", m.group(1)) if m else ("bad", "no quoted text in %r" % r[1])
    raise ValueError(op)


def op_text(op):
    k = op[0]
    if k == "tn":
        return "transpose_note(%r, %r, iv)" % (op[1], op[2])
    if k == "tr":
        return "transpose(part%r, iv)" % ([tuple(x) for x in op[1]],)
    if k == "cq":
        return ".change_quality(%r)" % (op[1],)
    if k in ("setq", "setn", "setd"):
        return ".%s = %r" % ({"setq": "quality", "setn": "number", "setd": "direction"}[k], op[1])
    return {"read": ".semitones", "validate": ".validate()", "str": "str(iv)"}[k]


def run_iv_history(hist):
    """Apply the history to ONE real Interval.  -> (failures, trace); trace = [(op, observation, fields after)].
    Stops at the first failing step."""
    import partitura.score as S
    import partitura.utils.music as M
    f = tuple(hist["init"])
    made = _try(S.Interval, *f)
    if made[0] != "ok":
        return ["Interval%r is rejected by the constructor: %r" % (f, made)], []
    iv = made[1]
    fails, trace = [], []
    for idx, op in enumerate(hist["ops"]):
        op = tuple(op)
        exp, f2 = iv_expect(f, op)
        got = iv_apply(iv, op, S, M)
        now = iv_fields(iv)
        where = "iv = Interval%r; %s; then %s" % (tuple(hist["init"]), ", ".join(op_text(tuple(o)) for o in hist["ops"][:idx]) or "nothing else",
                                                 op_text(op))
        if exp[0] == "any" and op[0] == "cq" and len(now) == 3 and now[0] == f[0] and now[2] == f[2] and isinstance(now[1], str):
            f2 = now
        if not h_judge(exp, got):
            size = iv_size(f[0], f[1])
            if size is None and isinstance(f[0], int) and f[0] > 7 and iv_size(simple_no(f[0]), f[1]) is not None:
                size = "%d: the %s%d plus %d octave(s); Interval.semitones has no entry for compound numbers" % (
                    12 * ((f[0] - 1) // 7) + iv_size(simple_no(f[0]), f[1]), f[1], simple_no(f[0]), (f[0] - 1) // 7)
            fails.append("%s -> %r; the object now denotes %s%s %s (defined size %s): expected %s"
                         % (where, got, f[1], f[0], f[2], size if size is not None else "none: not an interval class",
                            {"ok": "%r" % (exp[1:] + (None,))[0:1], "err": "a rejection", "ok_or_err": "%r or a rejection" % (exp[1:] + (None,))[0:1]}.get(exp[0])))
        elif now != tuple(f2):
            fails.append("%s left the fields (number, quality, direction) = %r, expected %r" % (where, now, tuple(f2)))
        elif op[0] in ("read", "tn", "tr", "validate", "str"):
            fr = _try(S.Interval, *f)   # a freshly constructed interval of the current fields answers the same
            if fr[0] == "ok":
                gf = iv_apply(fr[1], op, S, M)
                if not h_same(got, gf):
                    fails.append("%s -> %r, but a freshly constructed Interval%r answers %r" % (where, got, f, gf))
        trace.append((op, got, now))
        if fails:
            break
        f = tuple(f2)
    return fails, trace


def _c_iv(f):
    return "(mk_interval %s %s %s)" % (cz(f[0]), cstr(f[1]), cstr(f[2]))


def _c_note(p):
    return "(mk_note %s %s %s)" % (cstr(p[0]), copt(p[1], cz), cz(p[2]))


def _c_op(op):
    k = op[0]
    if k == "tn":
        return "(OpTn %s %s)" % (cstr(op[1]), cz(op[2]))
    if k == "tr":
        return "(OpTr %s)" % clist([_c_note(p) for p in tr_emitted(op[1])])
    if k in ("cq", "setn"):
        return "(%s %s)" % ({"cq": "OpCq", "setn": "OpSetN"}[k], cz(op[1]))
    if k in ("setq", "setd"):
        return "(%s %s)" % ({"setq": "OpSetQ", "setd": "OpSetD"}[k], cstr(op[1]))
    return {"read": "OpRead", "validate": "OpValidate", "str": "OpStr"}[k]


def _c_obs(op, got):
    k = op[0]
    ok = got[0] == "ok"
    if k == "read":
        return "(ObZ %s)" % _res(got, cz)
    if k == "tn":
        return "(ObSA %s)" % ("(Some (%s, %s))" % (cstr(got[1][0]), cz(got[1][1])) if ok else "None")
    if k == "tr":
        return "(ObNotes %s)" % ("(Some %s)" % clist([_c_note(p) for p in got[1]]) if ok else "None")
    if k == "str":
        return "(ObS %s)" % cstr(got[1] if ok else "<raised>")
    return "(ObU %s)" % ("(Some tt)" if ok else "None")


def iv_history_term(hist, trace):
    return "hist_ok (%s, %s)" % (_c_iv(hist["init"]), clist(["(%s, %s, %s)" % (_c_op(o), _c_obs(o, g), _c_iv(f)) for o, g, f in trace]))


def _h_printable(trace):
    try:
        for o, g, f in trace:
            if g[0] == "bad" or len(f) != 3 or isinstance(f[0], bool) or not isinstance(f[0], int):
                return False
            for s in (f[1], f[2]):
                if not isinstance(s, str) or not all(32 <= ord(c) < 127 for c in s):
                    return False
        return True
    except Exception:
        return False


H_NOTE_ALTERS = [None, 0, 0, 1, -1, 2, -2]


def gen_iv_history(rng, init, length, with_tr):
    """ops chosen from the fields the object SHOULD have at that moment.  Weights (with_tr / without): .semitones
    .16/.24, transpose_note .14/.18, transpose(part) .18/0, change_quality .22/.24 (half of them a move that stays on
    the ladder, the rest 0, one beyond either end, anything in -6..6), quality := .08/.10 (70% a quality valid
    for the number), number := .08/.09 (60% 1..7, 25% 8..16, else 0 / negative / large), direction := .06/.05,
    validate .05/.06, str .03/.04; every history ends with a sweep of all reads."""
    f = tuple(init)
    ops = []

    def tn():
        st = rng.choice(STEPS7)
        return ("tn", st.lower() if rng.random() < 0.1 else st, rng.choice([0, 0, 1, -1, 2, -2, 1, -1, 3, -3]))

    def tr():
        notes = []
        for _ in range(rng.randint(1, 3)):
            notes.append([rng.choice(["B", "C"]) if rng.random() < 0.25 else rng.choice(STEPS7), rng.choice(H_NOTE_ALTERS),
                          rng.randint(0, 8), rng.choice(["note", "note", "tie", "grace"])])
        return ("tr", notes)

    W = [("read", .16), ("tn", .14), ("tr", .18), ("cq", .22), ("setq", .08), ("setn", .08), ("setd", .06), ("validate", .05), ("str", .03)] if with_tr else \
        [("read", .24), ("tn", .18), ("tr", 0), ("cq", .24), ("setq", .10), ("setn", .09), ("setd", .05), ("validate", .06), ("str", .04)]
    for _ in range(length):
        n, q, d = f
        k = rng.choices([w[0] for w in W], [w[1] for w in W])[0]
        tr_ok = with_tr and iv_size(n, q) is not None and d in ("up", "down")
        if k == "tr" and not tr_ok:
            k = "read"
        if k == "cq" and not cq_judged(n):
            k = "setn"
        if k == "read":
            op = ("read",)
        elif k == "tn":
            op = tn()
        elif k == "tr":
            op = tr()
        elif k == "cq":
            lad = LADDER_P if simple_no(n) in (1, 4, 5) else LADDER_I
            r = rng.random()
            if q in lad and r < 0.5:
                op = ("cq", rng.choice([j for j in range(len(lad)) if j != lad.index(q)]) - lad.index(q))
            elif r < 0.65:
                op = ("cq", 0)
            elif q in lad and r < 0.85:
                op = ("cq", rng.choice([-lad.index(q) - 1, len(lad) - lad.index(q)]))
            else:
                op = ("cq", rng.randint(-6, 6))
        elif k == "setq":
            sn = simple_no(n) if isinstance(n, int) else 1
            lad = LADDER_P if sn in (1, 4, 5) else LADDER_I
            r = rng.random()
            op = ("setq", rng.choice(lad) if r < 0.7 else rng.choice([x for x in QUALS if x not in lad]) if r < 0.9 else rng.choice(["x", "", "p", "MM"]))
        elif k == "setn":
            r = rng.random()
            op = ("setn", rng.randint(1, 7) if r < 0.6 else rng.randint(8, 16) if r < 0.85 else rng.choice([0, -1, -6, 22, 100]))
        elif k == "setd":
            op = ("setd", rng.choice(["up", "down", "up", "down", "up", "down", "up", "down", "sideways", "Up"]))
        else:
            op = (k,)
        ops.append(list(op))
        f = tuple(iv_expect(f, op)[1])
    n, q, d = f
    ops += [["read"], ["tn", "C", 0], ["validate"], ["str"]]
    if with_tr and iv_size(n, q) is not None and d in ("up", "down"):
        ops.append(list(tr()))
    return {"init": list(init), "ops": ops}


def iv_inits(rng, tier):
    """quick: all 39 classes x both directions twice + 60 of them again + 60 of the 156 compound inits (numbers 8..16
    with every quality validate accepts, both directions); thorough: every simple init 12 times, every compound one 3 times"""
    simple = [(n, q, d) for n in range(1, 8) for q in QUALS if iv_size(n, q) is not None for d in ("up", "down")]
    compound = [(n, q, d) for n in range(8, 17) for q in QUALS if iv_size(simple_no(n), q) is not None for d in ("up", "down")]
    if tier == "quick":
        return simple * 2 + rng.sample(simple, 60) + rng.sample(compound, 60)
    return simple * 12 + compound * 3


# ---- the other small objects whose derived values C12 names
OBJ_FIELDS = {"note": ["step", "octave", "alter"], "tuplet": ["actual_notes", "normal_notes", "actual_type", "normal_type"],
              "keysig": ["fifths", "mode"], "tempo": ["bpm", "unit"]}
OBJ_READS = {"note": ["midi_pitch", "alter_sign"], "tuplet": ["duration_multiplier"], "keysig": ["name"], "tempo": ["microseconds_per_quarter"]}
H_TYPES = [None, None, "eighth", "quarter", "16th", "half", "e", "q"]


def obj_pool(rng, kind, field):
    if kind == "note":
        if field == "step":
            st = rng.choice(STEPS7)
            return st.lower() if rng.random() < 0.1 else st
        if field == "alter":
            return rng.choice([None, 0, 1, -1, 2, -2, 1, -1, 3, -3])
        return rng.randint(-1, 9)
    if kind == "tuplet":
        if field == "actual_notes":
            return rng.choice([2, 3, 5, 6, 7, 3, 5, 0])
        if field == "normal_notes":
            return rng.choice([2, 3, 4, 8, 2, 4])
        return rng.choice(H_TYPES)
    if kind == "keysig":
        if field == "fifths":
            return rng.choice([rng.randint(-7, 7), rng.randint(-7, 7), rng.choice([-8, 8, -7, 7, -12, 12, 0])])
        return rng.choice([m for m, _ in MODES])
    if field == "bpm":
        return rng.choice(BPMS)
    return rng.choice([None, None] + [u + "." * k for u in sorted(LAB) for k in range(4)])


def obj_make(S, kind, f):
    if kind == "note":
        return S.Note(step=f["step"], octave=f["octave"], alter=f["alter"])
    if kind == "tuplet":
        return S.Tuplet(actual_notes=f["actual_notes"], normal_notes=f["normal_notes"], actual_type=f["actual_type"], normal_type=f["normal_type"])
    if kind == "keysig":
        return S.KeySignature(f["fifths"], f["mode"])
    return S.Tempo(f["bpm"], f["unit"])


def obj_expect(kind, f, attr):
    """the derived value from the CURRENT fields: ('ok', v) | ('err',) | ('close', Fraction) | ('near', Fraction) | ('sign', alter)"""
    if kind == "note":
        if attr == "midi_pitch":
            m = midi_of(f["step"], f["alter"] or 0, f["octave"])
            return ("ok", m) if m is not None else ("err",)
        return ("sign", f["alter"])
    if kind == "tuplet":
        an, nn, at, nt = f["actual_notes"], f["normal_notes"], f["actual_type"], f["normal_type"]
        if an == 0 or (at != nt and (at not in LAB or nt not in LAB)):
            return ("err",)
        return ("close", Fraction(nn, an) if at == nt else Fraction(nn, an) * LAB[nt] / LAB[at])
    if kind == "keysig":
        e = key_expect(f["fifths"], f["mode"])
        return ("ok", e) if e is not None else ("err",)
    u = f["unit"] or "q"
    return ("near", Fraction(60 * 10 ** 6) / (Fraction(f["bpm"]) * LAB[u.rstrip(".")] * dot_mult(len(u) - len(u.rstrip(".")))))


def obj_judge(exp, got):
    if exp[0] == "ok":
        return got == exp
    if exp[0] == "err":
        return got[0] != "ok"
    if exp[0] == "close":
        return got[0] == "ok" and close(got[1], exp[1])
    if exp[0] == "near":
        return got[0] == "ok" and isinstance(got[1], int) and abs(exp[1] - got[1]) <= Fraction(1, 2) + Fraction(1, 10 ** 6)
    al = exp[1]   # alter_sign: the signs read back as the alteration; None and -2..2 are documented
    if got[0] == "ok":
        return isinstance(got[1], str) and all(c in ACC_ALPHABET for c in got[1]) and sign_value(got[1]) == (al or 0)
    return not (al is None or -2 <= al <= 2)


def obj_read(o, attr):
    r = _try(lambda: getattr(o, attr))
    if r[0] != "ok":
        return r
    v = _py(r[1])
    if attr in ("midi_pitch", "microseconds_per_quarter"):
        return _int_norm(("ok", v))
    return ("ok", v)


def run_obj_history(hist):
    """-> (failures, reads); reads = [(fields at that moment, attribute, observation)]"""
    import partitura.score as S
    kind = hist["object"]
    f = dict(hist["init"])
    made = _try(obj_make, S, kind, f)
    if made[0] != "ok":
        return ["%s%r is rejected by the constructor: %r" % (kind, f, made)], []
    o = made[1]
    if kind == "note":
        f["step"] = f["step"].upper()   # the constructor stores the letter in upper case
    fails, reads = [], []
    for idx, op in enumerate(hist["ops"]):
        where = "%s%r; then %s" % (kind, hist["init"], ", ".join("%s=%r" % (x[1], x[2]) if x[0] == "set" else x[1] for x in hist["ops"][:idx + 1]))
        if op[0] == "set":
            r = _try(setattr, o, op[1], op[2])
            if r[0] != "ok":
                fails.append("%s: the assignment raised %r" % (where, r))
                break
            f[op[1]] = op[2]
            continue
        exp = obj_expect(kind, f, op[1])
        got = obj_read(o, op[1])
        if not obj_judge(exp, got):
            fails.append("%s -> %r; from the current fields %r the value is %s" % (where, got, f, (str(exp[1]) if len(exp) > 1 else "a rejection")
                                                                                  if exp[0] != "sign" else "signs worth %r semitone(s)" % (exp[1] or 0)))
            break
        fr = _try(obj_make, S, kind, f)
        if fr[0] == "ok":
            gf = obj_read(fr[1], op[1])
            if not h_same(got, gf):
                fails.append("%s -> %r, but a freshly constructed %s%r answers %r" % (where, got, kind, f, gf))
                break
        reads.append((dict(f), op[1], got))
    return fails, reads


def gen_obj_history(rng, kind, length):
    init = {fld: obj_pool(rng, kind, fld) for fld in OBJ_FIELDS[kind]}
    if kind == "tuplet" and init["actual_notes"] == 0:
        init["actual_notes"] = 3
    ops = []
    for _ in range(length):
        if rng.random() < 0.5:
            fld = rng.choice(OBJ_FIELDS[kind])
            ops.append(["set", fld, obj_pool(rng, kind, fld)])
        else:
            ops.append(["read", rng.choice(OBJ_READS[kind])])
    ops += [["read", a] for a in OBJ_READS[kind]]
    return {"object": kind, "init": init, "ops": ops}


def obj_read_term(kind, f, attr, got):
    """one read as a Coq boolean: the definition translated from the source text (or the hand model) on the
    fields the object had at that moment against what the real object answered"""
    byq = {t.qualname: t for t in t1.TARGETS}
    if kind == "tempo":
        if got[0] != "ok":
            return None
        u = f["unit"] or "q"
        return "match C12.mpq_exact %s %s %s with Some e => C12.mpq_nearest %s e | None => false end" % (
            cstr(u.rstrip(".")), cz(len(u) - len(u.rstrip("."))), cq(Fraction(f["bpm"])), cz(got[1]))
    tgt = byq[{"midi_pitch": "Note.midi_pitch", "alter_sign": "Note.alter_sign", "duration_multiplier": "Tuplet.duration_multiplier",
               "name": "KeySignature.name"}[attr]]
    rec = tgt.self_type
    if kind == "note" and not (isinstance(f["step"], str) and f["step"].isascii()):
        return None
    args = (tuple(f[name] for name, _ in rec.fields),)
    try:
        r = ("ok", t1._norm(got[1], tgt.ret)) if got[0] == "ok" else ("err", "")
    except TypeError:
        return None
    return "%s %s %s" % (t1.agree_fn(tgt, impl=True), t1.call_term("T1_music.", tgt.coqname, tgt, args), t1.cres(r, tgt))


def _fail_kind(res):
    """kind of the operation at which a history failed (the last step of its trace), None when it did not fail"""
    fails, trace = res
    if not fails:
        return None
    return trace[-1][0][0] if trace and isinstance(trace[-1][0], tuple) else "?"


def shrink_history(hist, runner):
    """ddmin over the operations; a sub-history counts only when it still fails at the same kind of operation"""
    try:
        kind = _fail_kind(runner(hist))
    except Exception:
        return hist

    def fails(sub):
        try:
            return _fail_kind(runner(dict(hist, ops=[list(o) for o in sub]))) == kind
        except Exception:
            return False
    try:
        if kind is None or len(hist["ops"]) < 2:
            return hist
        return dict(hist, ops=[list(o) for o in core.ddmin(hist["ops"], fails)])
    except Exception:
        return hist


def run_histories(ctx, with_tr=False, objects=True):
    """The history stream (quick and thorough): direct oracle on every step + the Coq machine of Model/C12_Interval.v
    (and, for the other objects, the definitions translated from the source) evaluated on the same histories."""
    rng = ctx.rng
    quick = ctx.tier == "quick"
    terms, kept = [], []
    nfail, failed = 0, []
    hists = []
    try:   # hand-written / minimised past failures: corpus/C12/histories.json (corpus/C16 for the transposing stream)
        import json
        with open(os.path.join(core.VERIF, "corpus", "C16" if with_tr else "C12", "histories.json")) as fh:
            for h in json.load(fh):
                hists.append({"init": h["init"], "ops": h["ops"], "kind": "history", "object": "interval"})
        ctx.count("history:corpus_histories", len(hists))
    except (OSError, ValueError, KeyError) as e:
        ctx.extra["history_corpus"] = "not read: %r" % (e,)
    for init in iv_inits(rng, ctx.tier):
        hists.append(dict(gen_iv_history(rng, init, rng.randint(5, 9) if quick else rng.randint(6, 14), with_tr), kind="history", object="interval"))
    for hist in hists:
        fails, trace = run_iv_history(hist)
        ctx.evaluations += len(trace)
        ctx.count("history:interval_histories")
        ctx.count("history:interval_steps", len(trace))
        for o, g, f in trace:
            ctx.count("history:op_" + o[0])
        if fails:
            simple = bool(trace) and isinstance(trace[-1][2][0], int) and 1 <= trace[-1][2][0] <= 7
            failed.append((hist, fails, trace[-1][0][0] if trace else "?", 0 if simple else 1))
            continue
        ctx.nontrivial(("ivh", hist["init"], hist["ops"]))
        if _h_printable(trace):
            terms.append(iv_history_term(hist, trace))
            kept.append(hist)
        if len(ctx.samples) < 5 and len(terms) == 3:
            ctx.sample({"interval_history": {"init": hist["init"], "steps": [[list(o), list(g), list(f)] for o, g, f in trace]}})
    n_iv = len(terms)
    # report (shrunk) the failing histories: first those that fail at the operations this property is about
    prio = ["tr", "tn", "read"] if with_tr else ["read", "tn", "tr"]
    failed.sort(key=lambda x: (x[3], prio.index(x[2]) if x[2] in prio else len(prio)))   # simple numbers first; stable otherwise
    ctx.count("history:interval_histories_failing", len(failed))
    for hist, fails, _, _ in failed[:3]:
        small = shrink_history(hist, run_iv_history)
        f2 = run_iv_history(small)[0] or fails
        ctx.violation("state carried on an Interval object between calls: " + "; ".join(f2)[:900], dict(small, failures=f2))
    nfail = len(failed)
    if objects:
        per = 60 if quick else 600
        for kind in sorted(OBJ_FIELDS):
            for _ in range(per):
                hist = dict(gen_obj_history(rng, kind, rng.randint(4, 8)), kind="history")
                fails, reads = run_obj_history(hist)
                ctx.evaluations += len(reads)
                ctx.count("history:%s_histories" % kind)
                ctx.count("history:%s_reads" % kind, len(reads))
                if fails:
                    nfail += 1
                    if nfail <= 3:
                        small = shrink_history(hist, run_obj_history)
                        f2 = run_obj_history(small)[0] or fails
                        ctx.violation("derived value not recomputed from the current fields: " + "; ".join(f2)[:900], dict(small, failures=f2))
                    continue
                ctx.nontrivial(("objh", kind, hist["init"], hist["ops"]))
                for f, attr, got in reads:
                    t = obj_read_term(kind, f, attr, got)
                    if t is not None:
                        terms.append(t)
                        kept.append({"kind": "history", "object": kind, "fields": f, "read": attr, "got": list(got)})
    try:
        failing = ctx.coq_failing("history", H_IMPORTS, "", terms, "fun b : bool => b", shard=max(50, (len(terms) + 2 * core.NJOBS - 1) // (2 * core.NJOBS)))
        detail = failing[:5]
    except RuntimeError as e:
        failing, detail = [-1], str(e)[-1500:]
    ctx.obligation("correspondence: the Interval state machine of Model/C12_Interval.v (step_code: reads = the definitions translated from the source, "
                   "change_quality = the method's ladders) replayed on %d generated histories of operations on real score.Interval objects agrees on every "
                   "observation and on the public fields after every step%s" % (n_iv, "; %d reads of Note.midi_pitch / alter_sign, Tuplet.duration_multiplier, "
                   "KeySignature.name, Tempo.microseconds_per_quarter after assignments = the translated definitions on the fields of that moment" % (len(terms) - n_iv) if objects else ""),
                   not failing, detail)
    for i in failing[:3]:
        if i < 0:
            ctx.violation("history correspondence could not be evaluated in Coq: " + str(detail)[-600:], {"kind": "coq", "error": detail}, no_input=True)
        else:
            ctx.violation("Coq model and implementation disagree on a history (the Python oracle accepted it)", kept[i])


# ----------------------------------------------------------------------------
# FUNCTION HISTORIES: state carried between calls of the module-level conversions.
# The object stream above covers derived values of Interval / Note / Tuplet / KeySignature / Tempo.  This stream
# covers what a one-shot table cannot see in the FUNCTIONS: a memo keyed by the identity of an argument array that
# is edited in place afterwards, a cache keyed by too little (t, mpq without ppq; a frequency without a4), a result
# that is a view of the caller's array or of a module-level buffer, an argument converted in place, a module table
# changed by an earlier call, a dtype inherited from the input.  A history owns a POOL of variables (numpy arrays
# of every accepted dtype / 0-d / one-element / empty / 2-d, a symbolic-duration dict) next to a SHADOW pool of
# private deep copies that never reach partitura.  Operations: call f(args from the pool or constants) -> new
# variable; write into / scale in place an array of the pool (arguments AND returned arrays); edit the dict.
# After EVERY operation: (1) a call's result is judged from the CURRENT values of its arguments by the
# independent oracles; (2) every variable of the pool equals its shadow (a call changes nothing that exists, an
# edit changes exactly its target: results share no data with arguments, other results or module state);
# (3) the same call on fresh deep copies of the arguments gives the same answer; at the end every call is
# repeated in REVERSE order on fresh copies and must give what it gave, and the module tables are unchanged.

FH_TABLES = ["MIDI_BASE_CLASS", "BASE_PC", "STEPS", "DUMMY_PS_BASE_CLASS", "MAJOR_KEYS", "MINOR_KEYS", "INTERVAL_TO_SEMITONES",
             "LABEL_DURS", "DOT_MULTIPLIERS", "ALT_TO_INT", "INT_TO_ALT", "CLEF_TO_INT", "INT_TO_CLEF", "INTERVALCLASSES", "ALTER_SIGNS"]
FH_NP_KINDS = ("int64", "int32", "float64", "float32")
FH_A4 = [440.0, 415.0, 442.0, 440]


def tables_snapshot():
    """deep copy (as a printable canonical form) of the constant tables C12 lists, read from the live modules"""
    import partitura.utils.globals as G
    import partitura.utils.music as M
    out = {}
    for mod, names in ((G, FH_TABLES), (M, FH_TABLES + ["SIGN_TO_ALTER"])):
        for n in names:
            v = getattr(mod, n, None)
            if isinstance(v, dict):
                out[mod.__name__.rsplit(".", 1)[-1] + "." + n] = sorted((repr(k), repr(x)) for k, x in v.items())
            elif isinstance(v, (list, tuple)):
                out[mod.__name__.rsplit(".", 1)[-1] + "." + n] = [repr(x) for x in v]
    return out


def tables_diff(a, b):
    return ["%s: %s -> %s" % (k, [x for x in a.get(k, []) if x not in b.get(k, [])][:3] or len(a.get(k, [])),
                              [x for x in b.get(k, []) if x not in a.get(k, [])][:3] or len(b.get(k, [])))
            for k in sorted(set(a) | set(b)) if a.get(k) != b.get(k)]


def fh_build(spec):
    import numpy as np
    t = spec["t"]
    if t == "arr":
        vals = [float.fromhex(x) if isinstance(x, str) else x for x in spec["v"]]
        return np.array(vals, dtype=spec["dtype"]).reshape(spec["shape"])
    if t == "num":
        v = float.fromhex(spec["v"]) if isinstance(spec["v"], str) else spec["v"]
        return v if spec["kind"] in ("int", "float") else getattr(np, spec["kind"])(v)
    if t == "dict":
        return dict(spec["v"])
    return spec["v"]


def fh_copy(o):
    import numpy as np
    import copy
    if isinstance(o, np.ndarray):
        return np.array(o, copy=True, order="C")
    return copy.deepcopy(o)


def fh_snap(o):
    import numpy as np
    if isinstance(o, np.ndarray):
        return ("arr", o.dtype.str, tuple(o.shape), np.ascontiguousarray(o).tobytes())
    if isinstance(o, dict):
        return ("dict", tuple(sorted((str(k), repr(v)) for k, v in o.items())))
    if isinstance(o, (list, tuple)):
        return (type(o).__name__, tuple(fh_snap(x) for x in o))
    return ("val", type(o).__name__, repr(o))


def fh_show(o):
    import numpy as np
    if isinstance(o, np.ndarray):
        return "array(%s, dtype=%s)" % (o.tolist(), o.dtype)
    return repr(o)


def fh_elems(o):
    """-> (shape or None for a scalar, list of Python numbers, dtype string or None)"""
    import numpy as np
    if isinstance(o, np.ndarray):
        return tuple(o.shape), o.ravel().tolist(), o.dtype.str.lstrip("<>=|")
    if isinstance(o, np.generic):
        return None, [o.item()], o.dtype.str.lstrip("<>=|")
    return None, [o], None


def _is_num(x):
    return isinstance(x, (int, float)) and not isinstance(x, bool) and (isinstance(x, int) or math.isfinite(x))


def fh_expect(fn, args):
    """What the call must return, from the CURRENT values of its arguments only.
    ('elems', shape|None, [('eq', int) | ('close', Fraction, rel) | ('any',)]) | ('ok', v) | ('err',) | ('ok_or_err', v) | ('any',)"""
    if fn in ("s2t", "s2t_kw", "s2t_alias", "t2s"):
        shape, vals, dt = fh_elems(args[0])
        mpq, ppq = int(args[1]), int(args[2])
        if not all(_is_num(v) for v in vals) or mpq <= 0 or ppq <= 0:
            return ("any",)
        out = []
        for v in vals:
            if fn == "t2s":
                out.append(("close", Fraction(mpq) * Fraction(v) / (10 ** 6 * ppq), Fraction(1, 10 ** 6) if dt == "f4" else Fraction(1, 10 ** 12)))
            else:
                ok, exact, frac = comparable(ppq, mpq, float(v) if isinstance(v, float) else v)
                out.append(("eq", rhe(exact)) if ok else ("any",))
        return ("elems", shape, out)
    if fn == "m2f":
        shape, vals, dt = fh_elems(args[0])
        a4 = float(args[1])
        if not all(_is_num(v) for v in vals):
            return ("any",)
        return ("elems", shape, [("close", Fraction(a4 * 2.0 ** ((v - 69) / 12.0)), Fraction(1, 10 ** 5) if dt in ("f4", "f2") else Fraction(1, 10 ** 9)) for v in vals])
    if fn == "f2m":
        shape, vals, dt = fh_elems(args[0])
        a4 = float(args[1])
        if not all(_is_num(v) and v > 0 for v in vals):
            return ("any",)
        out = []
        for v in vals:
            x = 12 * math.log2(v / a4) + 69
            out.append(("any",) if abs(x - math.floor(x) - 0.5) < (1e-3 if dt in ("f4", "f2") else 1e-6) else ("eq", int(math.floor(x + 0.5))))
        return ("elems", shape, out)
    if fn == "symdur":
        sd, divs = args
        u = sd.get("type", None)
        if u not in LAB:
            return ("err",)
        k = sd.get("dots", 0)
        if not isinstance(_py(k), int) or not 0 <= _py(k) <= 3:
            return ("any",)
        return ("elems", None, [("close", _py(divs) * LAB[u] * dot_mult(_py(k)) * Fraction(_py(sd.get("normal_notes")) or 1, _py(sd.get("actual_notes")) or 1), Fraction(1, 10 ** 9))])
    if fn == "tqt":
        unit, tempo = args
        u = unit.strip().rstrip(".")
        if u not in LAB or unit.count(".") > 3:
            return ("any",)
        return ("elems", None, [("close", Fraction(_py(tempo)) * LAB[u] * dot_mult(unit.count(".")), Fraction(1, 10 ** 9))])
    plain = all(type(a) in (int, str, type(None)) for a in args)   # numpy kinds of scalar arguments: a value, if given, is the same
    def wrap(j):
        return j if plain or j[0] != "ok" else ("ok_or_err", j[1])
    if fn == "ps2m":
        st, al, oc = (_py(a) for a in args)
        m = midi_of(str(st), al or 0, oc)
        return wrap(("ok", m)) if m is not None and str(st) in BASE else ("any",)
    if fn == "m2ps":
        return wrap(("sounds", _py(args[0])))
    if fn in ("nn2ps", "nn2m"):
        try:
            (st, al, oc), documented = parse_spec(args[0])
        except Exception:
            return ("any",)
        if al is None or st not in BASE:
            return ("any",)
        v = (st, al, oc) if fn == "nn2ps" else midi_of(st, al, oc)
        return ("ok", v) if documented else ("ok_or_err", v)
    if fn == "ps2nn":
        return ("name", tuple(_py(a) for a in args))
    if fn == "step2pc":
        st, al = (_py(a) for a in args)
        return wrap(("ok", (BASE[st] + al) % 12)) if st in BASE else ("any",)
    if fn == "f2k":
        f, mode = (_py(a) for a in args)
        mode = str(mode) if isinstance(mode, str) else mode
        e = key_expect(f, mode)
        return wrap(("ok", e)) if e is not None else ("err",)
    if fn == "k2f":
        for f in range(-7, 8):
            for mode in ("major", "minor"):
                if key_expect(f, mode) == args[0]:
                    return ("ok", (f, mode))
        return ("any",)
    if fn in ("mode2int", "int2mode"):
        mc = mode_class(_py(args[0]) if not isinstance(args[0], str) else str(args[0]))
        if mc is None:
            return ("err",)
        return wrap(("ok", mc if fn == "int2mode" else {"major": 1, "minor": -1}[mc]))
    if fn == "clef":
        return ("clef", args[0])
    raise ValueError(fn)


def fh_functions():
    import warnings
    import partitura.utils.music as M

    def alias(t, mpq, ppq):   # the deprecated keyword, as old callers still write it
        with warnings.catch_warnings():
            warnings.simplefilter("ignore")
            return M.seconds_to_midi_ticks(t=t, mpq=mpq, ppq=ppq)
    return {"s2t": M.seconds_to_midi_ticks, "s2t_kw": lambda t, mpq, ppq: M.seconds_to_midi_ticks(time_in_seconds=t, ppq=ppq, mpq=mpq),
            "s2t_alias": alias, "t2s": M.midi_ticks_to_seconds,
            "m2f": M.midi_pitch_to_frequency, "f2m": M.frequency_to_midi_pitch, "symdur": M.symbolic_to_numeric_duration,
            "tqt": M.to_quarter_tempo, "ps2m": M.pitch_spelling_to_midi_pitch, "m2ps": M.midi_pitch_to_pitch_spelling,
            "nn2ps": M.note_name_to_pitch_spelling, "nn2m": M.note_name_to_midi_pitch, "ps2nn": M.pitch_spelling_to_note_name,
            "step2pc": M.step2pc, "f2k": M.fifths_mode_to_key_name, "k2f": M.key_name_to_fifths_mode, "mode2int": M.key_mode_to_int,
            "int2mode": M.key_int_to_mode, "clef": lambda s: M.clef_int_to_sign(M.clef_sign_to_int(s))}


FH_NAMES = {"s2t": "seconds_to_midi_ticks", "s2t_kw": "seconds_to_midi_ticks[time_in_seconds=]", "s2t_alias": "seconds_to_midi_ticks[t=]",
            "t2s": "midi_ticks_to_seconds", "m2f": "midi_pitch_to_frequency", "f2m": "frequency_to_midi_pitch",
            "symdur": "symbolic_to_numeric_duration", "tqt": "to_quarter_tempo", "ps2m": "pitch_spelling_to_midi_pitch",
            "m2ps": "midi_pitch_to_pitch_spelling", "nn2ps": "note_name_to_pitch_spelling", "nn2m": "note_name_to_midi_pitch",
            "ps2nn": "pitch_spelling_to_note_name", "step2pc": "step2pc", "f2k": "fifths_mode_to_key_name", "k2f": "key_name_to_fifths_mode",
            "mode2int": "key_mode_to_int", "int2mode": "key_int_to_mode", "clef": "clef_int_to_sign(clef_sign_to_int)"}


def fh_judge(exp, got, M=None):
    """-> None when the observation is what the current arguments define, else a short reason"""
    import numpy as np
    k = exp[0]
    if k == "any":
        return None
    if k == "err":
        return None if got[0] != "ok" else "expected a rejection"
    if got[0] != "ok":
        return None if k == "ok_or_err" else "raised %s" % (got[1],)
    v = got[1]
    if k in ("ok", "ok_or_err"):
        w = tuple(_py(x) for x in v) if isinstance(v, (tuple, list)) else _py(v)
        if isinstance(exp[1], tuple) and isinstance(w, tuple) and len(w) == 3 and w[1] is None:
            w = (w[0], 0, w[2])
        return None if w == exp[1] and not isinstance(w, bool) else "expected %r" % (exp[1],)
    if k == "sounds":
        r = _ps_norm(got)
        return None if r[0] == "ok" and r[1][0] in BASE and midi_of(*r[1]) == exp[1] else "expected a spelling sounding %r" % (exp[1],)
    if k == "name":
        st, al, oc = exp[1]
        try:
            (pst, pal, poc), _ = parse_spec(v)
        except Exception:
            return "not a string of the grammar [A-G][xb#]*digits"
        return None if (pst, pal, poc) == (str(st).upper(), al, oc) else "reads back as %r" % ((pst, pal, poc),)
    if k == "clef":
        return None if v == exp[1] else "decodes to %r" % (v,)
    shape, items = exp[1], exp[2]
    if shape is None or shape == ():
        if isinstance(v, np.ndarray) and v.ndim > 0:
            return "an array of shape %r for a scalar argument" % (v.shape,)
        vals = [_py(v) if not isinstance(v, np.ndarray) else v.item()]
    else:
        if not isinstance(v, np.ndarray) or tuple(v.shape) != shape:
            return "expected an array of shape %r" % (shape,)
        vals = v.ravel().tolist()
    for j, (x, it) in enumerate(zip(vals, items)):
        if it[0] == "any":
            continue
        if not _is_num(x):
            return "element %d is %r" % (j, x)
        if it[0] == "eq" and not (x == it[1] and float(x) == int(x)):
            return "element %d is %r, from the current argument it is %d" % (j, x, it[1])
        if it[0] == "close" and abs(Fraction(x) - it[1]) > it[2] * abs(it[1]):
            return "element %d is %r, from the current argument it is %s" % (j, x, float(it[1]))
    return None


def fh_same(a, b):
    """the same call on fresh copies of the same arguments: same outcome, same values"""
    import numpy as np
    if a[0] != "ok" or b[0] != "ok":
        return a[0] != "ok" and b[0] != "ok"
    x, y = a[1], b[1]
    if isinstance(x, np.ndarray) or isinstance(y, np.ndarray):
        return isinstance(x, np.ndarray) and isinstance(y, np.ndarray) and x.shape == y.shape and x.tolist() == y.tolist()
    try:
        return bool(x == y)
    except Exception:
        return False


def fh_arg_text(a):
    return a[1] if a[0] == "v" else fh_show(fh_build(a[1]))


def fh_op_text(op):
    k = op[0]
    if k == "call":
        return "%s = %s(%s)" % (op[3], FH_NAMES[op[1]], ", ".join(fh_arg_text(a) for a in op[2]))
    if k == "write":
        return "%s.flat[%d] = %s" % (op[1], op[2], fh_show(fh_build(op[3])))
    if k == "iscale":
        return "%s *= %r" % (op[1], op[2])
    if k == "dset":
        return "%s[%r] = %r" % (op[1], op[2], op[3])
    return "del %s[%r]" % (op[1], op[2])


def run_fn_history(hist, funcs=None, verbose=None):
    """-> (failures [(tag, text)], trace [(op, observation, argument values at the call | None)]).  Stops at the first failing operation."""
    import numpy as np
    funcs = funcs or fh_functions()
    pool = {n: fh_build(s) for n, s in sorted(hist["vars"].items())}
    shadow = {n: fh_copy(o) for n, o in pool.items()}
    tabs = tables_snapshot()
    fails, trace, calls = [], [], []
    done = []

    def where(idx=None):
        return "%s; then %s" % ("; ".join("%s = %s" % (n, fh_show(fh_build(s))) for n, s in sorted(hist["vars"].items())) or "no variables",
                                "; ".join(fh_op_text(o) for o in done))

    def drift(skip=()):
        return [n for n in sorted(pool) if n not in skip and fh_snap(pool[n]) != fh_snap(shadow[n])]

    for idx, op in enumerate(hist["ops"]):
        k = op[0]
        if k == "call":
            fn, argrefs, out = op[1], op[2], op[3]
            if any(a[0] == "v" and a[1] not in pool for a in argrefs):
                continue
            args = [pool[a[1]] if a[0] == "v" else fh_build(a[1]) for a in argrefs]
            sargs = [shadow[a[1]] if a[0] == "v" else fh_build(a[1]) for a in argrefs]
            before = [fh_snap(a) for a in args]
            exp = fh_expect(fn, sargs)
            got = _try(funcs[fn], *args)
            done.append(op)
            why = fh_judge(exp, got)
            if verbose is not None:
                verbose("  %-60s -> %s%s" % (fh_op_text(op), fh_show(got[1]) if got[0] == "ok" else got, "" if why is None else "   <-- " + why))
            if why is not None:
                fails.append(("value:" + fn, "%s -> %s: %s (arguments now: %s)" % (where(idx), fh_show(got[1]) if got[0] == "ok" else got, why,
                                                                                     ", ".join(fh_show(a) for a in sargs))))
            elif [fh_snap(a) for a in args] != before:
                j = next(j for j, a in enumerate(args) if fh_snap(a) != before[j])
                fails.append(("argument-modified:" + fn, "%s changed its argument %d from %s to %s" % (where(idx), j, fh_show(sargs[j]), fh_show(args[j]))))
            elif drift():
                n = drift()[0]
                fails.append(("other-variable-changed:" + fn, "%s changed the variable %s (not an argument of this call) from %s to %s"
                              % (where(idx), n, fh_show(shadow[n]), fh_show(pool[n]))))
            else:
                again = _try(funcs[fn], *[fh_copy(a) for a in sargs])
                if not fh_same(got, again):
                    fails.append(("fresh-copy:" + fn, "%s -> %s, but the same call on fresh copies of the same arguments -> %s"
                                  % (where(idx), fh_show(got[1]) if got[0] == "ok" else got, fh_show(again[1]) if again[0] == "ok" else again)))
            trace.append((op, got if got[0] != "ok" else ("ok", fh_copy(got[1])), [fh_copy(a) for a in sargs]))   # copies: the live result may be edited later
            if fails:
                break
            calls.append((idx, fn, [fh_copy(a) for a in sargs], got if got[0] != "ok" else ("ok", fh_copy(got[1]))))
            if got[0] == "ok":
                pool[out] = got[1]
                shadow[out] = fh_copy(got[1])
            else:
                pool.pop(out, None)
                shadow.pop(out, None)
            continue
        name = op[1]
        if name not in pool:
            continue
        tgt, sh = pool[name], shadow[name]
        if k in ("write", "iscale"):
            if not isinstance(tgt, np.ndarray) or tgt.size == 0 or not tgt.flags.writeable:
                continue
            try:
                if k == "write":
                    val = fh_build(op[3])
                    tgt.flat[op[2] % tgt.size] = val
                    sh.flat[op[2] % sh.size] = val
                else:
                    np.multiply(tgt, op[2], out=tgt, casting="unsafe")
                    np.multiply(sh, op[2], out=sh, casting="unsafe")
            except Exception:
                continue
        elif k in ("dset", "ddel"):
            if not isinstance(tgt, dict):
                continue
            for d in (tgt, sh):
                if k == "dset":
                    d[op[2]] = op[3]
                else:
                    d.pop(op[2], None)
        done.append(op)
        if verbose is not None:
            verbose("  %s" % fh_op_text(op))
        trace.append((op, None, None))
        if drift():
            n = drift()[0]
            fails.append(("shared-data:" + k, "%s also changed the variable %s from %s to %s: they share data"
                          % (where(idx), n, fh_show(shadow[n]), fh_show(pool[n]))))
            break
    if not fails:
        for idx, fn, sargs, got in reversed(calls):   # every call again, in reverse order, on fresh copies of what it was given
            again = _try(funcs[fn], *[fh_copy(a) for a in sargs])
            if not fh_same(got, again):
                fails.append(("reverse-order:" + fn, "%s: %s(%s) gave %s; repeated after the later operations, on fresh copies, it gives %s"
                              % (where(len(hist["ops"]) - 1), FH_NAMES[fn], ", ".join(fh_show(a) for a in sargs),
                                 fh_show(got[1]) if got[0] == "ok" else got, fh_show(again[1]) if again[0] == "ok" else again)))
                break
    if not fails:
        d = tables_diff(tabs, tables_snapshot())
        if d:
            fails.append(("table", "%s changed a constant table: %s" % (where(len(hist["ops"]) - 1), "; ".join(d)[:400])))
    return fails, trace


def _fh_num(rng, v):
    """a time / tick / pitch as one of the accepted scalar kinds"""
    if isinstance(v, int):
        kind = rng.choice(["int", "int", "int64", "int32", "float", "float64"])
    else:
        kind = rng.choice(["float", "float", "float64", "float32"])
    if kind.startswith("float") and isinstance(v, int):
        v = float(v)
    return {"t": "num", "kind": kind, "v": v.hex() if isinstance(v, float) else v}


def _fh_time(rng, ppq, mpq, s):
    """a time in seconds for the pair: exact half ticks where the pair allows them, quarter ticks, dyadic, negative"""
    r = rng.random()
    if s is not None and r < 0.35:
        t = (2 * rng.randint(0, 1 << rng.choice([3, 8])) + 1) / float(1 << s)
        return -t if rng.random() < 0.2 else t
    if r < 0.55:
        return (rng.randint(0, 5000) + rng.choice([0, 0.25, 0.5, 0.75])) * mpq / (1e6 * ppq)
    if r < 0.85:
        return rng.randint(0, 1 << 14) / 64.0
    return -rng.randint(0, 1 << 10) / 64.0


def _fh_shape(rng):
    r = rng.random()
    if r < 0.10:
        return []
    if r < 0.18:
        return [0]
    if r < 0.30:
        return [1]
    if r < 0.38:
        return [2, rng.randint(1, 3)]
    return [rng.randint(2, 5)]


def _fh_arr(rng, shape, dtype, gen):
    n = 1
    for d in shape:
        n *= d
    vals = []
    for _ in range(n):
        v = gen()
        if dtype.startswith("i"):
            v = int(round(v))
        vals.append(v.hex() if isinstance(v, float) else v)
    return {"t": "arr", "dtype": dtype, "shape": shape, "v": vals}


def gen_fn_history_arrays(rng, length):
    """arrays and the duration dict.  Two (ppq, mpq) pairs, the second sharing one component with the first in 60% (a cache
    keyed by part of the arguments answers for the wrong pair); both pairs are applied to the SAME arrays and scalars."""
    ppq, mpq, s = rng.choice(TIE_PAIRS) if rng.random() < 0.6 else rng.choice(PAIRS) + (None,)
    r = rng.random()
    pair2 = (ppq * 2, mpq) if r < 0.3 else (ppq, mpq // 2) if r < 0.6 else rng.choice(PAIRS)
    pairs = [(ppq, mpq), pair2]

    def num(v):   # ppq / mpq as Python ints or numpy ints
        return {"t": "num", "kind": rng.choice(["int", "int", "int", "int64", "int32"]), "v": v}

    def tgen():
        return _fh_time(rng, ppq, mpq, s)
    V = {}
    for n in ("a", "b"):
        V[n] = _fh_arr(rng, _fh_shape(rng), rng.choice(["f8", "f8", "f8", "f4", "i8", "i4"]), tgen)
    V["k"] = _fh_arr(rng, _fh_shape(rng), rng.choice(["i8", "i4", "i4", "f8"]), lambda: rng.choice([rng.randint(0, 2000), rng.randint(4000, 200000)]))
    V["m"] = _fh_arr(rng, _fh_shape(rng), rng.choice(["i8", "i4", "f8", "f4"]), lambda: rng.randint(0, 127))
    V["sd"] = {"t": "dict", "v": {"type": rng.choice(sorted(LAB)), "dots": rng.randint(0, 3)}}
    if rng.random() < 0.5:
        V["sd"]["v"].update(actual_notes=rng.choice([3, 5, 6, 7]), normal_notes=rng.choice([2, 4, 8]))
    ops, res = [], []
    names = {"time": ["a", "b"], "tick": ["k"], "pitch": ["m"], "freq": []}
    cnt = [0]

    def call(fn, args, role):
        cnt[0] += 1
        out = "r%d" % cnt[0]
        ops.append(["call", fn, args, out])
        if role:
            names[role].append(out)
        res.append(out)
        return out

    def edit(name, role):
        """edit a variable in place: an element, a scaling (unit change), all through numpy's own in-place operations"""
        if rng.random() < 0.75:
            v = {"time": tgen, "tick": lambda: rng.randint(0, 200000), "pitch": lambda: rng.randint(0, 127),
                 "freq": lambda: 440.0 * 2.0 ** (rng.randint(-40, 40) / 12.0)}[role]()
            if role in ("tick", "pitch") and rng.random() < 0.7:
                v = int(v)
            ops.append(["write", name, rng.randint(0, 5), {"t": "num", "kind": "float" if isinstance(v, float) else "int", "v": v.hex() if isinstance(v, float) else v}])
        else:
            ops.append(["iscale", name, rng.choice([2, 2, 0.5, 3])])

    def s2t(src, p):
        fn = rng.choice(["s2t", "s2t", "s2t", "s2t_kw", "s2t_alias"])
        return call(fn, [["v", src], ["c", num(pairs[p][1])], ["c", num(pairs[p][0])]], "tick")

    def t2s(src, p):
        return call("t2s", [["v", src], ["c", num(pairs[p][1])], ["c", num(pairs[p][0])]], "time")

    while len(ops) < length:
        r = rng.random()
        if r < 0.40:      # seconds -> ticks, edit (the argument or the result), again -- same pair or the sibling pair
            src, p = rng.choice(names["time"]), rng.randrange(2)
            out = s2t(src, p)
            r2 = rng.random()
            if r2 < 0.45:
                edit(src, "time")
            elif r2 < 0.75:
                edit(out, "tick")
            s2t(src, p if rng.random() < 0.6 else 1 - p)
            if rng.random() < 0.4:
                t2s(out, p)
        elif r < 0.60:    # ticks -> seconds, edit, again; and back
            src, p = rng.choice(names["tick"]), rng.randrange(2)
            out = t2s(src, p)
            r2 = rng.random()
            if r2 < 0.4:
                edit(src, "tick")
            elif r2 < 0.75:
                edit(out, "time")
            t2s(src, p if rng.random() < 0.6 else 1 - p)
            if rng.random() < 0.4:
                s2t(out, p)
        elif r < 0.70:    # a scalar of every kind, both pairs in both orders
            v = tgen()
            if rng.random() < 0.3:
                v = int(abs(v))
            c = ["c", _fh_num(rng, v)]
            order = [0, 1, 0] if rng.random() < 0.5 else [1, 0, 1]
            for p in order:
                call("s2t", [c, ["c", num(pairs[p][1])], ["c", num(pairs[p][0])]], None)
        elif r < 0.85:    # pitch <-> frequency with two tunings
            a4 = rng.sample(FH_A4, 2)
            src = rng.choice(names["pitch"])
            f = call("m2f", [["v", src], ["c", {"t": "lit", "v": a4[0]}]], "freq")
            r2 = rng.random()
            if r2 < 0.35:
                edit(src, "pitch")
            elif r2 < 0.6:
                edit(f, "freq")
            call("f2m", [["v", f], ["c", {"t": "lit", "v": a4[0]}]], "pitch")
            call("m2f", [["v", src], ["c", {"t": "lit", "v": a4[rng.randrange(2)]}]], "freq")
            call("f2m", [["v", f], ["c", {"t": "lit", "v": a4[1]}]], None)
            if rng.random() < 0.5:
                c = ["c", _fh_num(rng, rng.choice([rng.randint(0, 127), 440.0, 261.6255653005986, 27.5]))]
                for a in (a4[0], a4[1], a4[0]):
                    call("m2f" if c[1]["v"] in range(128) else "f2m", [c, ["c", {"t": "lit", "v": a}]], None)
        else:             # the duration dict: convert, edit an entry, convert again; the same unit with other dots / tempo
            divs = ["c", num(rng.choice([1, 4, 12, 480]))]
            call("symdur", [["v", "sd"], divs], None)
            r2 = rng.random()
            if r2 < 0.3:
                ops.append(["dset", "sd", "dots", rng.randint(0, 3)])
            elif r2 < 0.55:
                ops.append(["dset", "sd", "type", rng.choice(sorted(LAB))])
            elif r2 < 0.75:
                ops.append(["dset", "sd", rng.choice(["actual_notes", "normal_notes"]), rng.choice([2, 3, 4, 5])])
            elif r2 < 0.85:
                ops.append(["ddel", "sd", rng.choice(["actual_notes", "normal_notes", "dots"])])
            call("symdur", [["v", "sd"], divs if rng.random() < 0.6 else ["c", num(rng.choice([1, 4, 12, 480]))]], None)
            u = rng.choice(sorted(LAB))
            for k in rng.sample(range(4), 2):
                call("tqt", [["c", {"t": "lit", "v": u + "." * k}], ["c", _fh_num(rng, rng.choice([60, 100, 72.5, 1]))]], None)
    return {"kind": "history", "object": "functions", "vars": V, "ops": ops}


def gen_fn_history_scalars(rng, length):
    """the pure scalar conversions: a small pool of arguments that collide under every partial key (same step and octave,
    another alteration; same name, another octave; same fifths, another mode), each pair in both orders"""
    ops = []
    cnt = [0]

    def lit(v):
        return ["c", {"t": "lit", "v": v}]

    def npint(v):
        return ["c", {"t": "num", "kind": rng.choice(["int64", "int32"]), "v": v}] if rng.random() < 0.15 else lit(v)

    def call(fn, args):
        cnt[0] += 1
        ops.append(["call", fn, args, "r%d" % cnt[0]])

    st = rng.sample(STEPS7, 2)
    alts = rng.sample([-2, -1, 0, 1, 2, 3, -3], 2)
    octs = rng.sample(range(-1, 10), 2)
    while len(ops) < length:
        r = rng.random()
        if r < 0.3:
            x = [(rng.choice(st), rng.choice(alts), rng.choice(octs)) for _ in range(2)]
            fn = rng.choice(["ps2m", "ps2nn", "step2pc"])
            for s_, a_, o_ in (x[0], x[1], x[0], x[1], x[0]) if rng.random() < 0.5 else (x[1], x[0], x[1]):
                call(fn, [lit(s_), npint(a_)] + ([npint(o_)] if fn != "step2pc" else []))
        elif r < 0.5:
            ms = [rng.randint(0, 127), rng.randint(0, 127)]
            ms.append(ms[0] % 12 + 12 * rng.randint(0, 9))   # the same pitch class in another octave
            for m in (ms[0], ms[2], ms[1], ms[0]):
                call("m2ps", [npint(m)])
        elif r < 0.7:
            nm = [rng.choice(st) + rng.choice(DOC_ACC) + str(rng.choice([0, 4, 9, 10, 12])) for _ in range(2)]
            nm.append(nm[0][:-1] + "3")
            fn = rng.choice(["nn2ps", "nn2m"])
            for n in (nm[0], nm[2], nm[1], nm[0], nm[2]):
                call(fn, [lit(n)])
        elif r < 0.9:
            fs = rng.sample(range(-8, 9), 2)
            md = rng.sample([m for m, _ in MODES], 2)
            for f, m in ((fs[0], md[0]), (fs[0], md[1]), (fs[1], md[0]), (fs[0], md[0])):
                call("f2k", [npint(f), lit(m)])
                e = key_expect(f, m)
                if e is not None and rng.random() < 0.5:
                    call("k2f", [lit(e)])
            for m in md + md[:1]:
                call(rng.choice(["mode2int", "int2mode"]), [lit(m)])
        else:
            for sg in rng.sample(["G", "F", "C", "percussion", "TAB", "none"], 3):
                call("clef", [lit(sg)])
    return {"kind": "history", "object": "functions", "vars": {}, "ops": ops}


def _fh_server():
    """Child side of FreshFn: imports the library, then answers every request {"hist": ...} from a forked child, so each
    history starts from the module state right after import (the server itself never calls the library)."""
    import json, sys, resource
    core.setup_import_path()
    import partitura.score  # noqa
    import partitura.utils.music  # noqa
    sys.stdout.write("ready\n")
    sys.stdout.flush()
    for line in sys.stdin:
        line = line.strip()
        if not line:
            continue
        rfd, wfd = os.pipe()
        pid = os.fork()
        if pid == 0:
            os.close(rfd)
            try:
                resource.setrlimit(resource.RLIMIT_CPU, (60, 60))   # CPU-time guard
                out = json.dumps([list(f) for f in run_fn_history(json.loads(line)["hist"])[0]])
            except BaseException as e:   # noqa
                out = json.dumps({"server_error": "%s: %s" % (type(e).__name__, e)})
            with os.fdopen(wfd, "w") as w:
                w.write(out)
            os._exit(0)
        os.close(wfd)
        with os.fdopen(rfd) as r:
            data = r.read()
        os.waitpid(pid, 0)
        sys.stdout.write((data or json.dumps({"server_error": "child died"})) + "\n")
        sys.stdout.flush()


class FreshFn:
    """run_fn_history in the state right after import (used to shrink: in the checking process the caches are warm)"""

    def __init__(self):
        import subprocess, sys
        hdir = os.path.dirname(os.path.dirname(os.path.abspath(__file__)))
        code = "import sys; sys.path.insert(0, %r); import core; from props import c12; c12._fh_server()" % hdir
        self.p = subprocess.Popen([sys.executable, "-c", code], stdin=subprocess.PIPE, stdout=subprocess.PIPE,
                                  stderr=subprocess.DEVNULL, text=True)
        first = self.p.stdout.readline().strip()
        if first != "ready":
            raise RuntimeError("fresh interpreter did not start: %r" % first)

    def fails(self, hist):
        import json
        self.p.stdin.write(json.dumps({"hist": hist}) + "\n")
        self.p.stdin.flush()
        out = json.loads(self.p.stdout.readline())
        if isinstance(out, dict):
            raise RuntimeError(out["server_error"])
        return [tuple(f) for f in out]

    def close(self):
        try:
            self.p.stdin.close()
            self.p.wait(timeout=10)
        except Exception:
            self.p.kill()


def fh_merge(hists):
    """several histories as one (variables renamed apart): the earlier ones are the 'same process, other inputs first' part"""
    V, ops = {}, []
    for j, h in enumerate(hists):
        pre = "h%d_" % j
        V.update({pre + n: sp for n, sp in h["vars"].items()})
        for o in h["ops"]:
            if o[0] == "call":
                ops.append(["call", o[1], [["v", pre + a[1]] if a[0] == "v" else a for a in o[2]], pre + o[3]])
            else:
                ops.append([o[0], pre + o[1]] + list(o[2:]))
    return {"kind": "history", "object": "functions", "vars": V, "ops": ops}


def shrink_fn_history(hist, earlier=(), fresh=None):
    """ddmin over the operations IN A FRESH INTERPRETER STATE per candidate (operations whose variables are not bound are
    skipped by the runner, so every subsequence runs); a sub-history counts when it fails with the same kind of failure.
    When the history alone does not fail from a fresh state, the histories that ran before it in this process are
    put in front (module-level state filled by other inputs).  -> (history, failures, note)"""
    own = fresh is None
    try:
        fresh = fresh or FreshFn()
        cands = [hist] + ([fh_merge(list(earlier) + [hist])] if earlier else [])
        for h in cands:
            f0 = fresh.fails(h)
            if not f0:
                continue
            tag = f0[0][0].split(":")[0]

            def still(sub):
                try:
                    f = fresh.fails(dict(h, ops=[list(o) for o in sub]))
                    return bool(f) and f[0][0].split(":")[0] == tag
                except Exception:
                    return False
            small = dict(h, ops=[list(o) for o in core.ddmin(h["ops"], still)]) if len(h["ops"]) > 1 else h
            used = {a[1] for o in small["ops"] if o[0] == "call" for a in o[2] if a[0] == "v"} | {o[1] for o in small["ops"] if o[0] != "call"}
            small = dict(small, vars={n: sp for n, sp in small["vars"].items() if n in used})
            return small, fresh.fails(small) or f0, "shrunk in a fresh interpreter state"
        return hist, None, "NOT reproduced from a fresh interpreter state, alone or after the %d histories before it: it depends on what ran earlier in the checking process" % len(earlier)
    except Exception as e:
        return hist, None, "not shrunk: %r" % (e,)
    finally:
        if own and fresh is not None:
            fresh.close()


def run_fn_histories(ctx):
    import json
    rng = ctx.rng
    quick = ctx.tier == "quick"
    funcs = fh_functions()
    hists = []
    try:
        with open(os.path.join(core.VERIF, "corpus", "C12", "fn_histories.json")) as fh:
            for h in json.load(fh):
                hists.append({"kind": "history", "object": "functions", "vars": h["vars"], "ops": h["ops"]})
        ctx.count("fnhistory:corpus_histories", len(hists))
    except (OSError, ValueError, KeyError) as e:
        ctx.extra["fn_history_corpus"] = "not read: %r" % (e,)
    for _ in range(260 if quick else 2600):
        hists.append(gen_fn_history_arrays(rng, rng.randint(6, 12)))
    for _ in range(120 if quick else 1200):
        hists.append(gen_fn_history_scalars(rng, rng.randint(8, 16)))
    failed, good = [], []
    for hi, hist in enumerate(hists):
        try:
            fails, trace = run_fn_history(hist, funcs)
        except Exception as e:   # a harness error must not hide behind a pass
            fails, trace = [("harness", "the history runner raised %r" % (e,))], []
        ctx.evaluations += len(trace)
        ctx.count("fnhistory:histories")
        for op, got, _ in trace:
            ctx.count("fnhistory:op_" + (op[0] if op[0] != "call" else "call_" + op[1]))
            if op[0] == "call" and got is not None and got[0] == "ok":
                for a in op[2]:
                    if a[0] == "v" and a[1] in hist["vars"] and hist["vars"][a[1]]["t"] == "arr":
                        sp = hist["vars"][a[1]]
                        ctx.count("fnhistory:arg_%s_%s" % (sp["dtype"], "0d" if sp["shape"] == [] else "empty" if 0 in sp["shape"] else
                                                           "one" if sp["shape"] == [1] else "2d" if len(sp["shape"]) == 2 else "1d"))
                    elif a[0] == "c" and a[1]["t"] == "num":
                        ctx.count("fnhistory:scalar_kind_" + a[1]["kind"])
        if fails:
            failed.append((hist, fails, hists[max(0, hi - 4):hi]))
            continue
        ctx.nontrivial(("fnh", json.dumps(hist["ops"], sort_keys=True, default=str)[:4000], json.dumps(hist["vars"], sort_keys=True)[:2000]))
        good.append((hist, trace))
        if len(good) == 2:
            ctx.sample({"function_history": {"vars": hist["vars"], "steps": [fh_op_text(o) + ("" if g is None else " -> " + (fh_show(g[1]) if g[0] == "ok" else repr(g))) for o, g, _ in trace]}})
    ctx.count("fnhistory:histories_failing", len(failed))
    seen, fresh = set(), None
    try:
        for hist, fails, earlier in failed:
            tag = fails[0][0].split(":")[0] if fails[0][0].startswith(("argument", "other", "shared", "table")) else fails[0][0]
            if tag in seen or len(seen) >= 3:
                continue
            seen.add(tag)
            fresh = fresh or FreshFn()
            small, f2, note = shrink_fn_history(hist, earlier, fresh)
            f2 = f2 or fails
            ctx.violation("state carried between calls of the conversion functions [%s; %s]: %s" % (f2[0][0], note, f2[0][1][:900]),
                          dict(small, failures=[list(x) for x in f2], note=note))
    finally:
        if fresh is not None:
            fresh.close()
    # correspondence: every seconds<->ticks call of the accepted histories, element by element, through the model
    terms, kept = [], []
    for hist, trace in good:
        for op, got, args in trace:
            if op[0] != "call" or got[0] != "ok" or op[1] not in ("s2t", "s2t_kw", "s2t_alias", "t2s"):
                continue
            exp = fh_expect(op[1], args)
            if exp[0] != "elems":
                continue
            _, ins, _ = fh_elems(args[0])
            _, outs, _ = fh_elems(got[1])
            mpq, ppq = int(args[1]), int(args[2])
            for x, y, it in zip(ins, outs, exp[2]):
                if it[0] == "any" or len(terms) >= (6000 if quick else 60000):
                    continue
                if op[1] == "t2s":
                    if float(x) != int(x):
                        continue
                    terms.append("(%s, %s, %s, %s, %s)" % (cz(ppq), cz(mpq), cq(Fraction(mpq) * int(x) / (10 ** 6 * ppq)), cz(int(x)), cq(Fraction(y))))
                else:
                    terms.append("(%s, %s, %s, %s, %s)" % (cz(ppq), cz(mpq), cq(Fraction(x)), cz(int(y)), cq(Fraction(0))))
                kept.append({"kind": "history-element", "call": fh_op_text(op), "ppq": ppq, "mpq": mpq, "in": x, "out": y})
    failing = ctx.coq_failing("fnhistory", "From PV Require Import Model.C12.", "", terms,
                              "fun c => match c with (ppq, mpq, t, k, b) => Z.eqb (sec_to_tick ppq mpq t) k && "
                              "(Qeq_bool b 0 || q_close b (tick_to_sec ppq mpq k)) end")
    ctx.obligation("correspondence: model sec_to_tick / tick_to_sec = every element returned by seconds_to_midi_ticks / midi_ticks_to_seconds inside the "
                   "function histories (%d elements; arrays of every dtype and shape after in-place edits, results fed back)" % len(terms),
                   not failing, failing[:5])
    for i in failing[:3]:
        ctx.violation("model/implementation disagree on an element of a function history", kept[i])
    return good


def run_again(ctx, T, tabs0):
    """Same process, after every stream of this run has gone through the library: the constant tables are what they were
    before the first call, and the complete tabulation gives the same graph again (a table entry changed, a cache
    filled by the first pass or by the histories would show here)."""
    d = tables_diff(tabs0, tables_snapshot())
    ctx.obligation("state: the constant tables C12 lists are unchanged after all calls of this run", not d, d[:5])
    if d:
        ctx.violation("a constant table was changed by calls into the library during this run: " + "; ".join(d)[:600],
                      {"kind": "tables", "changed": d[:10]})
    T2 = tabulate()
    diff = []
    for k in sorted(T):
        if isinstance(T[k], list) and T[k] != T2.get(k):
            rows = [(a, b) for a, b in zip(T[k], T2.get(k) or []) if a != b]
            diff.append((k, rows[0] if rows else ("length", len(T[k]), len(T2.get(k) or []))))
    ctx.evaluations += sum(len(v) for v in T2.values() if isinstance(v, list))
    ctx.obligation("state: tabulating every finite domain a second time in the same process (after the sampled streams and the histories) "
                   "gives the same %d tables" % len(T), not diff, [str(x)[:300] for x in diff[:5]])
    for k, row in diff[:3]:
        ctx.violation("second tabulation in the same process differs in table %s: first pass / second pass %s" % (k, str(row)[:500]),
                      {"kind": "retabulate", "table": k, "row": str(row)[:800]})


def run(ctx):
    ctx.rule = ("T2: every function and constant table named by C12 is executed / read on its whole finite domain (539 spellings "
                "for the function, Note.midi_pitch and the printed names, 128 MIDI pitches, 7x7 pitch classes, 567 strings of the "
                "note-name grammar (8 documented accidental strings x 6 octave strings incl. multi-digit, all 32 other strings of "
                "up to 3 signs), 25x9 fifths/mode spellings for the function and KeySignature.name, 30 key names, 8x7x2 intervals, "
                "14 units x 4 dots x 5 tempi, x 15 bpm values, x 7 tuplet ratios x 3 divisions, 6 ratios x 14x14 tuplet types, "
                "128x3 frequencies) and the resulting graph is re-proved in the Coq kernel.  Sampled streams (from VERIF_SEED): "
                "(ppq,mpq,t) triples -- 20% constructed exact half ticks t = odd/2^s for pairs with integer 10^6*ppq/mpq (even and "
                "odd floor, a quarter negative), 15% k+{0,.25,.5,.75} ticks, 25% dyadic, 10% negative, 10% Python int, 20% uniform; "
                "each through the scalar, numpy-scalar, 1-d array and whole-group (mixed sign, 1-d and 2-d) array paths; spellings "
                "with alter -12..12 / octave -60..120, MIDI pitches -600..1500, printed names with octaves up to 10^6, grammar "
                "strings (60% documented accidentals), fifths up to +-10^4, tempi 10..400 bpm.  Non-trivial = table rows with "
                "alter<>0 or octave<>4 or an out-of-range/rejected argument, tick cases with a fractional tick, every distinct "
                "sampled beyond-domain input.  HISTORY stream (state carried on an object between calls): real score.Interval "
                "objects made by the constructor -- all 39 classes x 2 directions twice, 60 of them again, 60 compound inits "
                "(numbers 8..16) -- each under 5-9 (thorough 6-14) generated operations + a closing sweep of all reads: "
                ".semitones 24%, transpose_note 18%, change_quality 24% (half a move that stays on the ladder, else 0 / one beyond "
                "an end / -6..6), quality:= 10% (70% valid for the number), number:= 9% (60% 1..7, 25% 8..16, else 0/negative/"
                "large), direction:= 5%, validate 6%, str 4%; after EVERY step the observation and the public fields are judged "
                "from the object's current fields through an independent table, and against a freshly constructed Interval of "
                "those fields; likewise 60 histories each of Note (step/alter/octave := ; midi_pitch, alter_sign), Tuplet "
                "(duration_multiplier), KeySignature (name), Tempo (microseconds_per_quarter).  Each distinct history is one "
                "non-trivial case.  FUNCTION-HISTORY stream (state carried between calls of the module-level conversions; "
                "quick 260 array + 120 scalar histories + corpus/C12/fn_histories.json): a pool of numpy arrays (times f8 50% / "
                "f4 / i8 / i4, ticks i8 / i4 / f8, pitches i8 / i4 / f8 / f4; shapes 0-d 10%, empty 8%, one element 12%, 2-d 8%, "
                "else 2-5 elements; times 35% exact half ticks of the pair, 20% k+{0,.25,.5,.75} ticks, dyadic, 15% negative) and a "
                "symbolic-duration dict, with a shadow pool of private copies; 6-12 operations from: seconds->ticks (positional, "
                "time_in_seconds=, deprecated t=) 40% then edit the argument (45%) or the returned array (30%) in place (element "
                "write 75%, `*=` 25%) and convert again under the same or the sibling (ppq, mpq) pair (second pair shares ppq or mpq "
                "with the first in 60%), 40% fed back through ticks->seconds; ticks->seconds likewise 20%; one scalar of every kind "
                "(Python int/float, numpy int32/int64/float32/float64) under both pairs in both orders 10%; pitch<->frequency under "
                "two tunings 15%; the duration dict converted, edited (dots/type/tuplet entries set or deleted), converted again + "
                "to_quarter_tempo of one unit with two dot counts 15%; mpq/ppq as Python or numpy ints (40%).  Scalar histories: "
                "spelling/name/MIDI/key/mode/clef conversions on a small pool of arguments that collide under every partial key, each "
                "pair in both orders.  After EVERY operation: result judged from the current argument values by the independent "
                "oracles; every variable equals its shadow; same call on fresh copies; at the end all calls again in reverse order "
                "and the constant tables unchanged.  Finally the whole tabulation is repeated in the same process and compared.")
    ctx.trusted = ["Coq 8.16.1 kernel incl. vm_compute", "T2 tabulator harness/props/c12.py (runs the real functions, prints Coq literals)",
                   "Python-side oracle used only to name the failing row", "determinism of the tabulated pure functions",
                   "history stream: the operation runner / field reader of harness/props/c12.py (run_iv_history) and the printing of "
                   "observed histories as Coq terms",
                   "function-history stream: run_fn_history (pool / shadow pool bookkeeping, numpy's own in-place operations as the edits)"]
    ctx.assumptions = ["floats in tables are converted to the exact rationals they denote",
                       "near-tie tick cases (exact value within 2^-20 of .5 but not on it) are counted and skipped",
                       "float-valued results (tempo, durations, frequencies) are compared with relative tolerance 1e-9; "
                       "microseconds_per_quarter within 1/2 + 1e-6 of the exact value"]
    tabs0 = tables_snapshot()   # the constant tables before anything of this run has called into the library
    T = gen()
    n_rows = 0
    for k, v in T.items():
        if isinstance(v, list):
            n_rows += len(v)
            ctx.count("rows:" + k, len(v))
    ctx.evaluations += n_rows
    ctx.extra["dummy_spelling_table_source"] = T["dummy_ps_source"]
    for (st, al, oc), r in T["ps_to_midi"]:
        if al != 0 or oc != 4:
            ctx.nontrivial(("ps", st, al, oc))
    for (f, mi), r in T["key_name"]:
        if abs(f) > 7 or mi >= 6:
            ctx.nontrivial(("key", f, mi))
    for n, r, m in T["name_grammar"]:
        ctx.nontrivial(("gram", n))
    for k, r in T["tuplet"] + T["mpq"]:
        ctx.nontrivial(("row", k))
    ctx.sample({"table": "key_name", "row": [T["key_name"][0][0], T["key_name"][0][1]]})
    ctx.sample({"table": "ps_to_midi", "row": [T["ps_to_midi"][5][0], T["ps_to_midi"][5][1]]})
    ctx.sample({"table": "name_grammar", "row": list(T["name_grammar"][200])})
    ctx.sample({"table": "tuplet", "row": [T["tuplet"][17][0], str(T["tuplet"][17][1])]})
    bad = oracle(T)
    # T1 tie (harness/t1.py): equivalence proofs of the definitions translated from the source text; a function outside
    # the translator's subset is stubbed (soft fall-back, no obligation fails); a proof that no longer compiles is
    # reported there with a concrete differing input when one is found
    t1_ok = t1.tie(ctx, "C12")
    ok, why = ctx.coq_props(expect_min=91)
    for fn, arg, got, exp in bad[:10]:
        ctx.violation("%s(%r) = %r, expected %r" % (fn, arg, got, exp), {"function": fn, "args": arg, "got": got, "expected": exp})
    if not ok and not bad and t1_ok:
        ctx.violation("proof obligations of Props/C12.v no longer check: " + why, {"theorem_or_build": why}, no_input=True)
    if ok:
        run_ticks(ctx)
        run_beyond(ctx)
        run_namesearch(ctx)
        run_histories(ctx, with_tr=False, objects=True)
        run_fn_histories(ctx)
        run_again(ctx, T, tabs0)
    ctx.extra["exhaustive"] = True
    ctx.extra["exhaustive_note"] = "finite domains named by the property are enumerated completely; the ticks / beyond-domain streams are sampled"


def replay(obj):
    """Re-run one stored replay on the implementation and print both sides."""
    import numpy as np
    import partitura.utils.music as M
    print(json_dumps(obj))
    r = obj.get("replay", {})
    if r.get("kind") == "t1":
        return t1.replay(r)
    if r.get("kind") == "history":
        return replay_history(r)
    if "ppq" in r and "t" in r:
        t = float.fromhex(r["t"]) if isinstance(r["t"], str) else r["t"]
        exact = Fraction(10 ** 6) * r["ppq"] * Fraction(t) / r["mpq"]
        print("seconds_to_midi_ticks(%r, mpq=%d, ppq=%d): scalar %r, array %r; round(1e6*ppq*t/mpq) = %d (exact value %s)" % (
            t, r["mpq"], r["ppq"], _try(M.seconds_to_midi_ticks, t, r["mpq"], r["ppq"]),
            _try(lambda: [int(x) for x in M.seconds_to_midi_ticks(np.array([float(t)]), r["mpq"], r["ppq"])]), rhe(exact), exact))
    elif "times" in r:
        ts = np.array([float.fromhex(x) for x in r["times"]]).reshape(r["shape"])
        print("seconds_to_midi_ticks(array):", _try(lambda: [int(x) for x in np.asarray(M.seconds_to_midi_ticks(ts, r["mpq"], r["ppq"])).ravel()]))
        print("expected                    :", r["expected"])
    elif "function" in r:
        fn = getattr(M, str(r["function"]), None)
        if callable(fn) and isinstance(r.get("args"), list):
            print("now: %s(%s) = %r" % (r["function"], ", ".join(map(repr, r["args"])), _try(fn, *r["args"])))
        print("recorded: got", r.get("got"), "expected", r.get("expected"))
    return 0


def replay_history(r):
    """re-run one stored history on a real object, printing every step: observation, fields, what the current fields define"""
    core.setup_import_path()
    if r.get("object") == "functions":
        print("variables:")
        for n, sp in sorted(r["vars"].items()):
            print("  %s = %s" % (n, fh_show(fh_build(sp))))
        fails, trace = run_fn_history(r, verbose=print)
        print("oracle now says:", [list(f) for f in fails] or "every call returned what its current arguments define; nothing else changed")
    elif r.get("object") == "interval":
        fails, trace = run_iv_history(r)
        f = tuple(r["init"])
        print("iv = Interval%r" % (f,))
        for op, got, now in trace:
            exp, f = iv_expect(f, tuple(op))
            print("  iv%-40s -> %-28r fields now %r; from the fields: %r" % (op_text(tuple(op)) if op[0] not in ("tn", "tr") else " in " + op_text(tuple(op)), got, now, exp))
            f = tuple(f) if exp[0] != "any" else now
        print("oracle now says:", fails or "every step returned what the current fields define")
    elif "ops" in r:
        fails, reads = run_obj_history(r)
        for f, attr, got in reads:
            print("  fields %r: .%s -> %r; from the fields: %r" % (f, attr, got, obj_expect(r["object"], f, attr)))
        print("oracle now says:", fails or "every read returned what the current fields define")
    else:
        print("recorded:", r)
    return 0


def json_dumps(o):
    import json
    return json.dumps(o, indent=1, default=str)
